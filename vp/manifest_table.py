"""Single source for MANIFEST.json (bin/mkmanifest).  One entry per property with a built check."""
CHECKS = {
    "C15": dict(
        level="model_checking", engine="statebfs",
        technique="explicit-state exploration of all write histories up to depth 3-4 on the real CooMatrix vs a dense reference model",
        text="Every history over a ~40-letter write alphabet (index kinds x value kinds incl. None, empty blocks, duplicate "
             "indices, scipy sparse arrays with duplicates, nested containers, inconsistent shapes) up to depth 2-3 (quick) / 3-4 "
             "(thorough) on five shapes is executed on a fresh real container; after every write all eight conversions must equal "
             "the dense reference, rejected writes must leave the container unchanged. Plus one >=40-write chain per shape.",
        note="Trusted: numpy dense accumulation as reference model; values are dyadic so accumulation order cannot matter. "
             "Histories deeper than the bound are covered only by the chain; negative/out-of-range indices are outside the alphabet.",
        design="§3 C15"),
    "C21": dict(
        level="fault_enumeration", engine="faults",
        technique="deviation-bounded fault enumeration: every single (and every pair of) Newton-solve / fixed-point-loop / integrator decision point of real 5-step solver runs forced to report non-convergence",
        text="For 8 solvers x smooth/contact scenarios x continue_with_unconverged x reuse_lu, a dry run records the ordered decision points; "
             "every subset of size 1 (quick: size<=2 on part of the configurations; thorough: size<=2 everywhere) is forced to fail on the real "
             "solver and the outcome is judged against the contract (exception, or exactly the converged rows + a warning naming the stop time; "
             "with the flag: a new warning and a full-length result). Smooth wrappers on contact systems must warn or raise.",
        note="Trusted: harness-side interposition (rebinding of the fsolve name imported by solver modules, options proxy, helper wrappers); "
             "a forced Newton failure is the real fsolve with 1 iteration and unreachable tolerances. Failures of 3 or more decision points in one "
             "run, other scenarios and horizons > 5 steps are outside the bound.",
        design="§3 C21"),
    "C22": dict(
        level="exploration", engine="grid",
        technique="exhaustive product enumeration of problem family x dimension x tolerances x iteration limits x Jacobian modes on the real helpers, results re-judged from the user function",
        text="fsolve: 7 residual families (well/ill conditioned linear up to cond 1e10, quadratic, no real root, exp, Rosenbrock gradient) x n in {1,2,4,8} x 2 starts x "
             "3x3 tolerances x 4 iteration limits x 6 Jacobian modes (exact, 2-point, 3-point, cs, reused SuperLU, chord) = 12k solves: success implies the scaled criterion "
             "recomputed at the returned x, failure implies a warning, reported residual belongs to the returned x. Fixed-point helpers: 2 x 7 map families x n=1..8 x 6 tolerance "
             "pairs x 4 limits: returned point is the accepted iterate or meets the criterion itself, else the helper raised. approx_fprime: 5 functions x 3 methods x 3 steps within C*eps^p.",
        note="Trusted: the harness's own evaluation of the user functions; the stated form of the criteria (documented in the helpers). Problems outside the families are not covered.",
        design="§3 C22"),
    "C20": dict(
        level="exploration", engine="grid",
        technique="exhaustive enumeration of (t0, dt, k) time grids x solvers and of systems x solvers on the real solvers; contract checked on every returned Solution",
        text="Every (t0, dt, t1=t0+k*dt and non-multiples) grid of the alphabet (3 x 8 x 16-34) is run through the six dynamic solvers on a free point mass: "
             "grid starts at t0, advances by dt, ends at the first grid point at or after t1 (decimal multiples that are not binary multiples included). For 4 systems x all solvers "
             "(+Newton, Riks): every array field has len(t) rows and the system dimension as width, list(sol) equals the rows, dill save/load preserves every field bit-exactly.",
        note="Trusted: a grid point within 1e-9*dt of t1 counts as 'at t1'. Truncated runs are not judged here (C21). Other systems/horizons are outside the alphabet.",
        design="§3 C20"),
}
NOT_APPLICABLE = {}
