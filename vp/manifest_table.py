"""Single source for MANIFEST.json (bin/mkmanifest).  One entry per property with a built check."""
CHECKS = {
    "C15": dict(
        level="model_checking", engine="statebfs",
        technique="explicit-state exploration of all write histories up to depth 3-4 on the real CooMatrix vs a dense reference model",
        text="Every history over a ~40-letter write alphabet (index kinds x value kinds incl. None, empty blocks, duplicate "
             "indices, scipy sparse arrays with duplicates, nested containers, inconsistent shapes) up to depth 2-3 (quick) / 3-4 "
             "(thorough) on five shapes is executed on a fresh real container; after every write all eight conversions must equal "
             "the dense reference, rejected writes must leave the container unchanged. Plus one >=40-write chain per shape.",
        note="Trusted: numpy dense accumulation as reference model; values are dyadic so accumulation order cannot matter. "
             "Histories deeper than the bound are covered only by the chain; negative/out-of-range indices are outside the alphabet.",
        design="§3 C15"),
    "C21": dict(
        level="fault_enumeration", engine="faults",
        technique="deviation-bounded fault enumeration: every single (and every pair of) Newton-solve / fixed-point-loop / integrator decision point of real 5-step solver runs forced to report non-convergence",
        text="For 8 solvers x smooth/contact scenarios x continue_with_unconverged x reuse_lu, a dry run records the ordered decision points; "
             "every subset of size 1 (quick: size<=2 on part of the configurations; thorough: size<=2 everywhere) is forced to fail on the real "
             "solver and the outcome is judged against the contract (exception, or exactly the converged rows + a warning naming the stop time; "
             "with the flag: a new warning and a full-length result). Smooth wrappers on contact systems must warn or raise.",
        note="Trusted: harness-side interposition (rebinding of the fsolve name imported by solver modules, options proxy, helper wrappers); "
             "a forced Newton failure is the real fsolve with 1 iteration and unreachable tolerances. Failures of 3 or more decision points in one "
             "run, other scenarios and horizons > 5 steps are outside the bound.",
        design="§3 C21"),
    "C22": dict(
        level="exploration", engine="grid",
        technique="exhaustive product enumeration of problem family x dimension x tolerances x iteration limits x Jacobian modes on the real helpers, results re-judged from the user function",
        text="fsolve: 7 residual families (well/ill conditioned linear up to cond 1e10, quadratic, no real root, exp, Rosenbrock gradient) x n in {1,2,4,8} x 2 starts x "
             "3x3 tolerances x 4 iteration limits x 6 Jacobian modes (exact, 2-point, 3-point, cs, reused SuperLU, chord) = 12k solves: success implies the scaled criterion "
             "recomputed at the returned x, failure implies a warning, reported residual belongs to the returned x. Fixed-point helpers: 2 x 7 map families x n=1..8 x 6 tolerance "
             "pairs x 4 limits: returned point is the accepted iterate or meets the criterion itself, else the helper raised. approx_fprime: 5 functions x 3 methods x 3 steps within C*eps^p.",
        note="Trusted: the harness's own evaluation of the user functions; the stated form of the criteria (documented in the helpers). Problems outside the families are not covered.",
        design="§3 C22"),
    "C20": dict(
        level="exploration", engine="grid",
        technique="exhaustive enumeration of (t0, dt, k) time grids x solvers and of systems x solvers on the real solvers; contract checked on every returned Solution",
        text="Every (t0, dt, t1=t0+k*dt and non-multiples) grid of the alphabet (3 x 8 x 16-34) is run through the six dynamic solvers on a free point mass: "
             "grid starts at t0, advances by dt, ends at the first grid point at or after t1 (decimal multiples that are not binary multiples included). For 4 systems x all solvers "
             "(+Newton, Riks): every array field has len(t) rows and the system dimension as width, list(sol) equals the rows, dill save/load preserves every field bit-exactly.",
        note="Trusted: a grid point within 1e-9*dt of t1 counts as 'at t1'. Truncated runs are not judged here (C21). Other systems/horizons are outside the alphabet.",
        design="§3 C20"),
    "C06": dict(
        level="exploration", engine="grid",
        technique="exhaustive product enumeration of contact configurations x state letters through an assembled System; geometric reference kinematics + 5-point stencil derivative oracles",
        text="Sphere-plane: orientation x plane motion x subsystem x radius x friction/anisotropy x offset x restitution; sphere-sphere: 8 partner pairs x radii x mu x separations; "
             "inside each case positions (open/touching/penetrating/generic) x quaternion letters (non-unit, half turn) x (u,u_dot) letters. Gap = signed distance, slip = tangential velocity "
             "of the touching material points (independent reference), g_N_dot/g_N_ddot/gamma_F_dot = time derivatives along the flow, W_N/W_F exact affine Jacobians, every exposed contact "
             "derivative equals the stencil or raises NotImplementedError.",
        note="Trusted: independent reference kinematics class (no cardillo code), stencil error estimate (ill-conditioned letters excluded and counted). Covers the enumerated alphabet only.",
        design="§3 C06"),
    "C07": dict(
        level="exploration", engine="grid",
        technique="exhaustive product enumeration of force elements x subsystem pairings x parameters x state/velocity letters; power-energy identities checked through an assembled System",
        text="{Spring, KelvinVoigt, Maxwell} x TwoPointInteraction pairings / Revolute pairings x axes x parameter triples, Force on point mass/rigid body/rod, line loads, gyroscopic terms, "
             "combined systems: h.u = -dE_pot/dt along the flow, passivity of damper elements, compliance residual at the force-form force, System.E_pot on 13 components and all 78 pairs.",
        note="Trusted: 5-point stencil along the flow with measured error estimate; Revolute states constructed on the joint manifold (|g|<=1e-10 asserted).",
        design="§3 C07"),
    "C08": dict(
        level="exploration", engine="grid",
        technique="exhaustive product enumeration of force laws / forces / moments / actuators x subsystems x states; every reported Jacobian against exact-affine or 5-point-stencil derivatives through System",
        text="h_q, h_u, c_q, c_u, c_la_c, Wla_c_q, Wla_tau_q, Wla_tau_u, q_dot_q, q_dot_u of Spring/KelvinVoigt (both forms), Maxwell, Force/B_Force/Moment/B_Moment, Motor/PD/PID "
             "on the enumerated subsystems; every q direction differentiated.",
        note="Trusted: stencil error estimate (verdict excludes ill-conditioned letters). Alphabet only.",
        design="§3 C08"),
    "C12": dict(
        level="exploration", engine="grid",
        technique="exhaustive product enumeration of material law x stiffness x reference strain x strain letters; complex-step and 5-point-stencil gradients of the strain energy; unisolvent point set makes the Simo1986 verdict a decision",
        text="{Simo1986, Harsch2021} x 4 stiffness letters x 9 Gamma0 (lengths 0, 1/2, 1, 1.7, 2, generic) x 3 K0 x 9 Gamma x 3 K: forces = energy gradients, four tangents = force derivatives, "
             "complementary energy/compliances = Legendre duals (Simo1986). For the quadratic Simo1986 law a 91-point unisolvent set in the 12 strain coordinates decides the identity.",
        note="Trusted: complex step on the material kernels (validated against the real stencil at every evaluation). Harsch2021: alphabet only.",
        design="§3 C12"),
    "C13": dict(
        level="exploration", engine="grid",
        technique="complete enumeration of the quantified finite domain (degree 1..5 x element count 1..12 x knot partitions) with exact rational oracles",
        text="All 230 knot configurations x every node/element boundary (+float neighbours)/midpoint/generic xi: partition of unity, zero-sum derivatives, Kronecker property, element lookup, "
             "exact Lagrange values and derivatives in Fraction arithmetic; Gauss n=1..10 and Lobatto n=2..10 on 7 intervals exact up to degree 2n-1/2n-3 (and measurably inexact one degree above); "
             "Mesh1D connectivity for Lagrange/Lagrange_Disc x dim_q/dim_u.",
        note="Trusted: Fraction arithmetic oracles. The quantified domain is enumerated entirely; xi is a finite alphabet per configuration.",
        design="§3 C13"),
    "C14": dict(
        level="model_checking", engine="statebfs",
        technique="explicit-state exploration of all add/remove/pop/extend/assemble histories up to depth 4-5 on fresh real System objects vs a registry reference model and a dense reference scatter",
        text="20-letter operation alphabet over a pool of 7 contributions (two same-named bodies, point mass, revolute, force, sphere-plane contact, synthetic contribution implementing every local "
             "quantity): after every history names are unique, the registry maps exactly the current contributions, illegal operations raise and change nothing; after assemble the index sets "
             "partition the coordinates, 65 System methods equal a dense reference scatter, a second assemble is bit-identical. Plus 26 contribution types alone and in all ordered pairs.",
        note="Trusted: reference registry (list/dict) and dense scatter built from each contribution's own local quantities and DOF arrays. Histories deeper than the bound are not covered.",
        design="§3 C14"),
    "C16": dict(
        level="exploration", engine="grid",
        technique="exhaustive product enumeration of mechanisms x attachments x contact scenarios x initial states; residuals of the initial equations recomputed from System methods",
        text="7 mechanisms x force-law/actuator attachments x 9 contact scenarios x {rest, spin}: equations of motion with all eight force terms, acceleration-level bilateral constraints, "
             "acceleration-level Signorini/Coulomb conditions for persistent contacts; 20+ deliberately inconsistent variants must be rejected by assemble.",
        note="Trusted: System's own evaluation methods for the residual terms (checked separately by C14). Alphabet only.",
        design="§3 C16"),
    "C24": dict(
        level="fault_enumeration", engine="faults",
        technique="crash-point enumeration: every split step k of N-step runs used as restart point (deepcopy + set_new_initial_state) on the real solvers, plus a simulation-free differential oracle on the re-initialised model",
        text="8 scenarios (Revolute+Spherical chain, spring force/compliance, Kelvin-Voigt and PD controller on a revolute joint with angle0 != 0 in a generic frame, Maxwell element, ball on plane, "
             "two spheres) x {Rattle, BackwardEuler, Moreau, ScipyIVP}: for every k the two-leg run must equal the uninterrupted run within 1e-6, re-initialisation must not raise, and the copy's "
             "constraint/force-direction spaces, joint angle, force-law and actuator forces and contact kinematics must equal the original's along the remaining states.",
        note="Trusted: tolerances tightened to 1e-10; force directions compared through range projectors (a joint/contact may use another basis of the same space); if assemble's 1e-8 consistency "
             "check rejects a backward-Euler/Moreau state the library's own compute_consistent_initial_conditions=False switch is used and counted.",
        design="§3 C24"),
    "C27": dict(
        level="exploration", engine="grid",
        technique="exhaustive enumeration of vectors over many decades x radii x dimensions; all pairs for non-expansiveness, all feasible points for the projection inequality",
        text="Negative orthant and scaled ball, n=1..4, x in {-1,0,1}^n x {1e-12,1e-6,1,1e6} + generic + mixed-scale, z in {-1,0,1e-12,1,1e6}, r in {0,.3,1}: feasibility, idempotence, "
             "non-expansiveness on all 4.4M pairs, projection inequality against all feasible letters, degenerate ball, residual Jacobian vs stencil away from the active-set boundary, "
             "estimate_prox_parameter positive/finite and equal to alpha/diag(W^T M^-1 W).",
        note="Trusted: exact comparisons for the orthant, 1e-14 relative for the ball. Alphabet only.",
        design="§3 C27"),
    "C01": dict(
        level="exploration", engine="grid",
        technique="exhaustive enumeration of the integer grid {-2..3}^4\\0 (complete for rational identities of per-variable degree <= 4, DESIGN 2.3) plus generic letters; exact-rational and complex-step derivative oracles",
        text="P over the full grid (1295) + generic, 6 scales, Q over {-1,0,1}^4 (quick) / the full grid (thorough), 30 angular velocities: orthonormality, det +1, scale invariance, product "
             "homomorphism, T*T^-1 = I, spin identity, Exp_SO3_quat_P against an exact rational quotient rule and the complex step; algebra helpers on {-2..2}^3.",
        note="Complete under the assumption that the implementation computes a rational function of the stated degree class (true for the code and its sign/index/factor mutations); otherwise grid + generic letters only.",
        design="§3 C01, §2.3"),
    "C02": dict(
        level="exploration", engine="grid",
        technique="exhaustive enumeration of direction x magnitude ladders (down to 1e-12 and up to nextafter(pi)), all exact and near half turns of an integer-quaternion family and all signed permutation matrices; 60-digit mpmath reference maps bound to the code by a conformance pass",
        text="Exp/Log round trips for 29 directions x 22 magnitudes, Exp(Log A) = A and Spurrier for 874 quaternion matrices (p0 in {0,1e-12..1e-3,1,2}) and the 24 signed permutations, T*T^-1 and "
             "spin identity on [0,2pi), the same through Exp_SE3/Log_SE3.",
        note="Trusted: mpmath reference (re-bound in every case to mp.expm). Rotation vectors between ladder rungs are not covered.",
        design="§3 C02"),
    "C03": dict(
        level="exploration", engine="grid",
        technique="exhaustive enumeration of direction x log-uniform magnitude ladder (1e-12 .. pi-1e-2) x rate letters; every derivative routine against central differences of a 60-digit reference map",
        text="Exp_SO3_psi, T_SO3_psi, T_SO3_dot, T_SO3_inv_psi, Log_SO3_A (tangentially), Exp_SE3_h, Log_SE3_H on 29 directions x 19 magnitudes x 4 rates x 3 translations; quaternion tangent-map "
             "derivatives on the full integer grid.",
        note="Trusted: mpmath reference with step 1e-25. Tolerance 1e-6*scale (healthy-routine noise peaks at 5e-9).",
        design="§3 C03"),
    "C04": dict(
        level="exploration", engine="grid",
        technique="exhaustive product enumeration of quaternion letters (all of {-1,0,1}^4 up to sign, scaled, generic non-unit) x positions x inertias x velocity/acceleration/offset letters; flow-derivative and exact-affine oracles",
        text="RigidBody (54 quaternions x positions x inertias x 8 u x 3 u_dot x 5 offsets), PointMass, Frame (5 motion families with supplied derivatives): v_P, a_P, B_Omega, B_Psi as time derivatives "
             "along the kinematic equation, J_P/q_dot_u/B_J_R exact affine, kappa terms, every _q/_u partial, quaternion length rate 0, gyroscopic power 0, M SPD, E_kin.",
        note="Trusted: independent quaternion rotation, 5-point stencil with error estimate. Frames without supplied derivatives are a loose diagnostic only (outside the quantifier).",
        design="§3 C04"),
    "C26": dict(
        level="model_checking", engine="statebfs",
        technique="explicit-state exploration of operation histories (memoised evaluations interleaved with step_callback / set_reference_strains / re-assembly / deepcopy) on real objects vs a cache-free twin; fixpoint where the cache state space is finite",
        text="RigidBody (argument variants incl. -0.0, int vs float, in-place mutated shared arrays), rods of all interpolations, Sphere2Sphere contact bases, Mesh1D.eval_basis (alias alphabet, evicting alphabets): "
             "states merged by a digest of cache contents and reachable arrays; every memoised result must equal the twin whose caches (found by generic attribute discovery) are cleared before each call.",
        note="Trusted: generic cache discovery (cachetools/lru caches reachable from the objects); depth-bounded families (depth 3-5) are not closed.",
        design="§3 C26"),
    "C10": dict(
        level="exploration", engine="grid",
        technique="exhaustive product enumeration of rod formulations (interpolation x degree x displacement/mixed x constraint sets x element count x reference) x base states x all single-coordinate deviations x rigid motions",
        text="Per formulation: reference configuration (and every rigid motion of it) has zero energy, internal forces, compliance and constraint residuals; strain energy, compliance and constraint "
             "residuals invariant under every motion of the group alphabet (incl. exact 90-degree and non-unit-quaternion motions), internal forces invariant under translations; translational rows of h and "
             "of every column of W_c, W_g sum to zero over the nodes.",
        note="Trusted: rigid motion acting on nodal coordinates r -> c + A r, p -> p_A o p. Simo1986 (thorough: + Harsch2021), nel <= 3.",
        design="§3 C10"),
    "C11": dict(
        level="exploration", engine="grid",
        technique="exhaustive product enumeration of rod formulations x states (incl. non-unit nodal quaternions) x cross-section parameters; every reported Jacobian column by column against 5-point stencils / exact affine differences through System",
        text="h_q, h_u, c_q, c_la_c, Wla_c_q, g_q, Wla_g_q, q_dot_q, q_dot_u, g_S_q, r_OP_q, A_IB_q, v_P_q, J_P, J_P_q; nodal interpolation (position, orientation, velocity equal nodal values at nodal xi), "
             "rotations at every xi for Quaternion/SE3, mass matrix symmetric PSD with E_kin = 1/2 u^T M u, power-free gyroscopic forces.",
        note="Trusted: stencil error estimate; time-derivative relations are not demanded at non-nodal xi (Petrov-Galerkin velocities).",
        design="§3 C11"),
    "C05": dict(
        level="exploration", engine="grid",
        technique="exhaustive product enumeration of joint type x axis x ordered subsystem pair x placement x state letters (all single-coordinate deviations) through an assembled System; flow-derivative, exact-affine and stencil oracles",
        text="13 joint variants x pairs of {fixed frame, moving frame, point mass, rigid body, rod cross-section at 6 xi} x placements: joint satisfied where defined, g_dot = d/dt g, W_g = (d g_dot/du)^T, "
             "g_ddot = d/dt g_dot, g_q, g_dot_q, Wla_g_q exact at defining and generic off-manifold states with non-unit quaternions.",
        note="Trusted: stencil error estimate. For rod cross-sections the time-derivative relations are checked at nodal xi only (Petrov-Galerkin velocities; skipped comparisons are counted).",
        design="§3 C05"),
    "C09": dict(
        level="exploration", engine="grid",
        technique="complete enumeration of the finite configuration space force-law class/form x supported subsystem x initial configuration x registration order",
        text="{Spring, KelvinVoigt} x {compliance, force} + Maxwell on TwoPointInteraction (6 pairings x 3 distances) and Revolute (2 pairings x 4 angle0 x 3 axes) x 3 registration orders x rest/common "
             "translation: without l_ref the system assembles and force, energy, h vanish at the initial configuration; each configuration is built a second time with an explicit harness-computed l_ref.",
        note="The configuration space named by the property is finite up to the numeric letters and is enumerated completely (900 configurations).",
        design="§3 C09"),
    "C25": dict(
        level="model_checking", engine="statebfs",
        technique="explicit-state BFS over rotation-increment histories on the real Revolute joint to a FIXPOINT (canonical key: lattice position mod N, quadrant, turn offset) + TLC model of the tracker whose state graph is replayed edge by edge against the implementation",
        text="48 joint configurations x lattices N in {16,12,360} with reset/re-assemble letters: the state graph closes (<= 721 states per configuration), so the verdict covers histories of unbounded "
             "length with any number of turns over the increment alphabet; exact integer-quaternion histories land on the quadrant boundaries; l_dot against the relative angular velocity. "
             "models/RevoluteTracker.tla (nondeterministic on the axes) is checked by TLC and every model edge the implementation can take is replayed on a fresh real joint.",
        note="Trusted: canonicalisation argument (DESIGN C25); TLC for the model. Increments off the lattices and increments of a quarter turn or more are outside.",
        design="§3 C25, §1 E4"),
    "C28": dict(
        level="exploration", engine="grid",
        technique="exhaustive enumeration of all rooted trees with 2-4 links x all joint-type assignments x origin/axis/inertial/root letters x configuration/velocity states; independent 4x4 forward-kinematics oracle",
        text="All 7 trees x 6^n joint types (fixed, revolute, continuous, prismatic, floating, planar) x roots x origins x axes x inertial origins x 6 states: import and assembly succeed, constraints satisfied "
             "on position and velocity level, every link at its forward-kinematics pose and twist, requested joint coordinates reported; moving each joint along its freedom keeps g = 0.",
        note="Trusted: harness forward kinematics (cross-checked against its own 5-point time derivative). Planar joints only with axis 0 0 1; floating-joint velocity convention outside the verdict.",
        design="§3 C28"),
    "C29": dict(
        level="exploration", engine="grid",
        technique="exhaustive product enumeration of solution length x horizon x fps x overwrite x ascii/binary for frame selection, and of 20 contribution kinds x solution letters for geometry; files read back with vtk",
        text=".pvd entries match the exported frames one for one, in time order, files exist and are distinct; every .vtu (points, connectivity, all vector/scalar arrays) equals the geometry the harness "
             "computes from the solution row of that frame, for bodies, frames, meshed bodies, contacts, joints, force laws, forces/moments and four rod export levels; one real Moreau run.",
        note="Trusted: vtkXMLUnstructuredGridReader; points are float32 (2e-6 relative). Rod level 'volume' is checked for structure and finiteness only.",
        design="§3 C29"),
    "C18": dict(
        level="model_checking", engine="grid",
        technique="exhaustive product enumeration of scene x solver x restitution x friction x step size executions on the real integrators; the discrete contact laws are recomputed at every stored step from the stored rows on a twin system",
        text="11 scenes (drops, rest, slide, inclined and oscillating planes, sphere-sphere head-on/oblique, two-contact stack) x {Moreau, DualStormerVerlet (default, unaccelerated, LU), BackwardEuler, Rattle} "
             "x e_N in {0,g,1} x mu in {0,g,1} x dt: P_N >= 0, open contact => P_N = 0, velocity-level complementarity with the restituted gap rate at each scheme's own evaluation point, "
             "position-level non-penetration and complementarity, Coulomb disk, maximal dissipation when sliding, non-increasing kinetic energy for force-free frictionless impacts.",
        note="Trusted: evaluation points read from the solver code (Moreau explicit midpoint, DSV implicit midpoint, Rattle/BackwardEuler end point); RATTLE and BackwardEuler judged as position-level "
             "schemes; steps whose active-set decision lies in the 1e-7 tolerance band are excluded and counted; aborted executions are counted.",
        design="§3 C18"),
    "C17": dict(
        level="model_checking", engine="grid",
        technique="exhaustive product enumeration of mechanism x forces x initial state x solver x step size executions on the real integrators; constraint residuals recomputed at every stored step from the stored rows",
        text="7 mechanisms (point-mass pendulum, rigid-body pendulum, cylindrical joint, pendulum on a translating and rotating frame, welded bodies, double pendulum, closed slider-crank) x {gravity, +spring} x {rest, "
             "consistent generic velocity} x 8 solver letters (Rattle, BackwardEuler, Moreau, DualStormerVerlet LU / variable mass / matrix-free MINRES, ScipyDAE, ScipyIVP) x dt over two decades: position-level "
             "constraints (Rattle, BackwardEuler, DSV), velocity level (Rattle; Moreau at the midpoint), unit quaternions, ScipyDAE drift-free at its tolerance, ScipyIVP accelerations/multipliers satisfy the "
             "equations of motion and acceleration-level constraints.",
        note="Trusted: tolerances tightened to 1e-11 (DSV 1e-10); executions in which a solver gives up are counted, a solver with < 60 % completed runs makes the run BROKEN. Horizon 20 (quick) / 100 steps.",
        design="§3 C17"),
    "C19": dict(
        level="exploration", engine="grid",
        technique="exhaustive product enumeration of conservative system x initial state x {order, drift, reversal} experiments on the real RATTLE integrator",
        text="7 conservative systems x 2 generic initial velocities: energy-error ratio under step halving in [3, 5.3] (measured 3.96-4.03), running maximum of the energy error at T <= 2x that at T/3 "
             "(T = 8 quick / 40 thorough), forward - reverse velocities - forward returns to the initial state within 1e-7 (measured 9e-10).",
        note="Long-horizon statement checked up to T only; for the two non-integrable systems the drift ratio is a statistic, they are judged on order and reversibility. Newton tolerance 1e-12.",
        design="§3 C19"),
    "C23": dict(
        level="exploration", engine="grid",
        technique="exhaustive product enumeration of static problems (rod formulation x load x load steps x options x rigid placement; contact scenes; arc-length paths) solved by the real static solvers; residuals recomputed at every returned row",
        text="Cantilevers over 60 rod formulations x 7 tip loads (+2 displacement-controlled) x load steps x placements {I, 90 deg, generic}; contact scenes (rod tip, point mass on springs, rigid body on a revolute "
             "joint over a plane); Riks on the truss, cantilevers and the point-mass scene: equilibrium, g, c, g_S and min(la_N, g_N) at every row, early stops (natural non-convergence, max_load_steps) must say so, "
             "equilibria of the moved problem equal the moved equilibria (1e-6).",
        note="Trusted: System's own evaluation methods; tolerance 100*sqrt(n)*(atol + rtol*force scale). Scenes with several equilibria are not frame-compared. A vacuity guard demands 20 outcome classes.",
        design="§3 C23"),
}
NOT_APPLICABLE = {}
