"""Single source for MANIFEST.json (bin/mkmanifest).  One entry per property with a built check."""
CHECKS = {
    "C15": dict(
        level="model_checking", engine="statebfs",
        technique="explicit-state exploration of all write histories up to depth 3-4 on the real CooMatrix vs a dense reference model",
        text="Every history over a ~40-letter write alphabet (index kinds x value kinds incl. None, empty blocks, duplicate "
             "indices, scipy sparse arrays with duplicates, nested containers, inconsistent shapes) up to depth 2-3 (quick) / 3-4 "
             "(thorough) on five shapes is executed on a fresh real container; after every write all eight conversions must equal "
             "the dense reference, rejected writes must leave the container unchanged. Plus one >=40-write chain per shape.",
        note="Trusted: numpy dense accumulation as reference model; values are dyadic so accumulation order cannot matter. "
             "Histories deeper than the bound are covered only by the chain; negative/out-of-range indices are outside the alphabet.",
        design="§3 C15"),
}
NOT_APPLICABLE = {}
