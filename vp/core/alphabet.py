"""Named finite alphabets (DESIGN 2.1).  Everything here is deterministic; VERIF_SEED only rotates
which *generic* letters are appended (Weyl sequence), so a run is reproducible per seed and the
enumeration per seed is complete."""
import itertools
import math
import numpy as np

GOLD = 0.6180339887498949
SQ2 = 0.41421356237309515
SQ3 = 0.7320508075688772


def weyl(seed, k, n, lo=-1.0, hi=1.0):
    """n-vector no. k of a Weyl sequence, components in (lo,hi), never exactly 0"""
    alphas = [GOLD, SQ2, SQ3, 0.2360679774997898, 0.6457513110645907, 0.3166247903553998, 0.605551275463989,
              0.1231056256176606, 0.3588989435406740, 0.7958315233127191, 0.0990195135927845, 0.3851648071345037]
    out = []
    for i in range(n):
        a = alphas[i % len(alphas)] * (1 + i // len(alphas) * 0.37)
        f = ((seed * 7 + k + 1) * a + 0.137 * (i + 1)) % 1.0
        x = lo + (hi - lo) * f
        if abs(x) < 0.05:
            x = 0.05 if x >= 0 else -0.05
        out.append(x)
    return np.array(out)


def generic_vec(seed, k, n=3, scale=1.0):
    return scale * weyl(seed, k, n)


def generic_unit(seed, k, n=3):
    v = weyl(seed, k, n)
    return v / np.linalg.norm(v)


def generic_quat(seed, k, unit=False):
    """generic quaternion, norm in [0.6, 1.9] unless unit"""
    v = weyl(seed, k + 17, 4)
    v = v / np.linalg.norm(v)
    if unit:
        return v
    return v * (0.6 + 1.3 * ((seed * 0.31 + k * GOLD) % 1.0))


def int_quats(lo=-1, hi=1, up_to_sign=True):
    out = []
    for p in itertools.product(range(lo, hi + 1), repeat=4):
        if not any(p):
            continue
        if up_to_sign:
            first = next(x for x in p if x != 0)
            if first < 0:
                continue
        out.append(np.array(p, float))
    return out


def lattice_dirs():
    out = []
    for p in itertools.product((-1, 0, 1), repeat=3):
        if any(p):
            v = np.array(p, float)
            out.append(v / np.linalg.norm(v))
    return out


def quat_to_A(P):
    """independent reference rotation matrix of a (not necessarily unit) quaternion"""
    P = np.asarray(P, float)
    p0, p1, p2, p3 = P / np.linalg.norm(P)
    return np.array([
        [1 - 2 * (p2 * p2 + p3 * p3), 2 * (p1 * p2 - p0 * p3), 2 * (p1 * p3 + p0 * p2)],
        [2 * (p1 * p2 + p0 * p3), 1 - 2 * (p1 * p1 + p3 * p3), 2 * (p2 * p3 - p0 * p1)],
        [2 * (p1 * p3 - p0 * p2), 2 * (p2 * p3 + p0 * p1), 1 - 2 * (p1 * p1 + p2 * p2)],
    ])


def axis_angle_quat(axis, angle):
    axis = np.asarray(axis, float)
    axis = axis / np.linalg.norm(axis)
    return np.concatenate([[math.cos(angle / 2)], math.sin(angle / 2) * axis])


def quat_mul(P, Q):
    p0, p = P[0], np.asarray(P[1:], float)
    q0, q = Q[0], np.asarray(Q[1:], float)
    return np.concatenate([[p0 * q0 - p @ q], p0 * q + q0 * p + np.cross(p, q)])


def skew(a):
    return np.array([[0, -a[2], a[1]], [a[2], 0, -a[0]], [-a[1], a[0], 0]], float)


def unskew(S):
    return 0.5 * np.array([S[2, 1] - S[1, 2], S[0, 2] - S[2, 0], S[1, 0] - S[0, 1]])
