import contextlib, io, os, sys, warnings


@contextlib.contextmanager
def quiet():
    """silence prints/tqdm of the library (python level)"""
    so, se = sys.stdout, sys.stderr
    sys.stdout = io.StringIO()
    sys.stderr = io.StringIO()
    try:
        with warnings.catch_warnings():
            warnings.simplefilter("ignore")
            yield
    finally:
        sys.stdout, sys.stderr = so, se


@contextlib.contextmanager
def capture():
    """capture stdout/stderr text and warnings: yields dict(out=StringIO, warns=list)"""
    so, se = sys.stdout, sys.stderr
    buf = io.StringIO()
    sys.stdout = buf
    sys.stderr = buf
    rec = {"out": buf, "warns": None}
    try:
        with warnings.catch_warnings(record=True) as w:
            warnings.simplefilter("always")
            rec["warns"] = w
            yield rec
    finally:
        sys.stdout, sys.stderr = so, se
