"""Runner shared by all property checks.

A property module (vp/props/cXX.py) provides

    ID, LEVEL, RULE, ASSUMPTIONS
    cases(tier, seed)  -> list of JSON-serialisable case dicts, simplest first, the COMPLETE
                          enumeration of the stated finite space (no sampling)
    check(case)        -> dict(fails=[{site,msg,data}], nontrivial=bool, evals=int,
                               outcome=str|None, states=int, transitions=int, stats={...},
                               excluded=str|None)
    optional: MIN_NONTRIVIAL, MIN_OUTCOMES, extra_coverage(results, tier, seed) -> dict,
              CASE_TIMEOUT (seconds)

The runner shards the case list over worker processes (fresh objects per case, library output
silenced), matches failures against /verif/known_findings.json, re-executes failing cases to make
sure the failure is deterministic, writes replay files and the evidence file, and sets the exit
code: 0 = held on everything explored (apart from listed known findings), 1 = VIOLATION,
2 = the harness itself is broken (never a statement about cardillo).
"""
import argparse
import hashlib
import importlib
import json
import multiprocessing as mp
import os
import signal
import sys
import time
import traceback

ROOT = os.path.dirname(os.path.dirname(os.path.dirname(os.path.abspath(__file__))))
REPO = os.environ.get("VERIF_REPO", "/repo")


def _jsonable(o):
    import numpy as np

    if isinstance(o, dict):
        return {str(k): _jsonable(v) for k, v in o.items()}
    if isinstance(o, (list, tuple, set, frozenset)):
        return [_jsonable(v) for v in o]
    if isinstance(o, np.ndarray):
        return _jsonable(o.tolist())
    if isinstance(o, (np.floating,)):
        return float(o)
    if isinstance(o, (np.integer,)):
        return int(o)
    if isinstance(o, (np.bool_,)):
        return bool(o)
    if isinstance(o, complex):
        return [o.real, o.imag]
    if isinstance(o, float):
        if o != o or o in (float("inf"), float("-inf")):
            return repr(o)
        return o
    if isinstance(o, (int, str, bool)) or o is None:
        return o
    return repr(o)


def case_key(case):
    return hashlib.sha1(json.dumps(_jsonable(case), sort_keys=True).encode()).hexdigest()[:16]


# --------------------------------------------------------------------------------------------
# worker side
# --------------------------------------------------------------------------------------------
_MOD = None
_TIMEOUT = 300


class CaseTimeout(BaseException):
    """raised by the per-case alarm; a BaseException so that `except Exception` in a property module
    or in the library cannot swallow it"""


def _alarm(signum, frame):
    raise CaseTimeout()


def _silence_fds():
    devnull = os.open(os.devnull, os.O_WRONLY)
    os.dup2(devnull, 1)
    os.dup2(devnull, 2)


def _winit(modname, timeout, silence=True):
    global _MOD, _TIMEOUT
    sys.dont_write_bytecode = True
    if silence:
        _silence_fds()
    import warnings

    warnings.simplefilter("ignore")
    import numpy as np

    np.seterr(all="ignore")
    _MOD = importlib.import_module(modname)
    _TIMEOUT = timeout
    signal.signal(signal.SIGALRM, _alarm)


def _classify_exception(e):
    """An exception that escapes check(): innermost frame inside the repository => the library
    crashed on a case of the enumerated space (violation: an evaluation that must succeed failed);
    innermost frame elsewhere => harness bug."""
    tb = traceback.extract_tb(e.__traceback__)
    inner = None
    for fr in tb:
        inner = fr
    in_repo = False
    fn = ""
    if inner is not None:
        fn = os.path.abspath(inner.filename)
        in_repo = fn.startswith(os.path.abspath(REPO) + os.sep)
    # exceptions raised in numpy/scipy called directly from repo code also count as repo crashes
    if not in_repo:
        frames = [os.path.abspath(fr.filename) for fr in tb]
        last_own = None
        for f in frames:
            if f.startswith(os.path.abspath(REPO) + os.sep) or f.startswith(ROOT + os.sep):
                last_own = f
        if last_own is not None and last_own.startswith(os.path.abspath(REPO) + os.sep):
            in_repo = True
            fn = last_own
    return in_repo, fn, (inner.name if inner else "?")


def _warm_imports():
    """import the library completely in the parent, before workers are forked: workers then never
    perform a first import under the per-case alarm (an alarm firing inside an import leaves
    half-initialised modules behind and produces bogus crashes)"""
    import warnings

    with warnings.catch_warnings():
        warnings.simplefilter("ignore")
        for m in ("numpy", "scipy.sparse", "scipy.sparse.linalg", "scipy.optimize", "scipy.integrate", "cardillo", "cardillo.solver",
                  "cardillo.discrete", "cardillo.constraints", "cardillo.contacts", "cardillo.forces", "cardillo.force_laws",
                  "cardillo.interactions", "cardillo.actuators", "cardillo.rods", "cardillo.math", "cardillo.visualization"):
            try:
                importlib.import_module(m)
            except Exception:
                pass


def _run_case(arg):
    idx, case = arg
    t0 = time.time()
    signal.setitimer(signal.ITIMER_REAL, _TIMEOUT)
    try:
        res = _MOD.check(case)
        if res is None:
            res = {}
        res.setdefault("fails", [])
    except CaseTimeout:
        res = {"fails": [], "aborted": "timeout", "nontrivial": False}
    except Exception as e:  # noqa
        in_repo, fn, func = _classify_exception(e)
        tbs = traceback.format_exc()
        if in_repo:
            rel = os.path.relpath(fn, REPO)
            res = {
                "fails": [
                    {
                        "site": f"crash:{rel}:{func}:{type(e).__name__}",
                        "msg": f"{type(e).__name__}: {e}",
                        "data": {"traceback": tbs[-1500:]},
                    }
                ],
                "nontrivial": True,
            }
        else:
            res = {"fails": [], "harness_error": tbs, "nontrivial": False}
    finally:
        signal.setitimer(signal.ITIMER_REAL, 0)
    res["idx"] = idx
    res["wall"] = time.time() - t0
    return _jsonable(res)


# --------------------------------------------------------------------------------------------
# known findings
# --------------------------------------------------------------------------------------------
def _get(d, path):
    cur = d
    for p in path.split("."):
        if isinstance(cur, dict) and p in cur:
            cur = cur[p]
        elif isinstance(cur, list) and p.lstrip("-").isdigit() and -len(cur) <= int(p) < len(cur):
            cur = cur[int(p)]
        else:
            return None
    return cur


def _pred(val, spec):
    if isinstance(spec, dict):
        for op, ref in spec.items():
            if op == "in":
                if val not in ref:
                    return False
            elif op == "le":
                if val is None or not (val <= ref):
                    return False
            elif op == "lt":
                if val is None or not (val < ref):
                    return False
            elif op == "ge":
                if val is None or not (val >= ref):
                    return False
            elif op == "gt":
                if val is None or not (val > ref):
                    return False
            elif op == "ne":
                if val == ref:
                    return False
            elif op == "re":
                import re

                if val is None or not re.fullmatch(ref, str(val)):
                    return False
            elif op == "contains":
                if val is None or ref not in val:
                    return False
            else:
                raise ValueError("unknown predicate " + op)
        return True
    return val == spec


def load_findings(pid):
    out = []
    for path in (os.path.join(ROOT, "known_findings.json"), os.path.join(ROOT, "findings.d", f"{pid}.json")):
        if not os.path.exists(path):
            continue
        with open(path) as f:
            allf = json.load(f)
        out += [e for e in allf.get("findings", []) if e["property"] == pid]
    return out


def match_finding(findings, case, fail):
    """Returns the 'known' entry that lists this failure, else None.  'fixed' entries never
    suppress anything."""
    import re

    for e in findings:
        if e.get("status") != "known":
            continue
        m = e["match"]
        site = m.get("site")
        if site is not None and not re.fullmatch(site, fail["site"]):
            continue
        ok = True
        for path, spec in m.get("case", {}).items():
            if not _pred(_get(case, path), spec):
                ok = False
                break
        if ok:
            for path, spec in m.get("data", {}).items():
                if not _pred(_get(fail.get("data", {}), path), spec):
                    ok = False
                    break
        if ok:
            return e
    return None


# --------------------------------------------------------------------------------------------
# main
# --------------------------------------------------------------------------------------------
def write_evidence(pid, ev):
    edir = os.environ.get("VERIF_EVIDENCE_DIR") or os.path.join(ROOT, "evidence")
    os.makedirs(edir, exist_ok=True)
    path = os.path.join(edir, f"{pid}.json")
    try:
        import jsonschema

        with open("/root/.vp/EVIDENCE.schema.json") as f:
            schema = json.load(f)
        jsonschema.validate(ev, schema)
    except ImportError:
        pass
    except FileNotFoundError:
        pass
    tmp = path + ".tmp"
    with open(tmp, "w") as f:
        json.dump(ev, f, indent=1, sort_keys=True)
    os.replace(tmp, path)
    return path


def main(argv=None):
    ap = argparse.ArgumentParser()
    ap.add_argument("pid")
    ap.add_argument("--tier", default=os.environ.get("VERIF_TIER", "quick"))
    ap.add_argument("--replay", default=None)
    ap.add_argument("--jobs", type=int, default=int(os.environ.get("VERIF_JOBS", "0")) or (os.cpu_count() or 4))
    ap.add_argument("--limit", type=int, default=0, help="debug: only the first N cases (marks the run non-exhaustive)")
    ap.add_argument("--serial", action="store_true")
    ap.add_argument("--verbose", action="store_true")
    args = ap.parse_args(argv)
    pid = args.pid.upper()
    tier = args.tier if args.tier in ("quick", "thorough") else "quick"
    try:
        seed = int(os.environ.get("VERIF_SEED", "0"))
    except ValueError:
        seed = 0
    modname = f"vp.props.{pid.lower()}"
    t_start = time.time()
    _warm_imports()
    mod = importlib.import_module(modname)
    findings = load_findings(pid)
    timeout = getattr(mod, "CASE_TIMEOUT", 300)

    if args.replay:
        return replay(mod, modname, pid, args.replay, findings, timeout)

    try:
        cases = list(mod.cases(tier, seed))
    except Exception as e:  # noqa
        in_repo, fn, func = _classify_exception(e)
        tbs = traceback.format_exc()
        if in_repo:
            # the library crashed while the case list was being built (dry runs, probing of sizes)
            rdir = os.path.join(os.environ.get("VERIF_REPLAY_DIR") or os.path.join(ROOT, "replays"), pid)
            os.makedirs(rdir, exist_ok=True)
            path = os.path.join(rdir, "enumeration_crash.json")
            with open(path, "w") as fh:
                json.dump({"property": pid, "case": {"kind": "enumeration"}, "fail": {"site": f"crash:{os.path.relpath(fn, REPO)}:{func}:{type(e).__name__}", "msg": str(e), "data": {"traceback": tbs[-1500:]}}}, fh, indent=1)
            _out(f"VIOLATION property={pid} replay={path}  site=crash while enumerating cases:{os.path.relpath(fn, REPO)}:{func}:{type(e).__name__} :: {e}")
            return 1
        _out(f"BROKEN property={pid}: harness error while enumerating cases\n{tbs}")
        return 2
    capped = False
    if args.limit and len(cases) > args.limit:
        cases = cases[: args.limit]
        capped = True
    n = len(cases)
    if n == 0:
        print(f"BROKEN property={pid}: empty case list")
        return 2

    jobs = max(1, min(args.jobs, n))
    results = [None] * n
    ctx = mp.get_context("fork")
    chunk = max(1, min(64, n // (jobs * 8) or 1))
    if args.serial or jobs == 1:
        _winit(modname, timeout, silence=not args.verbose)
        # keep our own stdout for the final report
        for i, c in enumerate(cases):
            results[i] = _run_case((i, c))
    else:
        results = _run_parallel(modname, timeout, cases, jobs)

    if args.serial or jobs == 1:
        # restore stdout (fd 1 was redirected in _winit only when not verbose) -- we wrote nothing yet
        pass

    return report(mod, modname, pid, tier, seed, cases, results, findings, timeout, capped, t_start)


_DEATHS = []


def _worker_main(conn, modname, timeout):
    try:
        _winit(modname, timeout)
        while True:
            try:
                msg = conn.recv()
            except EOFError:
                break
            if msg is None:
                break
            conn.send(_run_case(msg))
    finally:
        os._exit(0)


def _run_parallel(modname, timeout, cases, jobs):
    """own scheduler instead of multiprocessing.Pool: a worker that dies (segfault in a C extension, OOM kill) or hangs in C
    code does not hang the run.  The case a dead worker was executing is retried once in a fresh worker; a second death is
    reported (harness_error with the exit code: the verdict of such a run is BROKEN, never silently 'held')."""
    import collections
    from multiprocessing.connection import wait

    ctx = mp.get_context("fork")
    n = len(cases)
    results = [None] * n
    pending = collections.deque(enumerate(cases))
    deaths = {}
    workers = {}  # parent conn -> dict(proc, task, since)
    hard = 2.0 * float(timeout) + 120.0

    def spawn():
        parent, child = ctx.Pipe()
        p = ctx.Process(target=_worker_main, args=(child, modname, timeout), daemon=True)
        p.start()
        child.close()
        workers[parent] = {"proc": p, "task": None, "since": 0.0}

    def lost(conn, why):
        w = workers.pop(conn)
        task = w["task"]
        try:
            conn.close()
        except Exception:
            pass
        if w["proc"].is_alive():
            w["proc"].kill()
        w["proc"].join(10)
        if task is not None:
            idx = task[0]
            deaths[idx] = deaths.get(idx, 0) + 1
            if why == "hard_timeout":
                results[idx] = {"idx": idx, "fails": [], "aborted": "timeout", "nontrivial": False, "wall": time.time() - w["since"]}
            elif deaths[idx] <= 1:
                _DEATHS.append({"case_index": idx, "exitcode": w["proc"].exitcode})
                _out(f"NOTE worker process died (exit code {w['proc'].exitcode}) while executing case #{idx}; case retried in a fresh worker")
                pending.appendleft(task)
            else:
                results[idx] = {"idx": idx, "fails": [], "nontrivial": False, "wall": 0.0,
                                "harness_error": f"worker process died twice (exit code {w['proc'].exitcode}) while executing this case"}
        spawn()

    for _ in range(jobs):
        spawn()
    try:
        while True:
            for conn, w in list(workers.items()):
                if w["task"] is None and pending:
                    task = pending.popleft()
                    try:
                        conn.send(task)
                        w["task"], w["since"] = task, time.time()
                    except (BrokenPipeError, OSError):
                        pending.appendleft(task)
                        lost(conn, "died")
            busy = [c for c, w in workers.items() if w["task"] is not None]
            if not busy and not pending:
                break
            ready = wait(busy + [workers[c]["proc"].sentinel for c in busy], timeout=5.0)
            for conn in busy:
                w = workers.get(conn)
                if w is None:
                    continue
                if conn in ready or conn.poll():
                    try:
                        r = conn.recv()
                        results[r["idx"]] = r
                        w["task"] = None
                    except (EOFError, ConnectionResetError, OSError):
                        lost(conn, "died")
                elif w["proc"].sentinel in ready or not w["proc"].is_alive():
                    lost(conn, "died")
                elif time.time() - w["since"] > hard:
                    lost(conn, "hard_timeout")
    finally:
        for conn, w in list(workers.items()):
            try:
                conn.send(None)
                conn.close()
            except Exception:
                pass
        for w in list(workers.values()):
            w["proc"].join(2)
            if w["proc"].is_alive():
                w["proc"].kill()
    return results


def _out(msg):
    # the worker initialiser may have redirected fd 1 in serial mode; write to the saved fd
    try:
        os.write(_STDOUT_FD, (msg + "\n").encode())
    except BrokenPipeError:
        pass


_STDOUT_FD = os.dup(1)


def _recheck(modname, timeout, case):
    ctx = mp.get_context("fork")
    with ctx.Pool(1, initializer=_winit, initargs=(modname, timeout)) as pool:
        return pool.apply(_run_case, ((0, case),))


def report(mod, modname, pid, tier, seed, cases, results, findings, timeout, capped, t_start):
    harness_errors = [r for r in results if r.get("harness_error")]
    if harness_errors:
        _out(f"BROKEN property={pid}: harness error in {len(harness_errors)} case(s); first:")
        _out(json.dumps(cases[harness_errors[0]["idx"]])[:600])
        _out(harness_errors[0]["harness_error"])
        return 2

    evals = 0
    states = 0
    transitions = 0
    traces = 0
    nontriv = set()
    outcomes = {}
    aborted = 0
    excluded = {}
    stats = {}
    viol = []  # (case idx, fail)
    known_hits = {}
    for r in results:
        evals += int(r.get("evals", 1))
        states += int(r.get("states", 0))
        transitions += int(r.get("transitions", 0))
        traces += int(r.get("traces", 0))
        if r.get("aborted"):
            aborted += 1
        if r.get("excluded"):
            excluded[r["excluded"]] = excluded.get(r["excluded"], 0) + 1
        if r.get("nontrivial", True) and not r.get("aborted"):
            nontriv.add(case_key(cases[r["idx"]]))
        oc = r.get("outcome")
        if oc is not None:
            for o in oc if isinstance(oc, list) else [oc]:
                outcomes[o] = outcomes.get(o, 0) + 1
        for k, v in (r.get("stats") or {}).items():
            if isinstance(v, (int, float)):
                if k.startswith("max_"):
                    stats[k] = max(stats.get(k, v), v)
                elif k.startswith("min_"):
                    stats[k] = min(stats.get(k, v), v)
                else:
                    stats[k] = stats.get(k, 0) + v
        for f in r["fails"]:
            e = match_finding(findings, cases[r["idx"]], f)
            if e is not None:
                known_hits.setdefault(e["key"], [e, 0])
                known_hits[e["key"]][1] += 1
            else:
                viol.append((r["idx"], f))

    # determinism: re-execute (fresh process) the first few violating cases
    nondet = False
    confirmed = []
    seen_idx = []
    for idx, f in viol:
        if idx not in seen_idx:
            seen_idx.append(idx)
    recheck_sites = {}
    for idx in seen_idx[:6]:
        r2 = _recheck(modname, timeout, cases[idx])
        recheck_sites[idx] = sorted({f["site"] for f in r2["fails"]})
    for idx, f in viol:
        if idx in recheck_sites and f["site"] not in recheck_sites[idx]:
            nondet = True
            _out(f"NONDETERMINISTIC property={pid} site={f['site']} case={json.dumps(cases[idx])[:300]}")
        else:
            confirmed.append((idx, f))
    if nondet and not confirmed:
        _out(f"BROKEN property={pid}: failures did not reproduce on re-execution")
        return 2

    # replay files: one per (site), at most 8 sites x 3 cases
    rdir = os.path.join(os.environ.get("VERIF_REPLAY_DIR") or os.path.join(ROOT, "replays"), pid)
    persite = {}
    lines = []
    for idx, f in confirmed:
        k = f["site"]
        persite.setdefault(k, 0)
        persite[k] += 1
        if persite[k] > 3 or len(persite) > 40:
            continue
        os.makedirs(rdir, exist_ok=True)
        name = f"{hashlib.sha1(k.encode()).hexdigest()[:8]}_{case_key(cases[idx])}.json"
        path = os.path.join(rdir, name)
        with open(path, "w") as fh:
            json.dump({"property": pid, "case": cases[idx], "fail": f, "tier": tier, "seed": seed}, fh, indent=1)
        lines.append((k, path, f.get("msg", "")))

    for key, (e, cnt) in sorted(known_hits.items()):
        _out(f"KNOWN-FINDING: property={pid} {e['what']} [{key}; {cnt} case(s) this run]")
    for k, path, msg in lines:
        _out(f"VIOLATION property={pid} replay={path}  site={k} :: {msg[:200]}")
    if confirmed:
        _out(f"  ({len(confirmed)} violating (case,site) pairs over {len(persite)} site(s); counts per site: "
             + json.dumps(dict(sorted(persite.items())[:40])) + ")")

    # vacuity guards
    broken = None
    min_nt = getattr(mod, "MIN_NONTRIVIAL", 2)
    if len(nontriv) < min_nt and not capped:
        broken = f"only {len(nontriv)} non-trivial cases (< {min_nt})"
    min_oc = getattr(mod, "MIN_OUTCOMES", 0)
    if min_oc and len(outcomes) < min_oc and not capped:
        broken = f"only {len(outcomes)} distinct outcomes (< {min_oc})"

    cov = {
        "evaluations": int(evals),
        "distinct_nontrivial": len(nontriv),
        "rule": getattr(mod, "RULE", ""),
        "samples": _samples(cases),
        "cases": len(cases),
        "exhaustive": (not capped) and aborted == 0,
        "aborted": aborted,
        "excluded": excluded,
        "distinct_outcomes": len(outcomes),
        "outcome_histogram": dict(sorted(outcomes.items(), key=lambda kv: -kv[1])[:40]),
        "stats": dict(stats, worker_deaths_retried=len(_DEATHS)) if _DEATHS else stats,
        "known_findings_hit": {k: v[1] for k, v in known_hits.items()},
    }
    if states or transitions:
        cov["states"] = int(states)
        cov["transitions"] = int(transitions)
        cov["traces_validated_against_impl"] = int(traces) if traces else int(transitions)
    if hasattr(mod, "extra_coverage"):
        try:
            cov.update(mod.extra_coverage(results, tier, seed) or {})
        except Exception:
            _out("BROKEN: extra_coverage failed\n" + traceback.format_exc())
            return 2
    ev = {
        "property_id": pid,
        "tier": tier,
        "seed": seed,
        "level": _level(pid, mod),
        "coverage": cov,
        "assumptions": list(getattr(mod, "ASSUMPTIONS", [])),
        "wall_s": round(time.time() - t_start, 3),
        "violations": len(confirmed),
    }
    try:
        write_evidence(pid, _jsonable(ev))
    except Exception:
        _out("BROKEN: evidence does not validate\n" + traceback.format_exc())
        return 2
    _out(
        f"[{pid}] tier={tier} seed={seed} cases={len(cases)} evaluations={evals} nontrivial={len(nontriv)} "
        f"states={states} transitions={transitions} outcomes={len(outcomes)} aborted={aborted} "
        f"excluded={sum(excluded.values())} known={sum(v[1] for v in known_hits.values())} "
        f"violations={len(confirmed)} wall={time.time()-t_start:.1f}s"
    )
    if broken:
        _out(f"BROKEN property={pid}: {broken}")
        if not confirmed:
            return 2
    return 1 if confirmed else 0


def _level(pid, mod):
    """the level claimed in MANIFEST.json (vp/manifest_table.py is its single source) wins over a module's own LEVEL"""
    try:
        from vp.manifest_table import CHECKS

        if pid in CHECKS:
            return CHECKS[pid]["level"]
    except Exception:
        pass
    return getattr(mod, "LEVEL", "exploration")


def _samples(cases):
    n = len(cases)
    idx = sorted({0, n // 3, (2 * n) // 3, n - 1})
    return [_jsonable(cases[i]) for i in idx]


def replay(mod, modname, pid, path, findings, timeout):
    with open(path) as f:
        rec = json.load(f)
    case = rec["case"]
    r1 = _recheck(modname, timeout, case)
    r2 = _recheck(modname, timeout, case)
    if r1.get("harness_error"):
        _out(r1["harness_error"])
        return 2
    s1 = sorted({f["site"] for f in r1["fails"]})
    s2 = sorted({f["site"] for f in r2["fails"]})
    if s1 != s2:
        _out(f"BROKEN property={pid}: replay not deterministic: {s1} vs {s2}")
        return 2
    bad = 0
    for f in r1["fails"]:
        e = match_finding(findings, case, f)
        if e is not None:
            _out(f"KNOWN-FINDING: property={pid} {e['what']} [{e['key']}]")
        else:
            bad += 1
            _out(f"VIOLATION property={pid} replay={path}  site={f['site']} :: {f.get('msg','')[:300]}")
    if not r1["fails"]:
        _out(f"[{pid}] replay {path}: no failure on the current tree")
    return 1 if bad else 0


if __name__ == "__main__":
    sys.exit(main())
