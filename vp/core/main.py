"""entry point (so that vp.core.runner is imported under its real name, not as __main__)"""
import sys
from vp.core.runner import main

if __name__ == "__main__":
    sys.exit(main())
