"""E3: deviation-bounded enumeration of forced non-convergence (DESIGN 1, E3).

Decision points of a solver run, in execution order:
  * every call of the Newton helper `fsolve` made by a solver module (the name imported into the
    module is rebound to a wrapper; a forced failure runs the REAL fsolve with one iteration and
    unreachable tolerances, so the real warning path of fsolve is exercised and the returned iterate
    is a genuine unconverged iterate);
  * every entry of a fixed-point loop that reads `options.fixed_point_max_iter` (options proxy; a
    forced failure answers max_iter=2 and a NaN tolerance for the duration of that loop, so that the
    loop's own convergence test can never succeed);
  * every call of the fixed-point helpers of the dual Stoermer-Verlet module (run with one iteration
    and unreachable tolerances when forced);
  * the scipy integrator call of the two scipy wrappers (forced failure = the real result truncated
    to its first half with status=-1, success=False).
All interposition is harness-side; nothing in /repo is modified.
"""
import dataclasses
import importlib
import math


class Plan:
    def __init__(self, fail_at=(), mode="maxiter"):
        """mode 'maxiter': a forced Newton failure is the real fsolve stopped after one iteration;
        mode 'nan': a forced Newton failure is the real fsolve (unchanged options) on a residual that is non-finite at every
        iterate after the initial guess (a diverged iteration: force law left its domain, overflow)"""
        self.mode = mode
        self.fail_at = frozenset(fail_at)
        self.n = 0
        self.log = []  # dict(idx, kind, site, accepted, forced, effective)
        self.accepted = 0  # accepted steps so far (step_callback calls)

    def decide(self, kind, site):
        idx = self.n
        self.n += 1
        forced = idx in self.fail_at
        rec = {"idx": idx, "kind": kind, "site": site, "accepted": self.accepted, "forced": forced, "effective": None}
        self.log.append(rec)
        return forced, rec


class OptionsProxy:
    """wraps a real SolverOptions; reading fixed_point_max_iter is a decision point"""

    def __init__(self, real, plan, site="options", fp_decisions=True):
        object.__setattr__(self, "_real", real)
        object.__setattr__(self, "_plan", plan)
        object.__setattr__(self, "_poison", False)
        object.__setattr__(self, "_site", site)
        object.__setattr__(self, "_fp", fp_decisions)
        object.__setattr__(self, "_cur", None)

    def __getattr__(self, name):
        return getattr(object.__getattribute__(self, "_real"), name)

    @property
    def fixed_point_max_iter(self):
        if not self._fp:
            return self._real.fixed_point_max_iter
        forced, rec = self._plan.decide("fixed_point", self._site)
        object.__setattr__(self, "_poison", forced)
        object.__setattr__(self, "_cur", rec)
        if forced:
            # becomes effective only when a convergence test really reads the tolerance (a read of
            # max_iter for a progress-bar text is not a loop entry)
            rec["effective"] = False
            return 2
        return self._real.fixed_point_max_iter

    @property
    def fixed_point_atol(self):
        if self._poison:
            if self._cur is not None:
                self._cur["effective"] = True
            return float("nan")
        return self._real.fixed_point_atol


def _failing_options(options):
    real = getattr(options, "_real", options)
    return dataclasses.replace(real, newton_max_iter=1, newton_atol=1e-300, newton_rtol=1e-300)


class Interposer:
    """context manager installing the wrappers for one solver module"""

    def __init__(self, plan, modules=(), dsv=False, scipy_mod=None):
        self.plan = plan
        self.modules = list(modules)
        self.dsv = dsv
        self.scipy_mod = scipy_mod
        self._saved = []

    def __enter__(self):
        plan = self.plan
        for modname in self.modules:
            mod = importlib.import_module(modname)
            real = mod.fsolve

            def wrapper(fun, x0, jac=None, fun_args=(), jac_args=(), inexact=False, options=None, _real=real, _site=modname):
                forced, rec = plan.decide("newton", _site)
                if options is None:
                    from cardillo.solver import SolverOptions

                    options = SolverOptions()
                if forced and plan.mode == "nan":
                    import sys
                    import numpy as np

                    st = {"n": 0, "nan": 0}

                    def fun_nan(x, *a):
                        f = fun(x, *a)
                        # only the residual evaluations of the Newton loop itself (not those of a finite-difference Jacobian)
                        fr, direct = sys._getframe(1), False
                        for _ in range(8):
                            if fr is None or fr.f_code.co_name in ("approx_fprime", "jacobian", "solve"):
                                break
                            if fr.f_code.co_name == "fsolve":
                                direct = True
                                break
                            fr = fr.f_back
                        if direct:
                            st["n"] += 1
                            if st["n"] > 1:
                                st["nan"] += 1
                                return np.full_like(np.atleast_1d(np.asarray(f, float)), np.nan)
                        return f

                    real_opts = getattr(options, "_real", options)
                    res = _real(fun_nan, x0, jac=jac, fun_args=fun_args, jac_args=jac_args, inexact=inexact, options=real_opts)
                    rec["effective"] = st["nan"] > 0
                    rec["nan_reported_success"] = bool(res.success)
                    return res
                if forced:
                    res = _real(fun, x0, jac=jac, fun_args=fun_args, jac_args=jac_args, inexact=inexact, options=_failing_options(options))
                    rec["effective"] = not bool(res.success)
                    return res
                real_opts = getattr(options, "_real", options)
                return _real(fun, x0, jac=jac, fun_args=fun_args, jac_args=jac_args, inexact=inexact, options=real_opts)

            self._saved.append((mod, "fsolve", real))
            mod.fsolve = wrapper
        if self.dsv:
            mod = importlib.import_module("cardillo.solver.dual_stormer_verlet")
            for name in ("fixed_point_iteration", "fixed_point_iteration_with_momentum"):
                real = getattr(mod, name)

                def wrapper(fun, x0, atol=1e-6, rtol=1e-6, max_iter=100, verbose=False, _real=real, _site="dsv." + name):
                    forced, rec = plan.decide("fixed_point", _site)
                    if forced and plan.mode == "nan":
                        # the iteration diverges: from its second application on the map returns a non-finite iterate
                        import numpy as np

                        st = {"n": 0}

                        def fun_nan(x, *a, **k):
                            st["n"] += 1
                            y = fun(x, *a, **k)
                            if st["n"] > 1:
                                y = np.full_like(np.asarray(y, dtype=float), np.nan)
                            return y

                        try:
                            out = _real(fun_nan, x0, atol=atol, rtol=rtol, max_iter=min(max_iter, 12))
                        except Exception:
                            rec["effective"] = st["n"] > 1
                            raise
                        rec["effective"] = st["n"] > 1
                        rec["silent_return"] = st["n"] > 1
                        return out
                    if forced:
                        try:
                            out = _real(fun, x0, atol=1e-300, rtol=1e-300, max_iter=1)
                        except Exception:
                            rec["effective"] = True
                            raise
                        # the helper returned.  Legitimate only if its own reported error meets the criterion (the iterate was an
                        # exact fixed point already); otherwise the helper swallowed the non-convergence: the forced failure IS
                        # effective and the run that follows is judged like any other failure that the solver was told about
                        err = out[2] if isinstance(out, tuple) and len(out) >= 3 else None
                        try:
                            silent = err is None or not (float(err) < 1.0)
                        except (TypeError, ValueError):
                            silent = True
                        if not silent:
                            # the helper claims an exact fixed point (tolerances 1e-300).  Verify independently with the solver's own
                            # tolerances: one more application of the map to a COPY of the returned point must reproduce it (a helper
                            # whose iterates alias each other reports error 0 on any map that updates its argument in place)
                            import numpy as np

                            try:
                                xr = np.array(out[0], dtype=float, copy=True)
                                z = np.asarray(fun(xr.copy()), dtype=float)
                                scale = atol + np.maximum(np.abs(xr), np.abs(z)) * rtol
                                e2 = float(np.linalg.norm((z - xr) / scale) / max(len(xr), 1) ** 0.5)
                                if not (e2 < 1.0):
                                    silent = True
                                    rec["claimed_fixed_point_error"] = e2
                            except Exception:
                                pass
                        rec["effective"] = bool(silent)
                        rec["silent_return"] = bool(silent)
                        return out
                    return _real(fun, x0, atol=atol, rtol=rtol, max_iter=max_iter)

                self._saved.append((mod, name, real))
                setattr(mod, name, wrapper)
        if self.scipy_mod:
            mod = importlib.import_module(self.scipy_mod)
            name = "solve_ivp" if hasattr(mod, "solve_ivp") else "solve_dae"
            real = getattr(mod, name)

            def wrapper(*a, _real=real, _site=self.scipy_mod, **kw):
                forced, rec = plan.decide("integrator", _site)
                res = _real(*a, **kw)
                if forced:
                    k = max(1, len(res.t) // 2)
                    res.t = res.t[:k]
                    res.y = res.y[:, :k]
                    if getattr(res, "yp", None) is not None:
                        res.yp = res.yp[:, :k]
                    res.status = -1
                    res.success = False
                    res.message = "Required step size is less than spacing between numbers."
                    rec["effective"] = True
                return res

            self._saved.append((mod, name, real))
            setattr(mod, name, wrapper)
        return self

    def __exit__(self, *exc):
        for mod, name, real in reversed(self._saved):
            setattr(mod, name, real)
        self._saved = []
        return False


def count_steps(system, plan):
    """count accepted steps through the system's step_callback (called once per accepted step by
    every solver that has the notion)"""
    orig = system.step_callback

    def counting(t, q, u):
        plan.accepted += 1
        return orig(t, q, u)

    system.step_callback = counting
    return orig


def times_in(msg):
    """floats that a message presents as a time: 't=0.31', 't = 0.31', 'time 0.31', 't: 3.1e-01'"""
    import re

    out = []
    for tok in re.findall(r"(?:\bt|\btime|\bt_?n\d?)\s*[=:]?\s*([-+]?(?:\d+\.\d*|\.\d+|\d+)(?:[eE][-+]?\d+)?)", msg):
        try:
            out.append(float(tok.rstrip(".")))
        except ValueError:
            pass
    return out


def names_time(messages, times, rel=1e-6):
    for m in messages:
        for x in times_in(m):
            for t in times:
                if math.isfinite(x) and abs(x - t) <= rel * (1 + abs(t)):
                    return True
    return False
