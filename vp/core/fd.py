"""Differentiation oracles (DESIGN 2.2): real 5-point stencils with a measured error estimate,
exact differences for affine arguments, complex step for whitelisted pure kernels."""
import numpy as np


def d5(f, x, v, h):
    """5-point central difference of s -> f(x + s v) at s=0"""
    x = np.asarray(x, float)
    v = np.asarray(v, float)
    return (np.asarray(f(x - 2 * h * v), float) - 8 * np.asarray(f(x - h * v), float)
            + 8 * np.asarray(f(x + h * v), float) - np.asarray(f(x + 2 * h * v), float)) / (12 * h)


def ddir(f, x, v, h=None):
    """directional derivative and error estimate |D(h)-D(h/2)| (max norm)"""
    x = np.asarray(x, float)
    if h is None:
        h = 1e-3 * max(1.0, float(np.max(np.abs(x))) if x.size else 1.0)
    D1 = d5(f, x, v, h)
    D2 = d5(f, x, v, h / 2)
    est = float(np.max(np.abs(D1 - D2))) if D1.size else 0.0
    return D2, est


def jac(f, x, h=None, idx=None):
    """dense Jacobian d f / d x by 5-point stencils, shape f.shape + (n,), and the max error estimate"""
    x = np.asarray(x, float)
    n = x.size
    cols = []
    est = 0.0
    rng = range(n) if idx is None else idx
    for i in rng:
        e = np.zeros(n)
        e[i] = 1.0
        D, s = ddir(f, x, e.reshape(x.shape), h)
        cols.append(D)
        est = max(est, s)
    J = np.stack(cols, axis=-1) if cols else np.zeros((0, 0))
    return J, est


def affine_jac(f, n, x0=None):
    """exact Jacobian of an affine map: columns f(x0+e_i) - f(x0)"""
    x0 = np.zeros(n) if x0 is None else np.asarray(x0, float)
    f0 = np.asarray(f(x0), float)
    cols = []
    for i in range(n):
        e = x0.copy()
        e[i] += 1.0
        cols.append(np.asarray(f(e), float) - f0)
    return np.stack(cols, axis=-1) if cols else np.zeros(f0.shape + (0,))


def cs(f, x, v, h=1e-30):
    """complex-step directional derivative (only for analytic-safe kernels)"""
    x = np.asarray(x, float)
    return np.imag(np.asarray(f(x + 1j * h * np.asarray(v, float)))) / h


def dense(A):
    if A is None:
        return None
    if hasattr(A, "toarray"):
        return np.asarray(A.toarray(), float)
    return np.asarray(A, float)


def err(a, b):
    a = dense(a)
    b = dense(b)
    if a.shape != b.shape:
        try:
            a, b = np.broadcast_arrays(a, b)
        except ValueError:
            return float("inf")
    if a.size == 0:
        return 0.0
    d = np.abs(a - b)
    if np.any(np.isnan(d)):
        return float("inf")
    return float(np.max(d))


def scale_of(*arrs):
    s = 1.0
    for a in arrs:
        a = dense(a)
        if a is not None and a.size:
            m = float(np.max(np.abs(a)))
            if np.isfinite(m):
                s = max(s, m)
    return s


def verdict(routine, reference, est, atol=1e-8, rtol=1e-7, bad_est=1e-6):
    """returns ('ok'|'fail'|'illcond', error, threshold).  'illcond' = the oracle itself is not
    trustworthy at this letter (reported, excluded from the verdict)."""
    sc = scale_of(routine, reference)
    e = err(routine, reference)
    if est > bad_est * sc:
        return "illcond", e, est
    thr = atol + rtol * sc + 4 * est
    return ("ok" if e <= thr else "fail"), e, thr
