"""C26  Memoised kinematic evaluations are transparent.

Engine E2: explicit-state breadth-first exploration of operation histories on the real objects.
A *world* is a freshly built object graph (RigidBody | rod in a System | two bodies + Sphere2Sphere
in a System | Mesh1D) together with the argument arrays it owns.  Every history over the case's
operation alphabet (memoised evaluations on small argument pools, non-memoised evaluations that
consume memoised ones, state-changing operations: step_callback, set_reference_strains,
re-assembly, deepcopy, in-place mutation of a shared argument array) is executed on two worlds:
the *subject* (caches live) and the *twin* (every cachetools.Cache / lru_cache found by generic
attribute discovery is cleared before each operation).  After every evaluation the two results
must be equal (exact ==, so -0.0 == 0.0; NaN == NaN).

States are merged by canon(subject) = digest of (every cache: ordered (key, value-digest) pairs;
every ndarray attribute reachable from the object = the mutable reference data; the shared
argument arrays).  Two histories with the same canon have identical futures because these are the
only data the operations read.  Where the canonical graph is finite the exploration stops at the
fixpoint (verdict for histories of any length over that alphabet), otherwise at the stated depth.
"""
import copy
import functools
import hashlib
import itertools
import types

import numpy as np

from vp.scen import bodies as B

ID = "C26"
LEVEL = "model_checking"
RULE = (
    "per case: ALL operation histories over the case alphabet (each memoised method and its non-memoised consumers at "
    "base arguments and every single-argument deviation from the pools t{0.0,-0.0,0,1.0,1,True}, q{generic, one "
    "coordinate changed in r / in P, -0.0 copy, int copy, shared array mutated in place}, u, B_r_CP{default, explicit "
    "zeros, b1, b2, -0.0 and int copies}, xi{0,.25,.5,1 and int/float/bool/-0.0 aliases} x el{None,0,1}; state ops "
    "step_callback, set_reference_strains, re-assemble, deepcopy, in-place set) explored breadth-first with canonical "
    "state merging to the fixpoint or to the stated depth. A case is non-trivial if at least one evaluation was a cache "
    "hit on the subject (cache currsize/contents unchanged by a memoised call) and results were compared"
)
ASSUMPTIONS = [
    "oracle = twin object graph built by the same builder, receiving the same operations, with every cachetools.Cache / functools cache found by attribute discovery (attributes of cardillo objects, lists, dicts, closure cells of function attributes; depth <= 6) cleared before each operation",
    "canon = caches (ordered keys + value digests) + all reachable ndarray attributes + shared argument arrays determines all futures",
    "for rods and meshes the fresh world is a deepcopy of a freshly built, never evaluated pristine world (checked against a fresh build by canon at the start of every case, and checked to be unmodified at its end)",
    "depth-bounded families (rods, Sphere2Sphere, Mesh1D full alphabet, RigidBody all-methods group) are verified up to the stated depth only; states reached by the last level are counted without merging",
    "an evaluation that raises without memoisation is outside the domain of the property (counted as n_twin_raises_excluded), whatever the memoised call does",
]
MAX_STATES = 30000  # safety net: never reached on the unchanged tree (largest case: 10.5k states)
MIN_NONTRIVIAL = 20
MIN_OUTCOMES = 2
CASE_TIMEOUT = 900


# ================================================================================================
# generic helpers: cache discovery, digests, result comparison
# ================================================================================================
def _is_cardillo(o):
    return type(o).__module__.split(".")[0] == "cardillo"


def _krepr(k):
    """printable form of a cache key of any type (hashkey tuples, plain tuples, scalars)"""
    try:
        return repr(tuple(k))
    except TypeError:
        return repr(k)


def discover(root, max_depth=6):
    """returns (caches: list[(path, cache)], arrays: list[(path, ndarray)], lru: list[func])"""
    import cachetools

    seen = set()
    caches, arrays, lru = [], [], []

    def walk(o, path, d):
        if id(o) in seen or d > max_depth:
            return
        seen.add(id(o))
        if isinstance(o, cachetools.Cache):
            caches.append((path, o))
            return
        if isinstance(o, np.ndarray):
            if o.dtype != object:
                arrays.append((path, o))
            else:
                for i, x in enumerate(o.tolist()):
                    walk(x, f"{path}[{i}]", d + 1)
            return
        if isinstance(o, (list, tuple)):
            for i, x in enumerate(o):
                walk(x, f"{path}[{i}]", d + 1)
            return
        if isinstance(o, dict):
            for k in o:
                walk(o[k], f"{path}[{k!r}]", d + 1)
            return
        if isinstance(o, types.FunctionType):
            # closures created in assembler_callback capture `self` (after a deepcopy: the ORIGINAL objects)
            for i, cell in enumerate(o.__closure__ or ()):
                try:
                    walk(cell.cell_contents, f"{path}<cell{i}>", d + 1)
                except ValueError:
                    pass
            return
        if hasattr(o, "__dict__") and _is_cardillo(o) and not callable(o):
            for k in vars(o):
                walk(vars(o)[k], f"{path}.{k}", d + 1)
            for klass in type(o).__mro__:
                for k, v in vars(klass).items():
                    if isinstance(v, functools._lru_cache_wrapper) and v not in lru:
                        lru.append(v)

    walk(root, "", 0)
    return caches, arrays, lru


def clear_caches(world):
    caches, _, lru = world.disc()
    for _, c in caches:
        c.clear()
    for f in lru:
        f.cache_clear()
    return len(caches) + len(lru)


def _dig(h, o):
    if isinstance(o, np.ndarray):
        a = np.ascontiguousarray(o)
        h.update(str(a.dtype).encode())
        h.update(str(a.shape).encode())
        h.update(a.tobytes())
    elif isinstance(o, (tuple, list)):
        h.update(b"(")
        for x in o:
            _dig(h, x)
        h.update(b")")
    elif hasattr(o, "toarray"):
        _dig(h, np.asarray(o.toarray()))
    else:
        h.update(repr(o).encode())


def digest(o):
    h = hashlib.blake2b(digest_size=12)
    _dig(h, o)
    return h.hexdigest()


def cache_order(c):
    od = getattr(c, "_LRUCache__order", None)
    keys = list(od) if od is not None else list(c.keys())
    return keys


def canon(world):
    import cachetools

    old = [id(c) for _, c in world.disc()[0]]
    caches, arrays, _ = world.disc(refresh=True)
    if old != [id(c) for _, c in caches]:
        raise RuntimeError("harness: an evaluation created or replaced cache objects; discovery must be refreshed after it")
    h = hashlib.blake2b(digest_size=16)
    for path, c in caches:
        h.update(path.encode())
        for k in cache_order(c):
            h.update(_krepr(k).encode())
            _dig(h, cachetools.Cache.__getitem__(c, k))  # base-class read: does not touch the LRU order
    h.update(b"|ref|")
    for path, a in arrays:
        h.update(path.encode())
        _dig(h, a)
    h.update(b"|shared|")
    for k in sorted(world.shared):
        _dig(h, world.shared[k])
    return h.hexdigest()


def refdigest(world):
    _, arrays, _ = world.disc(refresh=True)
    h = hashlib.blake2b(digest_size=12)
    for path, a in arrays:
        h.update(path.encode())
        _dig(h, a)
    return h.hexdigest()


def cache_sig(world):
    caches, _, _ = world.disc()
    return tuple((p, frozenset(_krepr(k) for k in cache_order(c))) for p, c in caches)


def flatten(r, out=None):
    out = [] if out is None else out
    if r is None:
        out.append(np.zeros(0))
    elif isinstance(r, (tuple, list)):
        out.append(np.array([len(r)], float))
        for x in r:
            flatten(x, out)
    elif hasattr(r, "toarray"):
        out.append(np.asarray(r.toarray(), float))
    else:
        out.append(np.asarray(r, float))
    return out


def compare(r1, r2):
    """returns (equal, maxdiff)"""
    if isinstance(r1, _Raised) or isinstance(r2, _Raised):
        if isinstance(r1, _Raised) and isinstance(r2, _Raised):
            return r1.name == r2.name, float("nan")
        return False, float("inf")
    a, b = flatten(r1), flatten(r2)
    if len(a) != len(b):
        return False, float("inf")
    md = 0.0
    ok = True
    for x, y in zip(a, b):
        if x.shape != y.shape:
            return False, float("inf")
        if not np.array_equal(x, y, equal_nan=True):
            ok = False
            with np.errstate(all="ignore"):
                d = np.abs(x - y)
            d = d[~(np.isnan(x) & np.isnan(y))]
            md = max(md, float(np.nanmax(d)) if d.size and not np.all(np.isnan(d)) else float("inf"))
    return ok, md


class _Raised:
    def __init__(self, e):
        self.name = type(e).__name__
        self.text = f"{type(e).__name__}: {e}"[:200]


# ================================================================================================
# worlds and letters
# ================================================================================================
_PRISTINE = {}


def pristine_builder(key, fresh):
    """build() = deepcopy of a freshly built, never evaluated world (its attribute discovery is
    copied along, deepcopy keeps the object identities consistent).  check() validates the
    deepcopy against a really fresh build (canon) at the start of every case."""
    def build():
        if key not in _PRISTINE:
            w = fresh()
            w.disc()
            _PRISTINE[key] = (w, canon(w))
        return copy.deepcopy(_PRISTINE[key][0])

    def guard():
        w, c = _PRISTINE[key]
        if canon(w) != c:
            raise RuntimeError("harness: the pristine world was modified through one of its deepcopies")
    build.fresh = fresh
    build.guard = guard
    return build


class World:
    def __init__(self, kind, obj, system=None, shared=None, extra=None):
        self.kind = kind
        self.obj = obj
        self.system = system
        self.shared = shared or {}
        self.extra = extra or {}

        self._disc = None

    def root(self):
        # the System itself holds no caches; its contributions are reached from the object under test
        return self.obj

    def disc(self, refresh=False):
        """cached attribute discovery; refreshed after every state operation (which may replace objects)"""
        if self._disc is None or refresh:
            self._disc = discover(self.root())
        return self._disc


_ALIAS = {"A_nz": "A", "qa_nz": "qa", "t0n": "t0", "t0i": "t0", "t1i": "t1", "tT": "t1", "qi": "qf", "ui": "uf", "bi": "bf",
          "ua_nz": "ua", "b1_nz": "b1", "q1_nz": "q1", "x0i": "x0", "x1i": "x1", "B0": "Bdef"}


class Letter:
    """argkey = the argument letters up to ==-equality (aliases -0.0/int/bool/explicit default are
    merged), used only to describe failures (has the reference data changed since the last
    evaluation with ==-equal arguments?)"""
    __slots__ = ("name", "kind", "fn", "method", "argkey")

    def __init__(self, name, kind, fn, method=None, argkey=None):
        self.name, self.kind, self.fn, self.method = name, kind, fn, method
        self.argkey = None if argkey is None else ",".join(_ALIAS.get(a, a) for a in argkey.split(","))


def _negzero(a):
    a = np.array(a, float)
    return np.where(a == 0.0, -0.0, a)


# ------------------------------------------------------------------------------------------------
# RigidBody
# ------------------------------------------------------------------------------------------------
RB_Q = {
    "qa": np.array([0.3, 0.0, -1.2, 1.17, 0.0, 0.52, -0.39]),
    "qr": np.array([0.3, 0.5, -1.2, 1.17, 0.0, 0.52, -0.39]),
    "qP": np.array([0.3, 0.0, -1.2, 1.17, 0.0, -0.8, -0.39]),
    "qf": np.array([1.0, 0.0, -2.0, 1.0, 1.0, 0.0, -1.0]),
}
# arguments that differ only in components -1.0 <-> -2.0: in CPython hash(-1.0) == hash(-2.0) == -2, so a cache that compares
# hash VALUES instead of keys confuses them (seeded C26-h)
RB_Q["qh"] = np.array([1.0, 0.0, -1.0, 1.0, 1.0, 0.0, -1.0])
RB_Q["qh2"] = np.array([1.0, 0.0, -2.0, 1.0, 1.0, 0.0, -1.0])
RB_Q["qh3"] = np.array([1.0, 0.0, -1.0, 1.0, 1.0, 0.0, -2.0])
RB_Q["qa_nz"] = _negzero(RB_Q["qa"])
RB_Q["qi"] = RB_Q["qf"].astype(int)
RB_U = {
    "ua": np.array([0.4, -0.7, 0.0, 0.9, 0.0, -1.1]),
    "ub": np.array([0.4, -0.7, 0.0, 0.9, 0.6, -1.1]),
    "uc": np.array([0.4, 0.2, 0.0, 0.9, 0.0, -1.1]),
    "uf": np.array([1.0, 0.0, -1.0, 2.0, 1.0, 0.0]),
}
RB_U["uh"] = np.array([1.0, 0.0, -1.0, 2.0, -1.0, 0.0])
RB_U["uh2"] = np.array([1.0, 0.0, -2.0, 2.0, -1.0, 0.0])
RB_U["uh3"] = np.array([1.0, 0.0, -1.0, 2.0, -2.0, 0.0])
RB_U["ua_nz"] = _negzero(RB_U["ua"])
RB_U["ui"] = RB_U["uf"].astype(int)
RB_B = {
    "Bdef": None,  # keyword omitted: the library's default array
    "B0": np.zeros(3),
    "b1": np.array([0.2, 0.0, -0.5]),
    "b2": np.array([0.2, 0.3, -0.5]),
    "bf": np.array([1.0, 0.0, -1.0]),
}
RB_B["bh"] = np.array([-1.0, 0.0, 0.5])
RB_B["bh2"] = np.array([-2.0, 0.0, 0.5])
RB_B["b1_nz"] = _negzero(RB_B["b1"])
RB_B["bi"] = RB_B["bf"].astype(int)
RB_T = {"t0": 0.0, "t0n": -0.0, "t0i": 0, "t1": 1.0, "t1i": 1, "tT": True, "tm1": -1.0, "tm2": -2.0}
RB_UD = np.array([0.3, -0.2, 0.5, 0.1, 0.7, -0.4])

RB_VARIANTS = {
    # base (t,q,u,B), alternatives per argument, state ops
    "key": dict(base=("t0", "qa", "ua", "b1"), T=["t1"], Q=["qr", "qP"], U=["ub", "uc"], Bs=["b2", "Bdef"], ops=["deepcopy"]),
    "zero": dict(base=("t0", "qa", "ua", "b1"), T=["t0n", "t0i"], Q=["qa_nz"], U=["ua_nz"], Bs=["b1_nz", "Bdef", "B0"], ops=[]),
    "int": dict(base=("t1", "qf", "uf", "bf"), T=["t1i", "tT"], Q=["qi"], U=["ui"], Bs=["bi"], ops=[]),
    "hash": dict(base=("tm1", "qh", "uh", "bh"), T=["tm2"], Q=["qh2", "qh3"], U=["uh2", "uh3"], Bs=["bh2"], ops=[]),
    "mut": dict(base=("t0", "qa", "ua", "b1"), T=[], Q=["M", "qP"], U=[], Bs=["Bdef"],
                ops=["setM:qa", "setM:qP", "stepcb:M", "deepcopy"]),
}
RB_GROUPS = {
    # memoised methods + non-memoised consumers
    "pos": ["A_IB", "A_IB_q", "r_OP", "r_OP_q"],
    "vel": ["A_IB", "v_P", "v_P_q", "a_P", "kappa_P_u"],
    "jac": ["A_IB", "A_IB_q", "J_P", "J_P_q"],
    "all": ["A_IB", "A_IB_q", "r_OP", "v_P", "J_P"],
}
RB_SIG = {  # which arguments a method takes
    "A_IB": "tq", "A_IB_q": "tq", "r_OP": "tqB", "r_OP_q": "tqB", "J_P": "tqB", "J_P_q": "tqB",
    "v_P": "tquB", "v_P_q": "tquB", "a_P": "tquB", "kappa_P_u": "tquB",
}
RB_MEMO = {"A_IB", "A_IB_q", "r_OP", "v_P", "J_P"}


def _rb_build():
    body = B.rigid_body(1, RB_Q["qa"])
    return World("RigidBody", body, shared={"M": RB_Q["qa"].copy()})


def _rb_arg(world, name):
    if name == "M":
        return world.shared["M"]
    for pool in (RB_Q, RB_U, RB_B):
        if name in pool:
            v = pool[name]
            return None if v is None else v.copy()
    return RB_T[name]


def _rb_eval(method, tn, qn, un, bn):
    sig = RB_SIG[method]

    def fn(w):
        t, q = _rb_arg(w, tn), _rb_arg(w, qn)
        kw = {}
        if "B" in sig and bn != "Bdef":
            kw["B_r_CP"] = _rb_arg(w, bn)
        f = getattr(w.obj, method)
        if "u" in sig:
            u = _rb_arg(w, un)
            if method in ("a_P",):
                return f(t, q, u, RB_UD.copy(), **kw)
            return f(t, q, u, **kw)
        return f(t, q, **kw)

    return fn


def _rb_letters(variant, group):
    V = RB_VARIANTS[variant]
    t0, q0, u0, b0 = V["base"]
    L = []
    for m in RB_GROUPS[group]:
        sig = RB_SIG[m]
        combos = [(t0, q0, u0, b0)]
        combos += [(t, q0, u0, b0) for t in V["T"]]
        combos += [(t0, q, u0, b0) for q in V["Q"]]
        if "u" in sig:
            combos += [(t0, q0, u, b0) for u in V["U"]]
        if "B" in sig:
            combos += [(t0, q0, u0, b) for b in V["Bs"]]
        if m not in RB_MEMO:
            combos = combos[:1] + [c for c in combos[1:] if c[1] != q0][:2] + [c for c in combos[1:] if c[3] != b0][:1]
        for (t, q, u, b) in combos:
            parts = [t, q] + ([u] if "u" in sig else []) + ([b] if "B" in sig else [])
            L.append(Letter(f"{m}({','.join(parts)})", "eval", _rb_eval(m, t, q, u, b), method=m, argkey=",".join(parts)))
    for op in V["ops"]:
        L.append(_rb_op(op))
    return L


def _rb_op(op):
    if op == "deepcopy":
        def fn(w):
            w.obj = copy.deepcopy(w.obj)
        return Letter("deepcopy", "op", fn)
    if op.startswith("setM:"):
        src = op.split(":")[1]

        def fn(w):
            w.shared["M"][:] = RB_Q[src]
        return Letter(op, "op", fn)
    if op == "stepcb:M":
        def fn(w):
            w.obj.step_callback(0.0, w.shared["M"], RB_U["ua"].copy())
        return Letter(op, "op", fn)
    raise KeyError(op)


# ------------------------------------------------------------------------------------------------
# Sphere2Sphere
# ------------------------------------------------------------------------------------------------
S2S_GROUPS = {
    "normal": ["n", "n_q1_q2", "g_N_q", "g_N_dot", "Wla_N_q"],
    "tangent": ["n", "t1t2", "t1t2_q1_q2"],
    "friction": ["t1t2", "gamma_F", "gamma_F_q", "gamma_F_u", "gamma_F_dot", "Wla_F_q"],
}
S2S_MEMO = {"n", "n_q1_q2", "t1t2", "t1t2_q1_q2"}
S2S_U = np.array([0.3, -0.2, 0.5, 0.1, 0.7, -0.4, -0.6, 0.2, 0.1, 0.5, -0.3, 0.8])
S2S_UD = np.array([0.1, 0.4, -0.5, 0.2, -0.7, 0.3, 0.6, -0.2, 0.9, -0.5, 0.3, 0.1])


def _s2s_build(pair):
    def fresh():
        if pair == "body-body":
            s, b1, b2, c = B.make_s2s("A")
        elif pair == "body-body-xz":
            s, b1, b2, c = B.make_s2s("Z")
        else:
            s, b1, b2, c = _make_s2s_frame()
        return World("Sphere2Sphere", c, system=s, extra={"pair": pair})
    # NOT a pristine deepcopy: the contact's closures would stay bound to the pristine bodies
    return fresh


def _frame_r(t):
    return np.array([0.2 * t, -0.1 + 0.5 * t, 0.3 * t * t])


def _frame_r_t(t):
    return np.array([0.2, 0.5, 0.6 * t])


def _frame_r_tt(t):
    return np.array([0.0, 0.0, 0.6])


def _make_s2s_frame():
    from cardillo import System
    from cardillo.discrete import Frame
    from cardillo.contacts import Sphere2Sphere
    from cardillo.solver import SolverOptions

    q = B.s2s_q("A")
    f1 = Frame(r_OP=_frame_r, r_OP_t=_frame_r_t, r_OP_tt=_frame_r_tt, name="f1")
    b2 = B.rigid_body(1, q[7:], name="b2")
    c = Sphere2Sphere(f1, b2, 0.3, 0.4, 0.5, e_N=0.1, e_F=0.0, name="s2s")
    s = System()
    s.add(f1, b2, c)
    s.assemble(options=SolverOptions(compute_consistent_initial_conditions=False))
    return s, f1, b2, c


def _s2s_q(w, qn):
    q = B.s2s_q(qn[0], negzero=qn.endswith("_nz"))
    return q if w.extra["pair"].startswith("body-body") else q[7:]


def _s2s_eval(method, tn, qn):
    def fn(w):
        c = w.obj
        t = RB_T[tn]
        q = _s2s_q(w, qn)
        nu = c._nu
        if method in ("n", "n_q1_q2", "t1t2", "t1t2_q1_q2", "g_N_q", "gamma_F_u"):
            return getattr(c, method)(t, q)
        if method in ("g_N_dot", "gamma_F", "gamma_F_q"):
            return getattr(c, method)(t, q, S2S_U[-nu:].copy())
        if method == "gamma_F_dot":
            return c.gamma_F_dot(t, q, S2S_U[-nu:].copy(), S2S_UD[-nu:].copy())
        if method == "Wla_N_q":
            return c.Wla_N_q(t, q, np.array([0.7]))
        if method == "Wla_F_q":
            return c.Wla_F_q(t, q, np.array([0.7, -0.3]))
        raise KeyError(method)
    return fn


def _s2s_letters(pair, group, tier):
    L = []
    nA, nB, nC = ("Y", "X", "Z") if pair == "body-body-xz" else ("A", "B", "C")
    combos = [("t0", nA), ("t1", nA), ("t0", nB), ("t0", nA + "_nz")]
    if tier != "quick":
        combos.append(("t0", nC))
    for m in S2S_GROUPS[group]:
        cs = combos if m in S2S_MEMO else (combos[:3] if tier != "quick" else [combos[0], combos[2]])
        for tn, qn in cs:
            L.append(Letter(f"{m}({tn},{qn})", "eval", _s2s_eval(m, tn, qn), method=m, argkey=f"{tn},{qn}"))
    for qn in ((nA, nB) if tier == "quick" else (nA, nB, nC)) + ((nC,) if pair == "body-body-xz" and tier == "quick" else ()):
        def fn(w, qn=qn):
            w.obj.step_callback(0.0, _s2s_q(w, qn), None)
        L.append(Letter(f"stepcb({qn})", "op", fn))
    for qn in ((nC,) if tier == "quick" else (nA, nC)):
        def fn(w, qn=qn):
            from cardillo.solver import SolverOptions

            s = w.system
            q0 = B.s2s_q(qn)
            q0 = q0 if w.extra["pair"].startswith("body-body") else q0[7:]
            s.set_new_initial_state(q0, np.zeros(s.nu), options=SolverOptions(compute_consistent_initial_conditions=False))
        L.append(Letter(f"reassemble(q0={qn})", "op", fn))

    def dc(w):
        w.system = w.system.deepcopy()
        w.obj = w.system.contributions_map["s2s"]
    L.append(Letter("deepcopy", "op", dc))
    return L


# ------------------------------------------------------------------------------------------------
# rods
# ------------------------------------------------------------------------------------------------
def _rod_fresh(interp, mixed):
    Q0, Q1 = B.rod_reference_configs(interp, mixed)
    rod, system = B.make_rod(interp, mixed, Q0)
    nn = rod.nnodes_r
    q1 = B.rod_deformed(Q0, nn, 0)
    q2 = q1.copy()
    q2[1] += 0.125  # one coordinate of the first node (element 0 only)
    pools = {"Q0": Q0, "Q1": Q1, "q1": q1, "q2": q2, "q1_nz": _negzero(q1)}
    return World("Rod", rod, system=system, shared={"M": q1.copy()}, extra={"pools": pools, "interp": interp, "mixed": mixed})


def _rod_build(interp, mixed):
    return pristine_builder(("rod", interp, mixed), lambda: _rod_fresh(interp, mixed))


ROD_XI = {"x25": 0.25, "x0": 0.0, "x0i": 0, "x5": 0.5, "x1": 1.0, "x1i": 1, "x75": 0.75}
ROD_B = {"Bdef": None, "b1": np.array([0.02, -0.05, 0.03])}


def _rod_q(w, qn):
    return w.shared["M"] if qn == "M" else w.extra["pools"][qn].copy()


def _rod_eval(method, qn, xn, bn):
    def fn(w):
        rod = w.obj
        q = _rod_q(w, qn)
        if method == "E_pot":
            return rod.E_pot(0.0, q)
        if method in ("h", "h_q"):
            return getattr(rod, method)(0.0, q, np.linspace(-0.3, 0.4, rod.nu))
        if method in ("c", "c_q", "W_c", "Wla_c_q"):
            la = np.linspace(-0.5, 0.7, rod.nla_c)
            if method in ("c", "c_q"):
                return getattr(rod, method)(0.0, q, np.zeros(rod.nu), la)
            if method == "W_c":
                return rod.W_c(0.0, q)
            return rod.Wla_c_q(0.0, q, la)
        if method.startswith("_eval@") or method.startswith("_deval@"):
            name, at = method.split("@")
            el = int(at[0])
            i = rod.nquadrature - 1 if at[1] == "L" else int(at[1])
            qe = q[rod.elDOF[el]]
            return getattr(rod, name)(qe, rod.qp[el, i], rod.N_r[el, i], rod.N_r_xi[el, i])
        xi = ROD_XI[xn]
        qe = q[rod.elDOF_P(xi)]
        f = getattr(rod, method)
        if method in ("A_IB", "A_IB_q"):
            return f(0.0, qe, xi)
        if bn == "Bdef":
            return f(0.0, qe, xi)
        return f(0.0, qe, xi, B_r_CP=ROD_B[bn].copy())
    return fn


def _rod_letters(group, tier, mixed):
    L = []

    def ev(m, q, x="-", b="-"):
        L.append(Letter(f"{m}({q},{x},{b})", "eval", _rod_eval(m, q, x, b), method=m.split("@")[0], argkey=f"{q},{x}"))

    xis = ["x25", "x5", "x1"] + ([] if tier == "quick" else ["x0", "x1i", "x75"])
    qs = ["q1", "Q0", "q2", "M"] + ([] if tier == "quick" else ["q1_nz"])
    if group == "eval":
        for x in xis:
            ev("r_OP", "q1", x, "b1")
        for q in qs[1:]:
            ev("r_OP", q, "x25", "b1")
        ev("r_OP", "q1", "x25", "Bdef")
        for x in xis[:(1 if tier == "quick" else 2)]:
            ev("A_IB", "q1", x)
        ev("A_IB", "M", "x25")
        ev("_eval@00", "Q0")
        if tier != "quick":
            ev("J_P", "q1", "x25", "b1")
            ev("_eval@00", "q1")
            ev("_eval@1L", "Q0")
            ev("E_pot", "Q0")
        ev("E_pot", "q1")
        ev("c" if mixed else "h", "q1")
    else:
        for x in xis:
            ev("r_OP_q", "q1", x, "b1")
        for q in qs[1:]:
            ev("r_OP_q", q, "x25", "b1")
        for x in xis[:(1 if tier == "quick" else 2)]:
            ev("A_IB_q", "q1", x)
        ev("_deval@1L", "Q0")
        if tier != "quick":
            ev("J_P_q", "q1", "x25", "b1")
            ev("_deval@00", "q1")
            ev("E_pot", "q1")
        ev("r_OP", "q1", "x25", "b1")
        ev("Wla_c_q" if mixed else "h_q", "q1")

    def setref(w, k):
        w.obj.set_reference_strains(w.extra["pools"][k].copy())
    for k in ("Q0", "Q1"):
        L.append(Letter(f"set_reference_strains({k})", "op", lambda w, k=k: setref(w, k)))

    def stepcb(w):
        w.obj.step_callback(0.0, w.shared["M"], np.zeros(w.obj.nu))
    L.append(Letter("stepcb(M)", "op", stepcb))

    def setM(w, k):
        w.shared["M"][:] = w.extra["pools"][k]
    for k in (("q2",) if tier == "quick" else ("q1", "q2")):
        L.append(Letter(f"setM({k})", "op", lambda w, k=k: setM(w, k)))

    def reasm(w):
        from cardillo.solver import SolverOptions

        w.system.assemble(options=SolverOptions(compute_consistent_initial_conditions=False))
    L.append(Letter("reassemble", "op", reasm))

    def dc(w):
        w.system = w.system.deepcopy()
        w.obj = w.system.contributions_map["Cosserat_rod"]
    L.append(Letter("deepcopy", "op", dc))
    return L


# ------------------------------------------------------------------------------------------------
# Mesh1D
# ------------------------------------------------------------------------------------------------
MESH_XI = [("0.0", 0.0), ("0i", 0), ("-0.0", -0.0), ("0.25", 0.25), ("0.5", 0.5), ("np0.5", np.float64(0.5)),
           ("1.0", 1.0), ("1i", 1), ("True", True), ("0.75", 0.75)]
MESH_EL = [("None", None), ("0", 0), ("1", 1), ("np1", np.int64(1)), ("omitted", "omitted")]


def _mesh_build(degree, basis):
    return pristine_builder(("mesh", degree, basis), lambda: World("Mesh1D", B.make_mesh(degree, 2, 1, basis)))


MESH_SMALL_XI = ("0.25", "0.5", "1.0", "1i")
MESH_SMALL_EL = ("None", "0")


def _mesh_letters(alphabet="full"):
    L = []
    for xn, xi in MESH_XI:
        for en, el in MESH_EL:
            if alphabet == "small" and not (xn in MESH_SMALL_XI and en in MESH_SMALL_EL):
                continue
            def fn(w, xi=xi, el=el):
                if isinstance(el, str):
                    return w.obj.eval_basis(xi)
                return w.obj.eval_basis(xi, el)
            L.append(Letter(f"eval_basis({xn},{en})", "eval", fn, method="eval_basis", argkey=f"{xn},{en}"))

    def dc(w):
        w.obj = copy.deepcopy(w.obj)
    L.append(Letter("deepcopy", "op", dc))
    return L


# ================================================================================================
# cases
# ================================================================================================
def _family(case):
    """returns (build, letters, max_depth)"""
    fam, tier = case["family"], case["tier"]
    quick = tier == "quick"
    if fam == "RigidBody":
        L = _rb_letters(case["variant"], case["group"])
        if case["group"] == "all":
            depth = 3 if quick else 4
        else:
            depth = 99  # fixpoint
        return _rb_build, L, depth
    if fam == "Sphere2Sphere":
        return _s2s_build(case["pair"]), _s2s_letters(case["pair"], case["group"], tier), case["depth"]
    if fam == "Rod":
        return _rod_build(case["interp"], case["mixed"]), _rod_letters(case["group"], tier, case["mixed"]), case["depth"]
    if fam == "Mesh1D":
        return _mesh_build(case["degree"], case["basis"]), _mesh_letters(case["alphabet"]), case["depth"]
    raise KeyError(fam)


def cases(tier, seed):
    quick = tier == "quick"
    out = []
    for v in RB_VARIANTS:
        for g in RB_GROUPS:
            if g == "all":  # depth-bounded: sharded by the first letter
                for first in range(len(_rb_letters(v, g))):
                    out.append({"family": "RigidBody", "variant": v, "group": g, "first": first})
            else:
                out.append({"family": "RigidBody", "variant": v, "group": g})
    # depth-bounded families are sharded by the first letter of the history
    for degree in (1, 2):
        for basis in ("Lagrange", "Lagrange_Disc"):
            if basis == "Lagrange_Disc" and quick:
                continue
            # all aliasing collisions: every history of length 2 over the full alphabet (sharded) ...
            c = {"family": "Mesh1D", "degree": degree, "basis": basis, "alphabet": "full", "depth": 2 if quick else 3}
            for first in range(len(_mesh_letters("full"))):
                out.append(dict(c, first=first))
            # ... evictions and re-queries: small alphabet (6 distinct keys > maxsize) to the fixpoint
            out.append({"family": "Mesh1D", "degree": degree, "basis": basis, "alphabet": "small",
                        "depth": 99 if (degree == 1 or not quick) else 5})
    for pair in ("body-body", "frame-body", "body-body-xz"):
        for g in S2S_GROUPS:
            if pair == "frame-body" and g == "friction" and quick:
                continue
            if pair == "body-body-xz" and g != "tangent":
                continue
            c = {"family": "Sphere2Sphere", "pair": pair, "group": g, "depth": 3 if (quick or g != "tangent" or pair != "body-body") else 4, "tier": tier}
            n = len(_s2s_letters(pair, g, tier))
            for first in range(n):
                out.append(dict(c, first=first))
    kinds = B.ROD_KINDS[:3] if quick else B.ROD_KINDS
    for interp, mixed in kinds:
        for g in ("eval", "deval"):
            c = {"family": "Rod", "interp": interp, "mixed": mixed, "group": g, "depth": 3, "tier": tier}
            n = len(_rod_letters(g, tier, mixed))
            for first in range(n):
                out.append(dict(c, first=first))
    for c in out:
        c["tier"] = tier
    return out


# ================================================================================================
# exploration
# ================================================================================================
def _apply(world, letter, twin):
    if twin:
        clear_caches(world)
    try:
        r = letter.fn(world)
        if letter.kind == "op":
            world.disc(refresh=True)
        return r
    except Exception as e:  # classified by the comparison (both worlds must behave the same)
        import traceback, os

        # an exception raised by harness code itself must not be swallowed
        tb = traceback.extract_tb(e.__traceback__)
        inner = tb[-1].filename if tb else ""
        if os.path.abspath(inner) == os.path.abspath(__file__) or "/vp/scen/" in inner:
            raise
        return _Raised(e)


def check(case):
    build, letters, max_depth = _family(case)
    fails = {}
    stats = {"n_hits": 0, "n_compared": 0, "n_twin_raises_excluded": 0, "n_state_ops": 0}
    transitions = 0
    outcomes = set()

    # pristine-deepcopy builders must agree with a really fresh build
    if hasattr(build, "fresh"):
        if canon(build.fresh()) != canon(build()):
            raise RuntimeError("harness: deepcopy of the pristine world differs from a fresh build")

    def run(hist, li, explain=False, need_canon=True):
        """replays hist on fresh subject+twin, applies letter li with comparison; returns canon.
        explain=True (second execution of a failing transition) additionally tracks whether the
        reference data changed since the last evaluation with the same arguments."""
        nonlocal transitions
        subj, twin = build(), build()
        last_ref = {}
        for lj in hist:
            Lj = letters[lj]
            if explain and Lj.kind == "eval":
                last_ref[Lj.argkey] = refdigest(subj)
            _apply(subj, Lj, False)
            _apply(twin, Lj, True)
        L = letters[li]
        if not explain:
            transitions += 1
        if L.kind == "eval":
            ref_now = refdigest(subj) if explain else None
            sig0 = cache_sig(subj)
            r1 = _apply(subj, L, False)
            sig1 = cache_sig(subj)
            r2 = _apply(twin, L, True)
            hit = sig0 == sig1 and any(len(k) for _, k in sig0)
            eq, md = compare(r1, r2)
            if isinstance(r2, _Raised):
                # the evaluation does not exist without memoisation: outside the domain of the property
                eq = True
                if not explain:
                    stats["n_twin_raises_excluded"] += 1
                    outcomes.add("twin-raises(" + r2.name + "):" + ("subject-raises" if isinstance(r1, _Raised) else "subject-returns"))
            elif not explain:
                stats["n_compared"] += 1
                stats["n_hits"] += 1 if hit else 0
                outcomes.add(("hit" if hit else "miss") + (":equal" if eq else ":DIFFERENT"))
            if not eq and not explain:
                return run(hist, li, explain=True, need_canon=need_canon)
            if explain and eq:
                raise RuntimeError("harness: a differing transition did not reproduce on re-execution: " + L.name)
            if not eq:
                site = f"{case['family']}.{L.method} memoised vs cache-free twin"
                if isinstance(r1, _Raised) != isinstance(r2, _Raised):
                    site = f"{case['family']}.{L.method} raises only " + ("with" if isinstance(r1, _Raised) else "without") + " memoisation"
                names = [letters[j].name for j in hist] + [L.name]
                if site not in fails:
                    changed = L.argkey in last_ref and last_ref[L.argkey] != ref_now
                    fails[site] = {"site": site, "msg": f"history {names}: max |diff| = {md:.3e}",
                                   "data": {"history": names, "max_diff": md, "method": L.method, "args": L.argkey,
                                            "refdata_changed_since_same_args": bool(changed),
                                            "history_has_state_op": any(letters[j].kind == "op" for j in hist),
                                            "subject": r1.text if isinstance(r1, _Raised) else flatten(r1)[:3],
                                            "twin": r2.text if isinstance(r2, _Raised) else flatten(r2)[:3],
                                            "n_fail_in_case": 0}}
                fails[site]["data"]["n_fail_in_case"] += 1
        else:
            stats["n_state_ops"] += 0 if explain else 1
            r1 = _apply(subj, L, False)
            r2 = _apply(twin, L, True)
            if isinstance(r1, _Raised) or isinstance(r2, _Raised):
                names = [letters[j].name for j in hist] + [L.name]
                if isinstance(r1, _Raised) and isinstance(r2, _Raised):
                    # the operation is not executable at all: the alphabet is wrong, not the library
                    raise RuntimeError(f"harness: state op fails in both worlds: {names}: {r1.text}")
                site = f"{case['family']} state op {L.name.split('(')[0]} raises only " + ("with" if isinstance(r1, _Raised) else "without") + " memoisation"
                fails.setdefault(site, {"site": site, "msg": f"history {names}: {getattr(r1, 'text', None)} / {getattr(r2, 'text', None)}",
                                        "data": {"history": names, "n_fail_in_case": 1}})
        return canon(subj) if need_canon else None

    c0 = canon(build())
    seen = {c0}
    first = case.get("first")
    depth = 0
    if first is None:
        frontier = [()]
    else:
        c1 = run((), first)
        frontier = [(first,)] if c1 not in seen else []
        seen.add(c1)
        depth = 1
    n_unmerged_last = 0
    capped = False
    while frontier and depth < max_depth and not capped:
        new = []
        last = depth + 1 >= max_depth  # successors of the last level are not expanded: no canon needed
        for hist in frontier:
            for li in range(len(letters)):
                c = run(hist, li, need_canon=not last)
                if last:
                    n_unmerged_last += 1
                elif c not in seen:
                    seen.add(c)
                    new.append(hist + (li,))
            if len(seen) > MAX_STATES or (fails and len(seen) > MAX_STATES // 5):
                capped = True  # (only reachable when evaluations have side effects: the graph is no longer finite)
                break
        if last:
            new = [None] if frontier else []
        frontier = new
        depth += 1
    if hasattr(build, "guard"):
        build.guard()
    fix = not frontier
    outcomes.add("fixpoint" if fix else "depth-bound")
    stats["max_depth"] = depth
    stats["n_fixpoint_cases"] = 1 if fix else 0
    stats["max_alphabet"] = len(letters)
    res = {"fails": list(fails.values()), "nontrivial": stats["n_hits"] > 0 and stats["n_compared"] > 0,
            "evals": stats["n_compared"], "states": len(seen) + n_unmerged_last, "transitions": transitions,
            "outcome": sorted(outcomes), "stats": stats}
    if capped:
        res["aborted"] = "state-cap"
    return res
