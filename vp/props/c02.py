"""C02  Rotation charts invert each other on their whole domain.

Engine E1: complete product  direction x magnitude ladder  for rotation vectors / screws, and the
complete set of rotation matrices of (near-)integer quaternions p0 in {0,1e-12,..,1e-3,1,2},
p in {-2..2}^3 (all 124 exact half-turns, near half-turns, quarter turns, the 24 signed
permutation matrices = ties in Spurrier's arg-max) on the real code, with a 60-digit mpmath
reference of Exp / T / T^-1 / Exp_SE3 that is itself bound to mp.expm and to the body-fixed spin
of Exp in every case (vp/scen/refrot.py selfcheck; a discrepancy there is a harness error).

Sites carry psi_norm and dist_to_pi (= pi - rotation angle) in fail.data, so that known-finding
matchers can be restricted to the neighbourhood of the half turn.
"""
import itertools
import math

import numpy as np

from vp.core import alphabet as al

ID = "C02"
LEVEL = "model_checking"
RULE = (
    "rotation vectors psi = m*d over the full product of 26 lattice + 3 (thorough: 12) seed-rotated generic directions d and the magnitude "
    "ladder m in {0,1e-12,1e-9,1e-6,1e-3,.1,1,2,3,pi-1e-2,pi-1e-3,...(every decade)...,pi-1e-10,pi-1e-12,nextafter(pi,0)} "
    "(+ {pi,4,5,6,2pi-1e-3} for T/T_inv only; thorough adds 14 intermediate magnitudes), per psi 4 increments psi_dot and 4 translations r; rotation matrices of all "
    "quaternions (p0,p), p0 in {0,1e-12,1e-9,1e-6,1e-3,1,2}, p in {-2..2}^3 (874 letters) and the 24 proper signed permutation "
    "matrices, each also as SE(3) element with 2 translations.  A case is non-trivial if every routine of the property "
    "returned a value that was compared with its oracle"
)
ASSUMPTIONS = [
    "mpmath (60 digits) closed forms of Exp, T, cofactor inverse of T, Exp_SE3 are the reference; they are re-bound in every case to mp.expm of the skew / twist matrix and to the body-fixed spin R^T dR of the reference Exp (discrepancy > 1e-30 aborts the run as harness error)",
    "SO(3) round-trip tolerance 1e-11 absolute on the whole ladder including every decade between pi-1e-2 and pi-1e-12 (a correctly branched float logarithm reaches 1e-14; measured 2.8e-14 since the near-half-turn branch of Log_SO3 was repaired; an arccos-based angle next to the half turn loses up to 5e-8 and is a violation: seeded C02-h); SE(3) round trips 1e-7 x max(1,|r|)",
    "T-family tolerance (1e-10 + 20 n(a))/(1-a/2pi), a=|psi|: T is singular at 2 pi; n(a) = a*min(1, 2.3e-16/a^2) <= 1.5e-8 is the rounding noise of (1-cos a)/a^2 * |psi| in T_SO3 for tiny angles, accepted as noise (absolute error <= 1e-8 on an O(1) matrix), not as a defect",
    "float rotation matrices built from quaternions are within one rounding per entry of an exact rotation",
]
MIN_NONTRIVIAL = 300
CASE_TIMEOUT = 120

TOL_RT = 1e-7  # SE(3) round trips (inherit the accepted small-angle rounding noise of T_SO3)
TOL_SO3 = 1e-11  # SO(3) round trips: a correctly branched float logarithm reaches 1e-14 on the whole ladder (measured 2.8e-14)
TOL_MAP = 1e-10  # conformance of forward maps, orthonormality
PI = math.pi

MAGS_LOG = [0.0, 1e-12, 1e-9, 1e-6, 1e-3, 0.1, 1.0, 2.0, 3.0, PI - 1e-2, PI - 1e-3, PI - 1e-4, PI - 1e-5, PI - 1e-6, PI - 1e-7, PI - 1e-8, PI - 1e-9,
            PI - 1e-10, PI - 1e-12, float(np.nextafter(PI, 0))]
MAGS_T = [PI, 4.0, 5.0, 6.0, 2 * PI - 1e-3]
MAGS_MORE = [1e-10, 1e-8, 1e-7, 1e-5, 1e-4, 1e-2, 0.5, 1.5, 2.5, PI - 0.1, 3.5, 4.5, 5.5, 2 * PI - 1e-2]  # thorough tier
P0S = [0.0, 1e-12, 1e-9, 1e-6, 1e-3, 1.0, 2.0]


def directions(seed, tier="quick"):
    return al.lattice_dirs() + [al.generic_unit(seed, k) for k in range(3 if tier == "quick" else 12)]


def psi_dots(seed):
    return [np.array([1.0, 0, 0]), np.array([0, -1.0, 0]), np.array([0.3, -1.2, 2.0]), al.generic_vec(seed, 11, 3, 1.5)]


def translations(seed):
    g = al.generic_vec(seed, 5, 3, 2.0)
    return [np.zeros(3), np.array([1.0, 0, 0]), g, 10 * g]


def cases(tier, seed):
    out = []
    D = directions(seed, tier)
    mags = MAGS_LOG + MAGS_T
    if tier != "quick":
        mags = MAGS_LOG + MAGS_T + MAGS_MORE
    order = sorted(range(len(mags)), key=lambda i: (0 if mags[i] in (1.0, 0.0, 0.1, 2.0, 3.0) else 1, i))
    for mi in order:
        for di in range(len(D)):
            out.append({"kind": "psi", "tier": tier, "dir": di, "mag": mi, "m": mags[mi], "log_domain": mags[mi] < PI, "seed": seed})
    for i0, p0 in enumerate(P0S):
        for p1 in range(-2, 3):
            out.append({"kind": "quatA", "p0": p0, "p1": p1, "seed": seed})
    out.append({"kind": "perm", "seed": seed})
    # products of rotations that land within rounding distance of the identity / of a half turn (trace rounds above 3
    # or below -1; seeded C02-f, C02-g): one case per direction
    for di in range(len(D)):
        out.append({"kind": "compose", "tier": tier, "dir": di, "seed": seed})
    return out


class _F:
    def __init__(self):
        self.by_site = {}
        self.stats = {}
        self.n = 0

    def cmp(self, site, got, ref, tol, data, stat=None):
        self.n += 1
        got = np.asarray(got, float)
        ref = np.asarray(ref, float)
        if got.shape != ref.shape:
            e = float("inf")
        else:
            d = np.abs(got - ref)
            e = float("inf") if (d.size and not np.all(np.isfinite(d))) else (float(d.max()) if d.size else 0.0)
        if stat:
            k = "max_err_" + stat
            self.stats[k] = max(self.stats.get(k, 0.0), e if np.isfinite(e) else 1e300)
        if not (e <= tol):
            # one fail per site and case: the letter FARTHEST from the half turn (the least excusable one), so
            # that a known-finding matcher restricted to small dist_to_pi can never hide a failing regular letter
            rank = data.get("dist_to_pi", 0.0)
            if site not in self.by_site or rank > self.by_site[site][0]:
                dd = dict(data)
                dd.update({"err": e, "tol": tol})
                self.by_site[site] = (rank, {"site": site, "msg": f"error {e:.3e} > {tol:.1e} at {data}", "data": dd})
            return False
        return True

    def list(self):
        return [v[1] for v in self.by_site.values()]


def _canc(a):
    """accepted rounding noise of beta2 = (1 - cos a)/a^2 times |psi| in T_SO3 (1 - cos a carries an absolute
    rounding error of one ulp of 1): a * min(1, 2.3e-16/a^2); peaks at 1.5e-8 for a = 1.5e-8"""
    return 0.0 if a == 0 else a * min(1.0, 2.3e-16 / (a * a))


def _unnorm_quat_R(q):
    """I + 2 (q0 q~ + q~^2) written out, WITHOUT normalisation (so a non-unit q does not reproduce A)"""
    a, b, c, d = q
    return np.array([
        [1 - 2 * (c * c + d * d), 2 * (b * c - a * d), 2 * (b * d + a * c)],
        [2 * (b * c + a * d), 1 - 2 * (b * b + d * d), 2 * (c * d - a * b)],
        [2 * (b * d - a * c), 2 * (c * d + a * b), 1 - 2 * (b * b + c * c)],
    ])


def _matrix_checks(A, data, F, seed, stat_sfx=""):
    """Exp(Log A) = A, Spurrier, SE(3) round trip for one rotation matrix"""
    from cardillo.math import Exp_SO3, Log_SO3, Spurrier, Exp_SO3_quat, Exp_SE3, Log_SE3, SE3

    near = data["dist_to_pi"] <= 2e-5
    tag = "near_pi" if near else "regular"
    psi = Log_SO3(A)
    F.cmp("Exp_SO3(Log_SO3(A)) vs A", Exp_SO3(psi), A, TOL_SO3, data, "ExpLog_" + tag)
    q = Spurrier(A)
    F.cmp("Spurrier(A): unit norm", q @ q, 1.0, 1e-12, data, "spurrier_unit")
    F.cmp("Spurrier(A): quaternion reproduces A", _unnorm_quat_R(q), A, 1e-9, data, "spurrier_rep")
    F.cmp("Exp_SO3_quat(Spurrier(A)) vs A", Exp_SO3_quat(q), A, 1e-9, data, "spurrier_Exp")
    # results of earlier calls must not be changed by later calls (no buffers shared between calls)
    prev = getattr(_matrix_checks, "_prev", None)
    if prev is not None:
        for name, ref, copy in prev:
            F.cmp(name + ": result of an earlier call is not modified by a later call", ref, copy, 0.0, data, "alias")
    _matrix_checks._prev = [("Spurrier", q, q.copy()), ("Log_SO3", psi, psi.copy())]
    for r in translations(seed)[2:]:
        H = SE3(A, r)
        h = Log_SE3(H)
        sc = max(1.0, float(np.max(np.abs(r))))
        F.cmp("Exp_SE3(Log_SE3(H)) vs H", Exp_SE3(h), H, TOL_RT * sc, dict(data, r=r.tolist()), "ExpLogSE3_" + tag)


def check(case):
    from vp.scen import rotlib

    rotlib.math()  # cardillo.math from $VERIF_REPO without the (slow) package __init__
    from cardillo.math import (Exp_SO3, Log_SO3, T_SO3, T_SO3_inv, Exp_SE3, Log_SE3)
    from vp.scen import refrot as rr

    F = _F()
    seed = case.get("seed", 0)
    kind = case["kind"]
    I3 = np.eye(3)
    outcome = []

    if kind == "psi":
        d = directions(seed, case.get("tier", "quick"))[case["dir"]]
        m = case["m"]
        psi = m * d
        a = float(np.sqrt(psi @ psi))
        data = {"psi": psi.tolist(), "psi_norm": a, "dist_to_pi": PI - a, "dir": d.tolist(), "m": m}
        rs = translations(seed)
        # ---- bind the reference maps (harness self-check)
        w = rr.selfcheck([psi], rs[2:3] if case["log_domain"] else [])
        if not (w < 1e-30):
            raise AssertionError(f"reference maps inconsistent ({w}) at psi={psi.tolist()}")
        Tm = rr.to_np(rr.T(psi))
        Tim = rr.to_np(rr.Tinv(psi))
        # ---- tangent maps (whole ladder, |psi| < 2 pi)
        T = T_SO3(psi)
        Ti = T_SO3_inv(psi)
        tolM = TOL_MAP + 20 * _canc(a)
        tolT = tolM / (1 - a / (2 * PI))
        big = "" if case["log_domain"] else "_beyond_pi"
        F.cmp("T_SO3 T_SO3_inv = I", T @ Ti, I3, tolT, data, "TTinv" + big)
        F.cmp("T_SO3_inv T_SO3 = I", Ti @ T, I3, tolT, data, "TinvT" + big)
        F.cmp("T_SO3 vs mpmath T", T, Tm, tolM, data, "T_ref" + big)
        F.cmp("T_SO3_inv vs mpmath inverse of T", Ti, Tim, tolT, data, "Tinv_ref" + big)
        for pd in psi_dots(seed):
            om = rr.to_np(rr.spin(psi, pd))
            F.cmp("T_SO3(psi) psi_dot vs body-fixed spin of mpmath Exp", T @ pd, om, tolM * max(1.0, float(np.max(np.abs(pd)))), dict(data, psi_dot=pd.tolist()), "T_spin" + big)
        outcome.append("tangent maps |psi|>=pi" if not case["log_domain"] else "tangent maps |psi|<pi")
        if case["log_domain"]:
            near = data["dist_to_pi"] <= 2e-5
            tag = "near_pi" if near else "regular"
            outcome.append("log round trips " + tag)
            A = Exp_SO3(psi)
            F.cmp("Exp_SO3: R^T R = I", A.T @ A, I3, TOL_MAP, data, "Exp_orth")
            F.cmp("Exp_SO3: det R = 1", np.linalg.det(A), 1.0, TOL_MAP, data, "Exp_det")
            F.cmp("Exp_SO3 vs mpmath Exp", A, rr.to_np(rr.Exp(psi)), TOL_MAP, data, "Exp_ref")
            F.cmp("Log_SO3(Exp_SO3(psi)) vs psi", Log_SO3(A), psi, TOL_SO3, data, "LogExp_" + tag)
            _matrix_checks(A, data, F, seed)
            for r in rs:
                h = np.concatenate([r, psi])
                sc = max(1.0, float(np.max(np.abs(r))))
                dr = dict(data, r=r.tolist())
                H = Exp_SE3(h)
                Hm = rr.to_np(rr.ExpSE3(h))
                F.cmp("Exp_SE3: H in SE(3)", np.concatenate([(H[:3, :3].T @ H[:3, :3] - I3).ravel(), H[3] - np.array([0, 0, 0, 1.0]), [np.linalg.det(H[:3, :3]) - 1]]), np.zeros(14), TOL_MAP, dr, "ExpSE3_struct")
                F.cmp("Exp_SE3 vs mpmath Exp_SE3", H, Hm, tolM * sc, dr, "ExpSE3_ref")
                F.cmp("Log_SE3(Exp_SE3(h)) vs h", Log_SE3(H), h, TOL_RT * sc, dr, "LogExpSE3_" + tag)
        nontrivial = True
    elif kind == "compose":
        D = directions(seed, case.get("tier", "quick"))
        d = D[case["dir"]]
        d = d / np.sqrt(d @ d)
        n = 0
        over = under = 0
        for a in (1e-3, 0.1, 0.3, 0.5, 1.0, 1.3, 2.0, 2.5, 3.0, PI - 1e-3):
            A1 = Exp_SO3(a * d)
            Ah = Exp_SO3(0.5 * a * d)
            letters = [("R^T R", A1.T @ A1, PI), ("R R^T", A1 @ A1.T, PI), ("Exp(psi) Exp(-psi)", A1 @ Exp_SO3(-a * d), PI),
                       ("Exp(psi/2)^2 Exp(psi)^T", Ah @ Ah @ A1.T, PI),
                       ("Exp(a n) Exp((pi-a) n)", A1 @ Exp_SO3((PI - a) * d), 0.0), ("Exp((pi-a) n) Exp(a n)", Exp_SO3((PI - a) * d) @ A1, 0.0),
                       ("2 n n^T - I", 2 * np.outer(d, d) - I3, 0.0)]
            for nm, A, dist in letters:
                tr = float(np.trace(A))
                over += tr > 3.0
                under += tr < -1.0
                data = {"compose": nm, "a": a, "dir": d.tolist(), "dist_to_pi": dist, "psi_norm": PI - dist, "trace_minus_3": tr - 3.0, "trace_plus_1": tr + 1.0}
                psi = Log_SO3(A)
                F.cmp("Log_SO3 of a product of rotations is finite", np.isfinite(psi).all(), True, 0, data, "compose_finite")
                if dist > 1:
                    F.cmp("Log_SO3 of a product equal to the identity up to rounding vs 0", psi, np.zeros(3), 1e-12, data, "compose_id")
                else:
                    F.cmp("|Log_SO3| of a product equal to a half turn up to rounding vs pi", np.sqrt(psi @ psi), PI, TOL_SO3, data, "compose_pi")
                _matrix_checks(A, data, F, seed)
                n += 1
        F.stats["n_trace_above_3"] = over
        F.stats["n_trace_below_minus_1"] = under
        outcome = ["composed near identity / half turn" + ("; trace>3 seen" if over else "") + ("; trace<-1 seen" if under else "")]
        nontrivial = n > 0
    elif kind in ("quatA", "perm"):
        n = 0
        if kind == "quatA":
            p0 = case["p0"]
            letters = []
            for p2, p3 in itertools.product(range(-2, 3), repeat=2):
                P = np.array([p0, case["p1"], p2, p3], float)
                if not P.any():
                    continue
                n2 = float(P @ P)
                a, b, c, dd = P
                # exact integer numerators, one rounding (the division) per entry
                N = np.array([
                    [a * a + b * b - c * c - dd * dd, 2 * (b * c - a * dd), 2 * (b * dd + a * c)],
                    [2 * (b * c + a * dd), a * a - b * b + c * c - dd * dd, 2 * (c * dd - a * b)],
                    [2 * (b * dd - a * c), 2 * (c * dd + a * b), a * a - b * b - c * c + dd * dd]])
                A = N / n2
                angle = 2 * math.atan2(math.sqrt(b * b + c * c + dd * dd), abs(a))
                letters.append((A, {"P": P.tolist(), "dist_to_pi": PI - angle, "psi_norm": angle, "half_turn": bool(a == 0)}))
        else:
            letters = []
            for perm in itertools.permutations(range(3)):
                for sg in itertools.product((1, -1), repeat=3):
                    A = np.zeros((3, 3))
                    for i in range(3):
                        A[i, perm[i]] = sg[i]
                    if round(np.linalg.det(A)) != 1:
                        continue
                    ang = math.acos(max(-1.0, min(1.0, (np.trace(A) - 1) / 2)))
                    letters.append((A, {"perm": list(perm), "signs": list(sg), "dist_to_pi": PI - ang, "psi_norm": ang, "half_turn": bool(np.trace(A) == -1)}))
        for A, data in letters:
            _matrix_checks(A, data, F, seed)
            n += 1
            outcome.append("half turn" if data["half_turn"] else ("near half turn" if data["dist_to_pi"] <= 2e-5 else "regular rotation"))
        outcome = sorted(set(outcome))
        nontrivial = n > 0
    else:
        raise ValueError(kind)
    return {"fails": F.list(), "nontrivial": nontrivial, "evals": F.n, "outcome": outcome, "stats": F.stats}
