"""C17  Integrators keep bilateral constraints and unit quaternions at every step.

E1 over executions: the full product  mechanisms x force set x initial state x solver x step size  is
executed on the real solvers; EVERY stored step of every execution is a checked state.  All residuals
are recomputed by the harness from the stored rows (t, q, u, u_dot, la_g) with the System's own
g / g_dot / g_ddot / q_dot / M / h / W_g (no source hooks).
"""
import numpy as np

ID = "C17"
LEVEL = "model_checking"
SCENARIOS = ["pm_pend", "rb_pend", "cyl", "driven_pend", "driven_pend_rest", "rigid_pair", "double_pend", "slider_crank"]
SOLVERS = ["Rattle", "BackwardEuler", "Moreau", "DSV_LU", "DSV_LU_varM", "DSV_default", "DSV_LU_plain", "ScipyDAE", "ScipyIVP"]
DTS = {"quick": [1e-3, 1e-2, 1e-1], "thorough": [1e-3, 3e-3, 1e-2, 3e-2, 1e-1]}
NSTEPS = {"quick": 20, "thorough": 100}
RULE = (
    "mechanisms (7: point-mass pendulum/FixedDistance, rigid-body pendulum/Revolute, Cylindrical body, pendulum on a moving+rotating frame "
    "(rheonomic Revolute), two welded bodies/RigidConnection, double pendulum/Spherical+Revolute, closed slider-crank loop/"
    "Revolute+Spherical+Prismatic+Spherical; joint frames and body orientations in general position) x forces {gravity, gravity+force-form "
    "spring} x initial state {rest, generic consistent velocity (seed rotates the letter)} x solvers (Rattle, BackwardEuler, Moreau, "
    "DualStormerVerlet LU / LU with constant_mass_matrix=False / default matrix-free MINRES, ScipyDAE, ScipyIVP) x dt (3 quick / 5 thorough, "
    "two decades) ; horizon 20 / 100 steps; one case = one execution, every stored row is a checked state; a case is non-trivial if the "
    "execution completed, the system has bilateral constraints and the configuration moved"
)
ASSUMPTIONS = [
    "a run whose accepted states had already exploded (max |q|,|u| > 1e12: unstable step size for that scheme) and which then aborts with a linear-algebra error is a loud abort without returned rows (outcome 'exploded-then-raised'), not a crash",
    "solver tolerances are tightened by the harness (newton/fixed-point atol=rtol=1e-11, DualStormerVerlet 1e-10; ScipyDAE rtol=1e-6, atol=1e-8; ScipyIVP rtol=1e-9, "
    "atol=1e-11) so that 'within solver tolerance' is sharp: |g| <= 1e-8, |g_dot| <= 1e-9 (measured noise <= 5e-11 resp. 1e-14)",
    "ScipyDAE 'order of its requested tolerance' is read as K_DAE * (atol + rtol * max(1, |q|_inf, |u|_inf)) at every output row and 'without drift' "
    "as: max over the second half of the rows <= 10 x max over the first half + 10 x that tolerance scale",
    "Moreau's midpoint is recomputed as q_n + dt/2 * q_dot(t_n, q_n, u_n) from the stored (normalised) rows, time t_n + dt/2, velocity u_{n+1}",
    "an execution in which the solver gives up (Newton / fixed point not converged at the tightened tolerance) is counted as aborted, its stored "
    "rows are still checked, it is not a violation of this property",
    "System.g_dot is affine in u with linear part W_g^T (property C05) - the harness evaluates g_dot itself and does not rely on it otherwise",
    "unit length is demanded of the fixed-step solvers (they call step_callback on every stored row); ScipyIVP/ScipyDAE rows are dense-output "
    "interpolants, their quaternion norm defect is reported as a statistic only",
]
MIN_NONTRIVIAL = 100
MIN_OUTCOMES = 6
CASE_TIMEOUT = 900

SOLVER_TOL = 1e-11
DSV_TOL = 1e-10  # DualStormerVerlet scales the percussion tolerance by dt/2: at 1e-11 and dt=1e-3 its iteration stalls on round-off
TOL_G = 1e-8
TOL_GDOT = 1e-9
TOL_MID = 1e-9
TOL_QUAT = 1e-12
DAE_TOL = (1e-6, 1e-8)
IVP_TOL = (1e-9, 1e-11)
K_DAE = 100.0
TOL_IVP = 1e-9  # relative to max(1, force scale)

POSITION_LEVEL = {"Rattle", "BackwardEuler", "DSV_LU", "DSV_LU_varM", "DSV_default", "DSV_LU_plain"}
FIXED_STEP = POSITION_LEVEL | {"Moreau"}


def cases(tier, seed):
    out = []
    for scen in SCENARIOS:
        for level in (0, 1):
            for spring in (False, True):
                for solver in SOLVERS:
                    for dt in DTS[tier]:
                        out.append({"scen": scen, "spring": spring, "level": level, "solver": solver, "dt": dt, "N": NSTEPS[tier], "seed": seed})
                # the ODE wrapper on a system assembled WITHOUT the consistent-initial-condition solve (public option; the system then
                # stores zeros as initial accelerations / multipliers, the wrapper must still report consistent ones; seeded C17-i)
                if "ScipyIVP" in SOLVERS:
                    out.append({"scen": scen, "spring": spring, "level": level, "solver": "ScipyIVP", "dt": DTS[tier][0], "N": NSTEPS[tier], "seed": seed, "no_cic": True})
    return out


def _absmax(x):
    x = np.asarray(x, float)
    return float(np.max(np.abs(x))) if x.size else 0.0


def _is_giveup(e):
    s = str(e).lower()
    return isinstance(e, (RuntimeError, ValueError)) and ("converge" in s)


def check(case):
    from vp.scen import integ

    scen, spring, level, solver, dt, N = case["scen"], case["spring"], case["level"], case["solver"], case["dt"], case["N"]
    letters = {"scen": scen, "spring": spring, "level": level, "solver": solver, "dt": dt}
    tol = DSV_TOL if solver.startswith("DSV") else SOLVER_TOL
    bopts = integ.options(tol)
    if case.get("no_cic"):
        import dataclasses

        bopts = dataclasses.replace(bopts, compute_consistent_initial_conditions=False)
    system = integ.build(scen, spring, level, seed=case.get("seed", 0), opts=bopts)
    outcome = []
    # magnitude of the accepted states (to tell a loud abort of a numerically exploded run from a crash)
    mag = {"max": 0.0}
    _orig_cb = system.step_callback

    def _cb(t_, q_, u_):
        m = max(_absmax(q_), _absmax(u_))
        mag["max"] = m if np.isfinite(m) else float("inf")
        return _orig_cb(t_, q_, u_)

    system.step_callback = _cb
    try:
        sol = integ.run(system, solver, dt, N, opts=integ.options(tol), dae_tol=DAE_TOL, ivp_tol=IVP_TOL)
    except Exception as e:  # noqa: BLE001
        if mag["max"] > 1e12 and isinstance(e, (RuntimeError, ValueError, FloatingPointError, ArithmeticError, np.linalg.LinAlgError)):
            # the integration had already exploded (unstable step size for this scheme): the error is a loud abort, no row is returned
            return {"fails": [], "nontrivial": False, "evals": 0, "states": 0, "transitions": 0, "outcome": f"{solver}:exploded-then-raised",
                    "stats": {"n_exploded_then_raised": 1}}
        if _is_giveup(e):
            return {"fails": [], "nontrivial": False, "evals": 0, "states": 0, "transitions": 0, "outcome": f"{solver}:gave-up",
                    "stats": {"n_gave_up": 1}}
        raise
    t, q, u = np.asarray(sol.t, float), np.asarray(sol.q, float), np.asarray(sol.u, float)
    n = len(t)
    fails = []
    stats = {}

    def fail(site, msg, **data):
        fails.append({"site": site, "msg": f"{letters}: {msg}", "data": dict(letters, **data)})

    def worst(name, vals, tol, site, what):
        """vals: per-row residuals; one fail per site with the first and the worst offending row"""
        vals = np.asarray(vals, float)
        if vals.size == 0:
            return
        m = float(np.max(vals)) if np.all(np.isfinite(vals)) else float("inf")
        stats[name] = max(stats.get(name, 0.0), m)
        bad = np.where(~(vals <= tol))[0]
        if bad.size:
            k = int(bad[0])
            fail(site, f"{what}: {bad.size} of {vals.size} rows above {tol:g}; first at row {k} ({vals[k]:.3e}), worst {m:.3e}",
                 first_row=k, rows_failing=int(bad.size), worst=m)

    if n < N + 1:
        outcome.append(f"{solver}:short")
        stats["n_short"] = 1
    # ---------------------------------------------------------------------------------------------
    # recomputed residuals on every stored row
    # ---------------------------------------------------------------------------------------------
    g = np.array([_absmax(system.g(t[k], q[k])) for k in range(n)])
    gd = np.array([_absmax(system.g_dot(t[k], q[k], u[k])) for k in range(n)])
    evals = 2 * n
    tag = solver.split("_")[0]
    if solver in POSITION_LEVEL:
        worst(f"max_g_{tag}", g, TOL_G, f"{solver} stored row vs g(t_k, q_k) = 0", "position-level constraint residual")
    if solver == "Rattle":
        worst("max_gdot_Rattle", gd, TOL_GDOT, "Rattle stored row vs g_dot(t_k, q_k, u_k) = 0", "velocity-level constraint residual")
    if solver == "Moreau":
        mid = []
        for k in range(n - 1):
            qm = q[k] + 0.5 * dt * np.asarray(system.q_dot(t[k], q[k], u[k]), float)
            mid.append(_absmax(system.g_dot(t[k] + 0.5 * dt, qm, u[k + 1])))
        evals += n - 1
        worst("max_gmid_Moreau", mid, TOL_MID, "Moreau step vs g_dot(t_n + dt/2, q_n + dt/2 q_dot_n, u_n+1) = 0", "midpoint velocity-level constraint residual")
    if solver in FIXED_STEP:
        sl = integ.quat_slices(system)
        if sl:
            qn = np.array([max(abs(float(np.linalg.norm(q[k][s])) - 1.0) for s in sl) for k in range(n)])
            worst("max_quat_fixed_step", qn, TOL_QUAT, f"{solver} stored row vs |p| = 1", "quaternion norm defect")
    else:
        sl = integ.quat_slices(system)
        if sl:
            stats["max_quat_scipy_diagnostic"] = max(abs(float(np.linalg.norm(q[k][s])) - 1.0) for s in sl for k in range(n))
    if solver == "ScipyDAE":
        rtol, atol = DAE_TOL
        scale = np.array([atol + rtol * max(1.0, _absmax(q[k]), _absmax(u[k])) for k in range(n)])
        rg, rgd = g / scale, gd / scale
        worst("max_dae_g_over_tol", rg, K_DAE, "ScipyDAE stored row vs |g| of the order of the requested tolerance", "|g| / (atol + rtol*scale)")
        worst("max_dae_gdot_over_tol", rgd, K_DAE, "ScipyDAE stored row vs |g_dot| of the order of the requested tolerance", "|g_dot| / (atol + rtol*scale)")
        if n >= 8:
            h = n // 2
            for nm, r in (("g", rg), ("g_dot", rgd)):
                a, b = float(np.max(r[:h])), float(np.max(r[h:]))
                stats[f"max_dae_{nm}_drift_excess"] = max(stats.get(f"max_dae_{nm}_drift_excess", 0.0), b / (10.0 * a + 10.0))
                if not b <= 10.0 * a + 10.0:
                    fail(f"ScipyDAE {nm} drifts: second half of the run vs first half", f"max |{nm}|/tol first half {a:.3e}, second half {b:.3e}", first_half=a, second_half=b)
    if solver == "ScipyIVP":
        u_dot, la_g = np.asarray(sol.u_dot, float), np.asarray(sol.la_g, float)
        la_c = np.asarray(sol.la_c, float) if getattr(sol, "la_c", None) is not None else np.zeros((n, 0))
        eom, gdd = [], []
        for k in range(n):
            M = system.M(t[k], q[k]).toarray()
            h = np.asarray(system.h(t[k], q[k], u[k]), float)
            Wla = system.W_g(t[k], q[k]).toarray() @ la_g[k]
            rhs = h + Wla
            if system.nla_c:
                rhs = rhs + system.W_c(t[k], q[k]).toarray() @ la_c[k]
            if system.nla_tau:
                rhs = rhs + system.W_tau(t[k], q[k]).toarray() @ np.asarray(system.la_tau(t[k], q[k], u[k]), float)
            sc = max(1.0, _absmax(h), _absmax(Wla))
            eom.append(_absmax(M @ u_dot[k] - rhs) / sc)
            gdd.append(_absmax(system.g_ddot(t[k], q[k], u[k], u_dot[k])) / sc)
        evals += 2 * n
        worst("max_ivp_eom_rel", eom, TOL_IVP, "ScipyIVP reported u_dot, la_g vs M u_dot = h + W_g la_g", "relative residual of the equations of motion")
        worst("max_ivp_gddot_rel", gdd, TOL_IVP, "ScipyIVP reported u_dot vs g_ddot(t, q, u, u_dot) = 0", "relative acceleration-level constraint residual")
    moved = n > 1 and _absmax(q[-1] - q[0]) > 1e-9
    complete = n == N + 1
    if not outcome:
        outcome.append(f"{solver}:{'ok' if not fails else 'violates'}")
    return {"fails": fails, "nontrivial": bool(complete and moved and system.nla_g > 0), "evals": evals, "states": n, "transitions": max(n - 1, 0),
            "outcome": outcome, "stats": stats}


def extra_coverage(results, tier, seed):
    done, total = {}, {}
    for r in results:
        for oc in (r.get("outcome") or []) if isinstance(r.get("outcome"), list) else [r.get("outcome")]:
            if not oc or ":" not in oc:
                continue
            s, what = oc.split(":", 1)
            total[s] = total.get(s, 0) + 1
            if what != "gave-up":
                done[s] = done.get(s, 0) + 1
    # vacuity guard per solver: a solver whose executions mostly give up has not been checked at all
    vac = [s for s in SOLVERS if done.get(s, 0) < 0.6 * max(total.get(s, 0), 1)]
    if vac and not any(r.get("fails") for r in results):  # must not mask violations that were found (exit 1 wins over exit 2)
        raise RuntimeError(f"vacuous: solvers {vac} completed fewer than 60% of their executions: {done} of {total}")
    return {"horizon_steps": NSTEPS[tier], "step_sizes": DTS[tier], "solver_tolerance": SOLVER_TOL, "dsv_tolerance": DSV_TOL,
            "executions_completed_per_solver": done, "executions_per_solver": total,
            "tolerances": {"g": TOL_G, "g_dot": TOL_GDOT, "moreau_midpoint": TOL_MID, "quaternion": TOL_QUAT, "dae_factor": K_DAE, "ivp_relative": TOL_IVP}}
