"""C27  Contact proximal maps are exact projections.

Engine E1.  Complete products of small vector alphabets (lattice {-1,0,1}^n x decades, generic and
mixed-scale letters), radius scalings z (incl. z <= 0, scalar and length-1 array), friction
coefficients and rho.  The real prox maps are called once per letter; feasibility, idempotence,
non-expansiveness (all pairs) and the projection inequality (all letters x all feasible test points)
are then evaluated on the complete tables.  The ball's implicit residual is differentiated by 5-point
stencils (active set recomputed at every stencil point) away from the active-set boundary.
"""
import itertools
import numpy as np

from vp.core import fd
from vp.core.alphabet import weyl
import cardillo.math.prox  # noqa: F401,E402  (imported before any case timer is armed)

ID = "C27"
LEVEL = "model_checking"
RULE = (
    "one case per (map, n in 1..4, r in {0,.3,1}, z in {-1,0,1e-12,1,1e6} as scalar and as length-1 array): all "
    "vectors x of the alphabet {-1,0,1}^n x {1e-12,1e-6,1,1e6} + 9 generic + mixed-scale + beyond-the-largest-radius letters, ALL pairs (x,x') "
    "for non-expansiveness, ALL (x, feasible c) for the projection inequality; Jacobian cases per (n, r, rho in "
    "{1e-3,1,1e3}, z in {-1,.5,2,100}) over x-letters x y-letters whose relative distance to the active-set boundary "
    "is > 5%; prox-parameter cases per (n, M kind) over columns 0..n x W kind x alpha x container types.  "
    "A projection case is non-trivial if at least one letter is projected and one is interior (or the set is "
    "degenerate and every letter must map to 0); a Jacobian case if >= 10 points were compared"
)
ASSUMPTIONS = [
    "Euclidean projection characterised by feasibility + (x-y).(c-y) <= 0 for all feasible c (variational inequality)",
    "rounding allowances: 1e-14 relative to the natural scale of each quantity (a computed projection is exact up to ~4 ulp)",
    "orthant map is exact in floating point, so its checks use zero tolerance",
    "Jacobian oracle: 5-point stencils with steps 1e-3*max(|rho x - y|, radius) (scaled by 1/rho for x), active set "
    "recomputed at every stencil point; points within 5% (relative) of the active-set boundary, and z = 0 with r > 0 "
    "(kink of max(0, r z)) are outside the alphabet",
    "the implicit residual evaluated with its own active set must be finite at every letter, boundary included "
    "(|rho x - y| = radius = 0 has to be classified as stick)",
    "quick and thorough tier enumerate the same space (the whole check costs < 2 CPU-minutes)",
    "estimate_prox_parameter: documented formula alpha / diag(W^T M^-1 W) evaluated densely is the reference",
]
MIN_NONTRIVIAL = 60
DECADES = [1e-12, 1e-6, 1.0, 1e6]
EPS = 1e-14


def vectors(n, seed):
    L = [np.zeros(n)]
    for v in itertools.product((-1.0, 0.0, 1.0), repeat=n):
        if any(v):
            for d in DECADES:
                L.append(d * np.array(v))
    for k in range(3):
        g = weyl(seed, 70 + k, n)
        for d in (1e-6, 1.0, 1e6):
            L.append(d * g)
    for i in range(n):  # letters beyond the largest radius of the alphabet (1e6)
        e = np.zeros(n)
        e[i] = 3e6
        L += [e, -e]
    L.append(1e9 * np.ones(n))
    sc = np.array([1e6, 1e-6, 1.0, 1e-12])[:n]
    for v in (np.ones(n), np.array([(-1.0) ** i for i in range(n)]), weyl(seed, 75, n)):
        L.append(v * sc)
        L.append(v * sc[::-1])
        L.append(-v * sc)
    return L


def cases(tier, seed):
    out = []
    for n in (1, 2, 3, 4):
        out.append({"kind": "orthant", "n": n, "seed": seed})
    for n, r, z, zt in itertools.product((1, 2, 3, 4), (0.0, 0.3, 1.0), (-1.0, 0.0, 1e-12, 1.0, 1e6), ("scalar", "array")):
        out.append({"kind": "ball", "n": n, "r": r, "z": z, "ztype": zt, "seed": seed})
    for n, r, rho, z in itertools.product((1, 2, 3, 4), (0.0, 0.3, 1.0), (1e-3, 1.0, 1e3), (-1.0, 0.5, 2.0, 100.0)):
        out.append({"kind": "jacobian", "n": n, "r": r, "rho": rho, "z": z, "seed": seed, "tier": tier})
    for n, mk in itertools.product((1, 2, 3, 4), ("diag", "spd", "spd_scaled")):
        out.append({"kind": "estimate", "n": n, "M": mk, "seed": seed})
    return out


def _norms(A):
    return np.sqrt(np.sum(A * A, axis=1))


def _table_checks(fails, name, X, Y, C, exact):
    """X letters, Y = prox(X) (rows), C feasible test points.  returns evals"""
    nX = _norms(X)
    nY = _norms(Y)
    # non-expansive, all pairs
    DX = np.sqrt(np.sum((X[:, None, :] - X[None, :, :]) ** 2, axis=2))
    DY = np.sqrt(np.sum((Y[:, None, :] - Y[None, :, :]) ** 2, axis=2))
    if exact:
        slack = DX * 1e-13
    else:
        slack = DX * 1e-13 + EPS * (nY[:, None] + nY[None, :])
    bad = DY > DX + slack
    if np.any(bad):
        i, j = np.argwhere(bad)[0]
        fails.append({"site": f"{name} non-expansive", "msg": f"|prox x - prox x'| = {DY[i,j]:.17g} > |x - x'| = {DX[i,j]:.17g}",
                      "data": {"x": X[i], "x2": X[j], "y": Y[i], "y2": Y[j], "n_pairs_failing": int(bad.sum())}})
    # projection inequality, all letters x all feasible test points
    XmY = X - Y
    S = np.einsum("ik,ijk->ij", XmY, C[None, :, :] - Y[:, None, :])
    nC = _norms(C)
    if exact:
        tol = np.zeros_like(S)
    else:
        tol = EPS * (nX + nY)[:, None] * (nC[None, :] + nY[:, None])
    bad = S > tol
    if np.any(bad):
        i, j = np.argwhere(bad)[0]
        fails.append({"site": f"{name} projection inequality", "msg": f"(x-y).(c-y) = {S[i,j]:.6g} > {tol[i,j]:.3g}",
                      "data": {"x": X[i], "y": Y[i], "c": C[j], "n_failing": int(bad.sum())}})
    return X.shape[0] ** 2 + S.size


def _check_orthant(case):
    from cardillo.math.prox import NegativeOrthant

    n, seed = case["n"], case["seed"]
    V = vectors(n, seed)
    fails = []
    X = np.array(V)
    Y = np.array([np.asarray(NegativeOrthant.prox(x.copy()), float) for x in V])
    evals = len(V)
    oc = set()
    if Y.shape != X.shape:
        return {"fails": [{"site": "NegativeOrthant.prox shape", "msg": f"{Y.shape}", "data": {}}], "nontrivial": True, "evals": evals}
    # also as one call on a matrix-shaped / whole-table input (the solvers pass stacked multipliers)
    Yall = np.asarray(NegativeOrthant.prox(X.ravel().copy()), float).reshape(X.shape)
    if not np.array_equal(Yall, Y):
        fails.append({"site": "NegativeOrthant.prox stacked input", "msg": "stacked evaluation differs from letter-wise evaluation", "data": {}})
    bad = np.argwhere(~(Y <= 0))
    if len(bad):
        fails.append({"site": "NegativeOrthant.prox feasible", "msg": "component > 0 (or nan)", "data": {"x": X[bad[0][0]], "y": Y[bad[0][0]]}})
    for x, y in zip(V, Y):
        y2 = np.asarray(NegativeOrthant.prox(y.copy()), float)
        evals += 1
        if not np.array_equal(y2, y):
            fails.append({"site": "NegativeOrthant.prox idempotent", "msg": "prox(prox x) != prox x", "data": {"x": x, "y": y, "y2": y2}})
            break
    for x, y in zip(X, Y):
        oc.add("interior" if np.array_equal(x, y) else "projected")
    C = -np.abs(X)
    evals += _table_checks(fails, "NegativeOrthant.prox", X, Y, C, exact=True)
    return {"fails": fails, "nontrivial": len(oc) == 2, "evals": evals, "outcome": sorted(oc),
            "stats": {"n_vectors": len(V), "n_pairs": len(V) ** 2}}


def _check_ball(case):
    from cardillo.math.prox import Sphere

    n, r, z, seed = case["n"], case["r"], case["z"], case["seed"]
    zarg = z if case["ztype"] == "scalar" else np.array([z])
    S = Sphere(r)
    radius = max(0.0, r * z)
    V = vectors(n, seed)
    X = np.array(V)
    fails = []
    Ys = []
    evals = 0
    for x in V:
        y = np.asarray(S.prox(x.copy(), zarg), float)
        evals += 1
        if y.shape != (n,) or not np.all(np.isfinite(y)):
            fails.append({"site": "Sphere.prox output", "msg": f"shape {y.shape} / non-finite", "data": {"x": x, "y": y}})
            return {"fails": fails, "nontrivial": True, "evals": evals}
        Ys.append(y)
    Y = np.array(Ys)
    nY = _norms(Y)
    nX = _norms(X)
    oc = set()
    # feasible
    bad = np.argwhere(nY > radius * (1 + EPS))
    if len(bad):
        i = bad[0][0]
        fails.append({"site": "Sphere.prox feasible", "msg": f"|y| = {nY[i]:.17g} > radius = {radius:.17g}", "data": {"x": X[i], "y": Y[i], "radius": radius}})
    if radius <= 0:
        oc.add("degenerate")
        bad = np.argwhere(np.any(Y != 0, axis=1))
        if len(bad):
            i = bad[0][0]
            fails.append({"site": "Sphere.prox degenerate ball", "msg": "radius <= 0 but y != 0", "data": {"x": X[i], "y": Y[i], "r": r, "z": z}})
    # classification + interior points must be returned unchanged
    for i in range(len(V)):
        if nX[i] <= radius * (1 - EPS):
            oc.add("interior")
            if not np.array_equal(Y[i], X[i]):
                fails.append({"site": "Sphere.prox interior point", "msg": "interior point is moved", "data": {"x": X[i], "y": Y[i], "radius": radius}})
                break
        elif nX[i] > radius * (1 + EPS) and radius > 0:
            oc.add("projected")
    # idempotent
    for x, y in zip(V, Y):
        y2 = np.asarray(S.prox(y.copy(), zarg), float)
        evals += 1
        if not np.max(np.abs(y2 - y), initial=0.0) <= 4 * EPS * max(np.linalg.norm(y), 0.0):
            fails.append({"site": "Sphere.prox idempotent", "msg": "prox(prox x) != prox x", "data": {"x": x, "y": y, "y2": y2}})
            break
    # feasible test points: letters inside the ball, own radial projections of all letters, the origin
    C = [np.zeros(n)]
    for x, nx in zip(V, nX):
        if nx <= radius:
            C.append(x)
        elif radius > 0:
            C.append(x * (radius / nx) * (1 - 1e-15))
            C.append(x * (0.5 * radius / nx))
    C = np.array(C)
    evals += _table_checks(fails, "Sphere.prox", X, Y, C, exact=False)
    nontrivial = ("degenerate" in oc) or ({"interior", "projected"} <= oc)
    return {"fails": fails, "nontrivial": nontrivial, "evals": evals, "outcome": sorted(oc),
            "stats": {"n_vectors": len(V), "n_pairs": len(V) ** 2, "n_testpoints": len(C)}}


def _jac_letters(n, seed):
    xs = [np.array(v, float) for v in itertools.product((-1.0, 0.0, 1.0), repeat=n)]
    for i in range(n):
        for s in (0.01, -100.0):
            e = np.zeros(n)
            e[i] = s
            xs.append(e)
    xs += [weyl(seed, 80, n), 3.0 * weyl(seed, 81, n), 0.02 * weyl(seed, 82, n)]
    ys = [np.zeros(n)]
    for i in range(n):
        for s in (0.1, -1.0):
            e = np.zeros(n)
            e[i] = s
            ys.append(e)
    ys += [np.ones(n) * 0.5, weyl(seed, 83, n), 2.0 * weyl(seed, 84, n), 0.01 * weyl(seed, 85, n)]
    return xs, ys


def _check_jacobian(case):
    from cardillo.math.prox import Sphere

    n, r, rho, z, seed = case["n"], case["r"], case["rho"], case["z"], case["seed"]
    S = Sphere(r)
    zv = np.array([z])
    xs, ys = _jac_letters(n, seed)
    fails = {}
    evals = 0
    compared = 0
    stats = {"n_near_boundary_excluded": 0, "n_illcond": 0, "max_err_Jx": 0.0, "max_err_Jy": 0.0, "max_err_Jz": 0.0, "max_est_fd": 0.0}
    oc = set()
    R = max(0.0, r * z)
    rz = "neg" if r * z < 0 else ("zero" if r * z == 0 else "pos")

    def F(x, y, zz):
        return np.asarray(S.residual(x, y, zz, rho, S.active_set(x, y, zz, rho)), float).reshape(n)

    for x, y in itertools.product(xs, ys):
        a = float(np.linalg.norm(rho * x - y))
        m = max(a, R)
        # the implicit residual is defined at every letter, also on the boundary (a = R = 0 must be 'stick',
        # the slip branch divides by |rho x - y|)
        evals += 1
        if not np.all(np.isfinite(F(x, y, zv))):
            fails.setdefault("finite", {"site": "Sphere.residual finite with its own active set", "msg": "non-finite residual",
                                        "data": {"x": x, "y": y, "z": z, "rho": rho, "r": r, "a": a, "radius": R}})
        if abs(a - R) <= 0.05 * m:
            stats["n_near_boundary_excluded"] += 1
            continue
        act = bool(S.active_set(x, y, zv, rho))
        if act != (a <= R):
            fails.setdefault("Sphere.active_set", {"site": "Sphere.active_set vs |rho x - y| <= max(0, r z)", "msg": f"active_set = {act}",
                                                    "data": {"x": x, "y": y, "z": z, "rho": rho, "r": r}})
        oc.add("stick" if act else "slip")
        Jx, Jy, Jz = S.Jacobian(x, y, zv, rho, act)
        hx, hy, hz = 1e-3 * m / rho, 1e-3 * m, 1e-3 * abs(z)
        refs = [("Jx", Jx, lambda: fd.jac(lambda v: F(v, y, zv), x, h=hx), "d/dx residual"),
                ("Jy", Jy, lambda: fd.jac(lambda v: F(x, v, zv), y, h=hy), "d/dy residual"),
                ("Jz", Jz, lambda: fd.jac(lambda v: F(x, y, v), zv, h=hz), "d/dz residual")]
        for nm, J, ref, orc in refs:
            D, est = ref()
            evals += 1
            v, e, thr = fd.verdict(J, D, est)
            if v == "illcond":
                stats["n_illcond"] += 1
                continue
            compared += 1
            stats["max_est_fd"] = max(stats["max_est_fd"], est)
            if v == "ok":
                stats["max_err_" + nm] = max(stats["max_err_" + nm], e)
                continue
            key = (nm, act)
            if key not in fails:
                fails[key] = {"site": f"Sphere.Jacobian {nm} vs {orc}", "msg": f"error {e:.3e} > {thr:.1e}; reported {np.ravel(fd.dense(J))[:4]}, stencil {np.ravel(D)[:4]}",
                              "data": {"x": x, "y": y, "z": z, "rho": rho, "r": r, "active": act, "rz_sign": rz, "err": e, "n_points_failing": 0}}
            fails[key]["data"]["n_points_failing"] += 1
    # one force-reservoir object used for several contact points: what an evaluation at letter a leaves behind must not enter
    # the evaluations at letter b (phase-wise use: all active sets first, then residuals, then Jacobians; seeded C27-l)
    pts = [(x, y) for x, y in itertools.product(xs, ys)]
    shared = Sphere(r)
    for (xa, ya), (xb, yb) in zip(pts, pts[1:] + pts[:1]):
        fresh = Sphere(r)
        act_b = fresh.active_set(xb, yb, zv, rho)
        ref_res = np.asarray(fresh.residual(xb, yb, zv, rho, act_b), float)
        ref_jac = [fd.dense(J) for J in Sphere(r).Jacobian(xb, yb, zv, rho, act_b)]
        shared.active_set(xa, ya, zv, rho)
        got_res = np.asarray(shared.residual(xb, yb, zv, rho, act_b), float)
        got_jac = [fd.dense(J) for J in shared.Jacobian(xb, yb, zv, rho, act_b)]
        evals += 2
        same = got_res.shape == ref_res.shape and np.array_equal(np.nan_to_num(got_res, nan=7e77), np.nan_to_num(ref_res, nan=7e77)) and all(
            a_.shape == b_.shape and np.array_equal(np.nan_to_num(a_, nan=7e77), np.nan_to_num(b_, nan=7e77)) for a_, b_ in zip(got_jac, ref_jac))
        if not same and "shared" not in fails:
            fails["shared"] = {"site": "Sphere.residual / Jacobian of a shared object after active_set at another point vs fresh object",
                               "msg": f"differs at x={xb}, y={yb} after active_set at x={xa}, y={ya}", "data": {"xa": xa, "ya": ya, "xb": xb, "yb": yb, "z": z, "rho": rho, "r": r}}
    return {"fails": list(fails.values()), "nontrivial": compared >= 10, "evals": evals, "outcome": sorted(oc), "stats": stats}


def _check_estimate(case):
    from cardillo.math.prox import estimate_prox_parameter
    from scipy.sparse import csc_array, coo_array

    n, mk, seed = case["n"], case["M"], case["seed"]
    d = 0.5 + np.abs(weyl(seed, 90, n)) * 2.0
    if mk == "diag":
        M = np.diag(d)
    else:
        G = weyl(seed, 91, n * n).reshape(n, n)
        M = np.diag(d) + 0.3 * G @ G.T
        if mk == "spd_scaled":
            sc = np.array([1e-3, 1.0, 1e3, 10.0])[:n]
            M = sc[:, None] * M * sc[None, :]
    assert np.all(np.linalg.eigvalsh(M) > 0)
    fails = []
    evals = 0
    nt = 0
    stats = {"max_err_estimate_rel": 0.0, "min_estimate": 1e300}
    for cols, wk, alpha in itertools.product(range(0, n + 1), ("unit", "generic"), (0.5, 1.0, 1.9)):
        if wk == "unit":
            W = np.eye(n)[:, :cols][:, ::-1].copy()
        else:
            W = np.eye(n)[:, :cols] + 0.3 * weyl(seed, 92 + cols, n * cols).reshape(n, cols)
        if cols:
            assert np.linalg.matrix_rank(W) == cols
        ref = alpha / np.diag(W.T @ np.linalg.solve(M, W)) if cols else np.zeros(0)
        for wt, mt in itertools.product(("ndarray", "csc"), ("ndarray", "coo", "csc")):
            Wa = W.copy() if wt == "ndarray" else csc_array(W)
            Ma = M.copy() if mt == "ndarray" else (coo_array(M) if mt == "coo" else csc_array(M))
            got = np.asarray(estimate_prox_parameter(alpha, Wa, Ma), float)
            evals += 1
            data = {"n": n, "cols": cols, "W": W, "M_kind": mk, "alpha": alpha, "W_type": wt, "M_type": mt, "got": got}
            if got.shape != (cols,):
                fails.append({"site": "estimate_prox_parameter shape", "msg": f"{got.shape} != ({cols},)", "data": data})
                continue
            if cols == 0:
                continue
            nt += 1
            if not (np.all(np.isfinite(got)) and np.all(got > 0)):
                fails.append({"site": "estimate_prox_parameter positive and finite", "msg": f"{got}", "data": data})
                continue
            rel = float(np.max(np.abs(got - ref) / ref))
            stats["max_err_estimate_rel"] = max(stats["max_err_estimate_rel"], rel)
            stats["min_estimate"] = min(stats["min_estimate"], float(got.min()))
            if rel > 1e-9:
                fails.append({"site": "estimate_prox_parameter vs alpha / diag(W^T M^-1 W)", "msg": f"got {got}, reference {ref}", "data": dict(data, ref=ref)})
    seen = {}
    for f in fails:
        seen.setdefault(f["site"], f)
    return {"fails": list(seen.values()), "nontrivial": nt > 0, "evals": evals, "stats": stats}


def check(case):
    k = case["kind"]
    if k == "orthant":
        return _check_orthant(case)
    if k == "ball":
        return _check_ball(case)
    if k == "jacobian":
        return _check_jacobian(case)
    return _check_estimate(case)
