"""C05  Joint constraints obey the kinematic hierarchy.

Engine E1: complete product  joint variant x ordered subsystem pair x placement;  per case the system is
built once and the oracles are evaluated on: the defining configuration (t0, q0), a generic off-manifold
state with non-unit quaternions at t0+0.3, and ALL single-coordinate deviations of q0 (at t0+0.3), with
velocity / acceleration / multiplier letters generic + unit vectors.  Everything goes through the
assembled System (System.g, g_dot, g_ddot, W_g, g_q, g_dot_q, g_dot_u, Wla_g_q).

Oracles (DESIGN 2.2)
  g(t0,q0) = 0                                                   (1e-10 * scale)
  W_g = (d g_dot / d u)^T, g_dot_u = d g_dot/du                  exact affine differences (1e-12 * scale)
  g_dot  = d/ds g(t+s, q+s*q_dot(t,q,u))                         5-point stencil, fd.verdict
  g_ddot = d/ds g_dot(t+s, q+s*q_dot, u+s*u_dot)                 5-point stencil, fd.verdict
  g_q, g_dot_q, Wla_g_q = d/dq of g, g_dot, W_g*la               5-point stencils per coordinate, fd.verdict
Rod scoping (DESIGN C05): rods are Petrov-Galerkin, so the two time-derivative relations are checked for
rod cross-sections at NODAL xi only; the partial-derivative relations and g(t0,q0)=0 at every xi.
"""
import numpy as np

from vp.core import alphabet as ab
from vp.core import fd
from vp.scen import joints as J

ID = "C05"
LEVEL = "model_checking"
RULE = (
    "full product of 13 joint variants (Spherical, RigidConnection, Revolute/Prismatic/Cylindrical/Planarizer x 3 axes, FixedDistance) "
    "x ordered subsystem pairs from {fixed Frame, moving Frame, PointMass (Spherical/FixedDistance), RigidBody, rod cross-section at "
    "xi in {0,.25(thorough),.37,.5,.75,1}} x placements (r_OJ0 in {None,generic} x A_IJ0 in {None,I,generic}; FixedDistance offsets); per case: "
    "states (t0,q0), (t0+.3, generic non-unit) with all coordinate directions and u/u_dot/la in generic + unit vectors, plus all "
    "single-coordinate deviations of q0. A case is non-trivial if the system assembled and >= 50 oracle comparisons were made"
)
ASSUMPTIONS = [
    "5-point stencil with measured error estimate is the true derivative (fd.verdict; ill-conditioned letters are excluded and counted)",
    "moving frames are given analytic first and second time derivatives (Frame's finite-difference defaults belong to C04)",
    "rod cross-sections: time-derivative relations only at nodal xi (Petrov-Galerkin velocity interpolation), partial derivatives at every xi",
    "a PointMass partner is placed at the joint point (a point has no extent; any other definition is not 'defined in that configuration')",
    "systems are assembled with compute_consistent_initial_conditions=False (C16 covers that solve)",
]
MIN_NONTRIVIAL = 50
CASE_TIMEOUT = 600
DT = 0.3
DEV = 0.3

QUICK_PAIRS = ["F0-RB", "Fm-RB", "RB-Fm", "RB-RB", "RB-ROD@0.5", "ROD@0.37-RB"]
THOROUGH_PAIRS = QUICK_PAIRS + [
    "RB-F0", "ROD@0.0-RB", "RB-ROD@1.0", "ROD@0.75-Fm", "Fm-ROD@0.25", "F0-ROD@1.0", "ROD@0.5-ROD@0.0", "ROD@1.0-ROD@0.37",
    "ROD@0.37-Fm", "RB-ROD@0.37", "ROD@0.5-RB", "Fm-ROD@0.5", "ROD@0.0-F0", "ROD@0.25-ROD@0.75",
]
PM_PAIRS = ["PM-RB", "Fm-PM", "PM-PM", "RB-PM", "PM-ROD@0.5"]


def cases(tier, seed):
    pairs = QUICK_PAIRS if tier == "quick" else THOROUGH_PAIRS
    pm_pairs = PM_PAIRS[:3] if tier == "quick" else PM_PAIRS
    if tier == "quick":
        placements = [("none", "none"), ("generic", "generic")]
        fd_off = [("zero", "zero"), ("generic", "generic")]
    else:
        placements = [(r, a) for r in ("none", "generic") for a in ("none", "I", "generic")]
        fd_off = [(a, b) for a in ("zero", "generic") for b in ("zero", "generic")]
    out = []
    for jname, axis in J.JOINTS:
        pp = list(pairs) + (pm_pairs if jname in ("Spherical", "FixedDistance") else [])
        for pair in pp:
            if jname == "FixedDistance":
                for o1, o2 in fd_off:
                    out.append({"joint": jname, "axis": axis, "pair": pair, "off1": o1, "off2": o2, "seed": seed, "tier": tier})
            elif jname == "Spherical":
                for r in ("none", "generic"):
                    out.append({"joint": jname, "axis": axis, "pair": pair, "r_OJ0": r, "A_IJ0": "none", "seed": seed, "tier": tier})
            else:
                for r, a in placements:
                    out.append({"joint": jname, "axis": axis, "pair": pair, "r_OJ0": r, "A_IJ0": a, "seed": seed, "tier": tier})
                # joint basis tilted by 2e-3 rad / 1e-6 rad against the body basis of one partner (nearly, but not, aligned; seeded C05-h)
                if pair in ("F0-RB", "RB-RB", "RB-Fm", "RB-ROD@0.5") or tier != "quick":
                    out.append({"joint": jname, "axis": axis, "pair": pair, "r_OJ0": "generic", "A_IJ0": "near2", "seed": seed, "tier": tier})
                    out.append({"joint": jname, "axis": axis, "pair": pair, "r_OJ0": "none", "A_IJ0": "near1_1e-6", "seed": seed, "tier": tier})
                    # joint point a few 1e-8 beside the reference point of the first partner (close to it, but not in it)
                    out.append({"joint": jname, "axis": axis, "pair": pair, "r_OJ0": "near_ref1", "A_IJ0": "none", "seed": seed, "tier": tier})
    # simplest first: body pairs before rods, default placement first
    out.sort(key=lambda c: ("ROD" in c["pair"], c.get("r_OJ0", "none") != "none"))
    return out


# ------------------------------------------------------------------------------------------------
def build(case):
    from cardillo import System

    seed = case["seed"]
    system = System(t0=J.T0)
    (k1, xi1), (k2, xi2) = [J.split_kind(s) for s in case["pair"].split("-")]
    jname = case["joint"]
    r_OJ0 = ab.generic_vec(seed, 20, 3, 0.7) if case.get("r_OJ0") == "generic" else None
    A_IJ0 = {"none": None, "I": np.eye(3), "generic": J.generic_rotation(seed, 21)}.get(case.get("A_IJ0", "none"))

    def ref_point(kind, slot):
        """reference point r_OP(t0,q0) of the partner as the harness knows it (to place a PointMass there)"""
        if kind == "F0":
            return ab.generic_vec(seed, 30 + 10 * slot, 3, 1.0)
        if kind == "Fm":
            return J.MovingFrameFns(seed, 10 * slot).r(J.T0)
        if kind == "RB":
            return ab.generic_vec(seed, 33 + 10 * slot, 3, 1.0)
        return None

    pm_q0 = {}
    if jname == "Spherical" and "PM" in (k1, k2):
        if r_OJ0 is not None:
            P = r_OJ0
        else:
            other = [(k, s) for k, s in ((k1, 1), (k2, 2)) if k != "PM"]
            P = ref_point(*other[0]) if other else ab.generic_vec(seed, 22, 3, 1.0)
        pm_q0 = {1: P, 2: P}
    subs = []
    for kind, slot in ((k1, 1), (k2, 2)):
        q0 = None
        if kind == "PM" and slot in pm_q0 and pm_q0[slot] is not None:
            q0 = np.array(pm_q0[slot], float)
        subs.append(J.make_subsystem(kind, seed, slot, system, q0=q0))
    s1, s2 = subs
    if jname == "Spherical" and k1 == "PM" and k2 == "ROD" and r_OJ0 is None:
        # place the point mass on the rod's cross-section centre (rod reference point at q0)
        el = s2.local_qDOF_P(xi2)
        s1.q0 = np.asarray(s2.r_OP(J.T0, np.asarray(s2.q0, float)[el], xi2), float)
    if case.get("r_OJ0") == "near_ref1":
        if k1 in ("RB", "PM"):
            P1 = np.asarray(s1.r_OP(J.T0, np.asarray(s1.q0, float)), float)
        elif k1 == "ROD":
            P1 = np.asarray(s1.r_OP(J.T0, np.asarray(s1.q0, float)[s1.local_qDOF_P(xi1)], xi1), float)
        else:
            P1 = np.asarray(s1.r_OP(J.T0), float)
        r_OJ0 = P1 + np.array([4e-8, -6e-8, 3e-8])
    if case.get("A_IJ0", "none").startswith("near"):
        which, kind, xi = (s1, k1, xi1) if case["A_IJ0"].startswith("near1") else (s2, k2, xi2)
        if kind == "RB":
            Ab = np.asarray(which.A_IB(J.T0, np.asarray(which.q0, float)), float)
        elif kind == "ROD":
            Ab = np.asarray(which.A_IB(J.T0, np.asarray(which.q0, float)[which.local_qDOF_P(xi)], xi), float)
        else:
            Ab = np.asarray(which.A_IB(J.T0), float)
        tilt = 1e-6 if case["A_IJ0"].endswith("1e-6") else 2e-3
        A_IJ0 = Ab @ J.rot(ab.generic_unit(seed, 27), tilt)
    off = {"zero": None, "generic": True}
    off1 = ab.generic_vec(seed, 23, 3, 0.4) if off.get(case.get("off1", "zero")) else None
    off2 = ab.generic_vec(seed, 24, 3, 0.4) if off.get(case.get("off2", "zero")) else None
    joint = J.make_joint(jname, case["axis"], s1, s2, xi1=xi1, xi2=xi2, r_OJ0=None if r_OJ0 is None else r_OJ0.copy(),
                         A_IJ0=None if A_IJ0 is None else A_IJ0.copy(), off1=off1, off2=off2)
    system.add(s1, s2, joint)
    J.assemble(system)
    return system, joint, s1, s2, xi1, xi2


def generic_state(system, seed):
    q = np.zeros(system.nq)
    for c in system.contributions:
        if not (hasattr(c, "nq") and c.nq):
            continue
        name = c.__class__.__name__
        slot = 1 if c.my_qDOF[0] == 0 else 2
        if name == "PointMass":
            q[c.my_qDOF] = ab.generic_vec(seed, 90 + slot, 3, 1.2)
        elif name == "RigidBody":
            q[c.my_qDOF] = np.concatenate([ab.generic_vec(seed, 92 + slot, 3, 1.2), ab.generic_quat(seed, 94 + slot)])
        else:
            q[c.my_qDOF] = np.asarray(c.q0, float) + ab.weyl(seed, 96 + slot, c.nq, -0.2, 0.2)
    return q


def _repo_origin(e):
    """innermost library frame and outermost frame inside cardillo/constraints of an exception (None if the
    exception did not pass through library code)"""
    import os
    import traceback

    repo = os.path.abspath(os.environ.get("VERIF_REPO", "/repo")) + os.sep
    inner = origin = None
    for fr in traceback.extract_tb(e.__traceback__):
        fn = os.path.abspath(fr.filename)
        if fn.startswith(repo):
            rel = fn[len(repo):]
            inner = f"{rel}:{fr.name}"
            if rel.startswith("cardillo/constraints/") and origin is None:
                origin = f"{rel}:{fr.name}"  # outermost constraint-level routine the exception passed through
    if inner is None:
        return None
    return {"origin": origin or inner, "innermost": inner}


class Rec:
    def __init__(self, case):
        self.fails = {}
        self.stats = {}
        self.evals = 0
        self.ncmp = 0
        self.illcond = 0
        self.case = case

    def fail(self, site, msg, data):
        if site not in self.fails:
            self.fails[site] = {"site": site, "msg": msg, "data": data}

    def exact(self, site, key, routine, ref, tol, ctx):
        e = fd.err(routine, ref)
        sc = fd.scale_of(routine, ref)
        self.ncmp += 1
        self.stats["max_err_" + key] = max(self.stats.get("max_err_" + key, 0.0), e / sc if np.isfinite(e) else 1e300)
        if not e <= tol * sc:
            self.fail(site, f"err {e:.3e} (scale {sc:.2g}) at {ctx}", dict(ctx, err=e, scale=sc))

    def fdcmp(self, site, key, routine, ref, est, ctx):
        v, e, thr = fd.verdict(routine, ref, est)
        self.ncmp += 1
        if v == "illcond":
            self.illcond += 1
            return
        sc = fd.scale_of(routine, ref)
        self.stats["max_err_" + key] = max(self.stats.get("max_err_" + key, 0.0), e / sc if np.isfinite(e) else 1e300)
        self.stats["max_est_" + key] = max(self.stats.get("max_est_" + key, 0.0), est)
        if v == "fail":
            self.fail(site, f"err {e:.3e} > thr {thr:.3e} (est {est:.1e}) at {ctx}", dict(ctx, err=e, thr=thr, est=est))


def check(case):
    seed = case["seed"]
    tier = case.get("tier", "quick")
    rec = Rec(case)
    try:
        system, joint, s1, s2, xi1, xi2 = build(case)
    except Exception as e:  # noqa
        info = _repo_origin(e)
        if info is None:
            raise  # not raised from library code: harness problem
        rec.fail("System.assemble raises for a joint between supported subsystems", f"{type(e).__name__}: {e} (constraint frame: {info['origin']}, innermost: {info['innermost']})",
                 dict(info, exc=type(e).__name__, exc_msg=str(e)[:200]))
        return {"fails": list(rec.fails.values()), "nontrivial": True, "evals": 1, "outcome": "assemble-crash"}
    nodal = J.is_nodal(xi1) and J.is_nodal(xi2)
    t0 = system.t0
    nq, nu, nla = system.nq, system.nu, system.nla_g
    q0, _ = J.raw_q0(system)
    jq = np.asarray(joint.qDOF, int)
    G = lambda t, q: np.asarray(system.g(t, q), float)
    GD = lambda t, q, u: np.asarray(system.g_dot(t, q, u), float)
    GDD = lambda t, q, u, ud: np.asarray(system.g_ddot(t, q, u, ud), float)
    WG = lambda t, q: fd.dense(system.W_g(t, q))

    u_gen = [ab.weyl(seed, 100 + i, nu, -1.5, 1.5) for i in range(3)]
    ud_gen = [ab.weyl(seed, 110 + i, nu, -2.0, 2.0) for i in range(2)]
    la_gen = ab.weyl(seed, 120, nla, -2.0, 2.0)
    E_u = np.eye(nu)
    ctx0 = {"xi1": xi1, "xi2": xi2}

    # ---- 1. satisfied where defined
    g0 = G(t0, q0)
    rec.evals += 1
    rec.ncmp += 1
    scale0 = max(1.0, float(np.max(np.abs(q0))) if nq else 1.0)
    rec.stats["max_err_g0"] = float(np.max(np.abs(g0))) if g0.size else 0.0
    if not np.all(np.abs(g0) <= 1e-10 * scale0):
        rec.fail("System.g(t0,q0) vs 0 (joint satisfied where defined)", f"|g(t0,q0)| = {np.max(np.abs(g0)):.3e}", dict(ctx0, g0=g0, state="q0"))
    # system.q0 has normalised quaternions: the same physical configuration for bodies and nodal cross-sections
    # (at a non-nodal xi the interpolated quaternion depends on the nodal norms, so it is a different configuration)
    g0n = G(t0, np.asarray(system.q0, float)) if nodal else np.zeros(0)
    if not np.all(np.abs(g0n) <= 1e-10 * scale0):
        rec.fail("System.g(t0,system.q0) vs 0 (joint satisfied where defined)", f"|g| = {np.max(np.abs(g0n)):.3e}", dict(ctx0, g0=g0n, state="system.q0"))

    def time_checks(t, q, label, u_letters, uud_letters):
        if not nodal:
            rec.stats["n_time_checks_skipped_nonnodal_xi"] = rec.stats.get("n_time_checks_skipped_nonnodal_xi", 0) + len(u_letters) + len(uud_letters)
            return
        one = np.ones(1)
        for uname, u in u_letters:
            qd = np.asarray(system.q_dot(t, q, u), float)
            D, est = fd.ddir(lambda s: G(t + s[0], q + s[0] * qd), np.zeros(1), one, h=1e-3)
            rec.evals += 9
            rec.fdcmp("System.g_dot vs d/dt g along the flow", "g_dot_time", GD(t, q, u), D, est, dict(ctx0, state=label, u=uname))
        for (uname, u), (udname, ud) in uud_letters:
            qd = np.asarray(system.q_dot(t, q, u), float)
            D, est = fd.ddir(lambda s: GD(t + s[0], q + s[0] * qd, u + s[0] * ud), np.zeros(1), one, h=1e-3)
            rec.evals += 9
            rec.fdcmp("System.g_ddot vs d/dt g_dot along the flow", "g_ddot_time", GDD(t, q, u, ud), D, est, dict(ctx0, state=label, u=uname, u_dot=udname))

    def affine_checks(t, q, label):
        Jref = fd.affine_jac(lambda u: GD(t, q, u), nu)  # (nla, nu)
        rec.evals += nu + 1
        W = WG(t, q)
        rec.exact("System.W_g vs (d g_dot/d u)^T", "W_g", W, Jref.T, 1e-12, dict(ctx0, state=label))
        rec.exact("System.g_dot_u vs d g_dot/d u", "g_dot_u", fd.dense(system.g_dot_u(t, q)), Jref, 1e-12, dict(ctx0, state=label))
        # g_ddot is affine in u_dot with the same matrix
        u = u_gen[0]
        Jdd = fd.affine_jac(lambda ud: GDD(t, q, u, ud), nu)
        rec.evals += nu + 1
        rec.exact("d g_ddot/d u_dot vs W_g^T", "g_ddot_udot", Jdd, W.T, 1e-12, dict(ctx0, state=label))

    def partial_checks(t, q, label, dirs, u_letters, la_letters):
        """dirs: list of (name, v (nq,), is_unit_index or None)"""
        nuL = len(u_letters)

        def F(x):
            parts = [G(t, x)] + [GD(t, x, u) for _, u in u_letters] + [WG(t, x).reshape(-1)]
            return np.concatenate(parts)

        gq = fd.dense(system.g_q(t, q))
        gdq = [fd.dense(system.g_dot_q(t, q, u)) for _, u in u_letters]
        Wlq = [fd.dense(system.Wla_g_q(t, q, la)) for _, la in la_letters]
        for dname, v in dirs:
            D, est = fd.ddir(F, q, v)
            rec.evals += 8 * (2 + nuL)
            c = dict(ctx0, state=label, dq=dname)
            rec.fdcmp("System.g_q vs dg/dq", "g_q", gq @ v, D[:nla], est, c)
            for k, (uname, _) in enumerate(u_letters):
                rec.fdcmp("System.g_dot_q vs d g_dot/dq", "g_dot_q", gdq[k] @ v, D[nla * (1 + k) : nla * (2 + k)], est, dict(c, u=uname))
            dW = D[nla * (1 + nuL) :].reshape(nu, nla)
            for k, (lname, la) in enumerate(la_letters):
                rec.fdcmp("System.Wla_g_q vs d(W_g la)/dq", "Wla_g_q", Wlq[k] @ v, dW @ la, est, dict(c, la=lname))

    # ---- 2. full states
    qgen = generic_state(system, seed)
    full = [("q0@t0", t0, q0), ("generic@t0+dt", t0 + DT, qgen)]
    u_full = [("generic0", u_gen[0]), ("generic1", u_gen[1]), ("zero", np.zeros(nu))] + [(f"e{i}", E_u[i]) for i in range(nu)]
    uud_full = [(("generic0", u_gen[0]), ("generic0", ud_gen[0])), (("generic1", u_gen[1]), ("zero", np.zeros(nu))), (("zero", np.zeros(nu)), ("generic1", ud_gen[1]))]
    uud_full += [((f"e{i}", E_u[i]), ("zero", np.zeros(nu))) for i in range(nu)] + [((f"-e{i}", -E_u[i]), ("zero", np.zeros(nu))) for i in range(nu)]
    uud_full += [(("generic2", u_gen[2]), (f"e{i}", E_u[i])) for i in range(nu)]
    la_full = [("generic", la_gen)] + [(f"e{i}", np.eye(nla)[i]) for i in range(nla)]
    u_part = [("generic0", u_gen[0]), ("zero", np.zeros(nu))] + ([(f"e{i}", E_u[i]) for i in range(nu)] if tier == "thorough" else [("generic1", u_gen[1])])
    vgen = np.zeros(nq)
    vgen[jq] = ab.weyl(seed, 130, len(jq), -1.0, 1.0)
    vout = ab.weyl(seed, 131, nq, -1.0, 1.0)
    vout[jq] = 0.0
    for label, t, q in full:
        affine_checks(t, q, label)
        time_checks(t, q, label, u_full, uud_full)
        dirs = [("generic", vgen)] + [(f"e{int(i)}", np.eye(nq)[int(i)]) for i in jq]
        if np.any(vout):
            dirs.append(("outside-joint-dofs", vout))
        partial_checks(t, q, label, dirs, u_part, la_full)

    # ---- 3. all single-coordinate deviations of q0 (cheap letter set)
    for i in jq:
        i = int(i)
        q = q0.copy()
        q[i] += DEV
        label = f"q0+{DEV}*e{i}@t0+dt"
        t = t0 + DT
        affine_checks(t, q, label)
        time_checks(t, q, label, [("generic0", u_gen[0])], [(("generic1", u_gen[1]), ("generic0", ud_gen[0]))])
        partial_checks(t, q, label, [("generic", vgen), (f"e{i}", np.eye(nq)[i])], [("generic0", u_gen[0])], [("generic", la_gen)])
    # ---- 4. the same joint after a re-assembly that renumbers the coordinates of its subsystems: everything is removed,
    #         a point mass is registered first, the same objects are registered again and the system is assembled anew
    try:
        from cardillo.discrete import PointMass

        tg = t0 + DT
        g_before = G(tg, qgen)
        gd_before = GD(tg, qgen, u_gen[0])
        W_before = WG(tg, qgen)
        pad = PointMass(1.0, q0=np.array([0.3, -0.2, 0.1]), u0=np.zeros(3), name="verif_pad")
        system.remove(joint, s2, s1)
        system.add(pad, s1, s2, joint)
        J.assemble(system)
        qn = np.concatenate([np.asarray(pad.q0, float), qgen])
        un = np.concatenate([np.zeros(3), u_gen[0]])
        rec.evals += 3
        for nm, a, b in (("g", G(tg, qn), g_before), ("g_dot", GD(tg, qn, un), gd_before), ("W_g", WG(tg, qn)[3:], W_before)):
            rec.ncmp += 1
            e = float(np.max(np.abs(np.asarray(a) - np.asarray(b)))) if np.size(b) else 0.0
            if np.shape(a) != np.shape(b) or e > 1e-11 * (1.0 + (float(np.max(np.abs(b))) if np.size(b) else 0.0)):
                rec.fail(f"System.{nm} after re-assembly with renumbered coordinates vs before", f"max difference {e:.3e}", dict(ctx0, state="generic@t0+dt"))
    except Exception as e:  # noqa
        info = _repo_origin(e)
        if info is None:
            raise
        rec.fail("re-assembly with renumbered coordinates raises", f"{type(e).__name__}: {e}", dict(info, exc=type(e).__name__))
    rec.stats["n_states"] = 2 + len(jq)
    rec.stats["n_comparisons"] = rec.ncmp
    rec.stats["n_illcond"] = rec.illcond
    res = {"fails": list(rec.fails.values()), "nontrivial": rec.ncmp >= 50, "evals": rec.evals, "stats": rec.stats,
           "outcome": "nodal-or-body" if nodal else "non-nodal-xi"}
    if rec.illcond > 0.2 * rec.ncmp:
        res["excluded"] = "more than 20% ill-conditioned stencils"
    return res
