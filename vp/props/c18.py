"""C18  Nonsmooth integrators satisfy the discrete Signorini-Coulomb laws.

E1 over executions: one case = one execution (scene, solver, e_N, mu, dt) of N steps on the real
solver; EVERY stored step is a checked state.  Everything is recomputed from the stored rows
(t, q, u, P_N, P_F) with the own g_N, g_N_dot, gamma_F, q_dot, M of a *fresh twin* of the system
(Sphere2Sphere keeps a reference contact basis that its step_callback rotates, so the twin is
walked through the stored rows exactly like the solver walked the original: step k is evaluated
with the basis left by the callbacks of rows 1..k-1).

Where each scheme evaluates its contact law (read from the solver sources):
  Moreau             t_n+dt/2, q_n + dt/2 q_dot(t_n, q_n, u_n)            xi = g_N_dot(u_n+1) + e_N g_N_dot(u_n)
  DualStormerVerlet  t_n+dt/2, q_m = q_n + dt/2 q_dot(t_m, q_m, u_n)      (implicit midpoint, re-solved here)
  BackwardEuler      t_n+1, q_n+1            (gap level; friction with gamma_F(t_n+1, q_n+1, u_n+1))
  Rattle             t_n+1, q_n+1            (stage 1 gap level; stored percussion = stage 1 + stage 2;
                                              friction of the total with gamma_F(t_n+1, q_n+1, u_n+1), e_F = 0)
Moreau/DSV are judged as velocity-level schemes, Rattle/BackwardEuler as position-level schemes
(DESIGN C18 classification note); Rattle's stage-2 velocity-level residual is a diagnostic only.
"""
import numpy as np

ID = "C18"
LEVEL = "model_checking"
RULE = (
    "full product of 11 scenes (vp/scen/scenes.py: ball/point mass on fixed, inclined and moving planes, sphere-sphere head-on/oblique, two-contact stack) x "
    "solvers (Moreau, DualStormerVerlet default and accelerated=False [thorough: + LU], BackwardEuler, Rattle) x e_N in {0, generic, 1} x mu in {0, generic, 1} x "
    "dt in {1e-3, [thorough: 5e-3,] 2e-2}; one execution of N = 60 (quick) / 100 (thorough) steps per case, "
    "every stored step k>=1 is a checked state (states = stored steps, transitions = solver steps); a case is non-trivial if at least one "
    "stored step carries a normal percussion P_N > 0 (the contact laws were really exercised)"
)
ASSUMPTIONS = [
    "solver tolerances tightened to 1e-10 (Newton and fixed point) so that 'solver tolerance' is sharp; oracle tolerances sit >= 2 orders above the measured residuals",
    "the oracle trusts the system's own g_N, g_N_dot, gamma_F, q_dot, M (their correctness is C06/C04) and the stored rows t, q, u, P_N, P_F",
    "velocity-level schemes (Moreau, DualStormerVerlet) are judged at their midpoint, position-level schemes (Rattle, BackwardEuler) at the end point; "
    "Rattle is judged as a position-level scheme, its stage-2 velocity-level residual is recorded as a diagnostic only",
    "steps whose active-set decision sits inside the tolerance band (|g_N| <= 1e-7 at the evaluation point with P_N = 0) are excluded from the closed/open clauses and counted",
    "e_F = 0 in all scenes (the property only speaks about Newton restitution in normal direction)",
    "executions in which the solver itself reports non-convergence are counted as excluded, not as violations (that contract is C21)",
    "kinetic-energy clause only on scenes without applied and gyroscopic forces (spherical inertia, no gravity) with mu = 0 and e_N <= 1, single contact",
]
MIN_NONTRIVIAL = 100
MIN_OUTCOMES = 5
CASE_TIMEOUT = 600

SOLVERS = ["Moreau", "DualStormerVerlet", "DualStormerVerlet_plain", "BackwardEuler", "Rattle"]  # _plain: accelerated=False, _LU: linear_solver="LU"
VELOCITY_LEVEL = {"Moreau", "DualStormerVerlet", "DualStormerVerlet_plain", "DualStormerVerlet_LU"}
DT = [1e-3, 5e-3, 2e-2]

# ---- tolerances (calibrated, see stats max_* in the evidence) ---------------------------------
BAND = 1e-7        # |g_N| at the evaluation point below this: activity undecidable from outside
TOL_NEG = 1e-12    # P_N >= -TOL_NEG
TOL_P0 = 1e-8      # "P_N = 0" on open contacts
TOL_PACT = 1e-7    # P_N above this: the contact certainly transmits a percussion
TOL_XI = 1e-6      # restituted gap rate
TOL_PEN = 1e-7     # penetration of position-level schemes
TOL_DISK_ABS = 1e-8
TOL_DISK_REL = 1e-6
SLIP = 1e-3        # slip speed above which the contact "slides"
TOL_DIR_ABS = 1e-7
TOL_DIR_REL = 1e-5
TOL_KE_REL = 1e-9
TOL_KE_ABS = 1e-12


def letters(seed):
    """special letters 0 and 1 plus one generic letter each for e_N and mu; seed 0 uses the design's 0.5 / 0.3, other seeds rotate the
    generic letter inside (0.15, 0.85) (Weyl sequence), rounded to 3 decimals so that replay files carry the exact numbers"""
    if seed == 0:
        return [0.0, 0.5, 1.0], [0.0, 0.3, 1.0]
    from vp.core.alphabet import weyl

    w = weyl(seed, 18, 2, lo=0.15, hi=0.85)
    return [0.0, round(float(w[0]), 3), 1.0], [0.0, round(float(w[1]), 3), 1.0]


def cases(tier, seed):
    from vp.scen.scenes import SCENES

    N = 100 if tier == "thorough" else 60
    dts = DT if tier == "thorough" else [1e-3, 2e-2]
    solvers = SOLVERS + (["DualStormerVerlet_LU"] if tier == "thorough" else [])
    e_Ns, mus = letters(seed)
    out = []
    for scene in SCENES:
        for solver in solvers:
            for dt in dts:
                for e_N in e_Ns:
                    for mu in mus:
                        out.append({"scene": scene, "solver": solver, "e_N": e_N, "mu": mu, "dt": dt, "N": N})
    return out


# ------------------------------------------------------------------------------------------------
def _implicit_midpoint(system, tm, qn, un, dt):
    """q_m = q_n + dt/2 q_dot(t_m, q_m, u_n) (DualStormerVerlet's first sub-step), iterated to rounding"""
    qm = qn.copy()
    for _ in range(200):
        qnew = qn + 0.5 * dt * system.q_dot(tm, qm, un)
        d = np.max(np.abs(qnew - qm))
        qm = qnew
        if d < 1e-15:
            break
    return qm


def _contacts(system, mu):
    """[(i_N, [i_F...] or None)] read from the system's own connectivity"""
    out = []
    for c in system.contributions:
        if hasattr(c, "la_NDOF"):
            for j in range(len(c.la_NDOF)):
                iF = None
                if hasattr(c, "la_FDOF") and hasattr(c, "friction_laws"):
                    for i_N, i_F, _law in c.friction_laws:
                        if len(i_N) and i_N[0] == j:
                            iF = [int(x) for x in c.la_FDOF[i_F]]
                out.append((int(c.la_NDOF[j]), iF, c.name))
    return out


_NONCONV = ("not converged", "did not converge", "is not converged")


def check(case):
    import time
    from vp.core.quiet import quiet
    from vp.scen.scenes import SCENES, build, make_solver, solver_options

    scene, solver, e_N, mu, dt, N = case["scene"], case["solver"], case["e_N"], case["mu"], case["dt"], case["N"]
    facts = SCENES[scene]
    vel_level = solver in VELOCITY_LEVEL
    letters = {"scene": scene, "solver": solver, "e_N": e_N, "mu": mu, "dt": dt}

    cpu0 = time.process_time()
    system = build(scene, e_N, mu)
    t1 = system.t0 + N * dt - 0.5 * dt
    try:
        with quiet():
            sol = make_solver(solver, system, t1, dt, options=solver_options()).solve()
    except (RuntimeError, ValueError) as e:
        if any(s in str(e) for s in _NONCONV):
            return {"fails": [], "nontrivial": False, "evals": 0, "excluded": "solver reported non-convergence", "outcome": "aborted:nonconvergence",
                    "stats": {"n_aborted_executions": 1, "cpu_s": time.process_time() - cpu0}}
        raise
    t, q, u = np.asarray(sol.t, float), np.asarray(sol.q, float), np.asarray(sol.u, float)
    P_N = np.asarray(sol.P_N, float)
    P_F = np.asarray(sol.P_F, float) if getattr(sol, "P_F", None) is not None else np.zeros((len(t), 0))
    nrows = len(t)
    fails_all = []

    def fail(site, k, msg, **data):
        fails_all.append({"site": site, "msg": f"{letters} step {k}: {msg}", "data": dict(letters, step=int(k), **data)})

    if not (len(q) == len(u) == len(P_N) == nrows) or (P_F.shape[0] != nrows):
        return {"fails": [{"site": "stored rows have different lengths", "msg": f"{letters}: t {nrows} q {len(q)} u {len(u)} P_N {len(P_N)} P_F {P_F.shape[0]}", "data": letters}],
                "nontrivial": True, "evals": 1}
    truncated = nrows != N + 1  # BackwardEuler returns the converged prefix (with a warning) on non-convergence

    twin = build(scene, e_N, mu)  # fresh evaluation system (never a deepcopy: closures would stay bound to the original)
    contacts = _contacts(twin, mu)
    if P_N.shape[1] != twin.nla_N or P_F.shape[1] != twin.nla_F:
        return {"fails": [{"site": "stored percussions have the wrong width", "msg": f"{letters}: P_N {P_N.shape} P_F {P_F.shape} nla_N {twin.nla_N} nla_F {twin.nla_F}", "data": letters}],
                "nontrivial": True, "evals": 1}

    st = {k: 0.0 for k in ("max_neg_P_N", "max_P_N_open", "max_neg_xi_N_closed", "max_compl_xi_P", "max_penetration", "max_compl_g_P", "max_disk_excess",
                             "max_slide_dir_err_rel", "max_ke_increase_rel", "max_diag_rattle_neg_xi_N", "max_diag_be_neg_gdot", "max_P_N", "max_slip")}
    cnt = {k: 0 for k in ("n_band_excluded", "n_closed", "n_open", "n_percussion", "n_slide", "n_stick", "n_ke_steps", "n_impact", "n_disk_checked")}
    outcomes = set()
    evals = 0
    ke_prev = None
    use_ke = facts["force_free"] and mu == 0.0 and e_N <= 1.0
    with quiet():
        if use_ke:
            M0 = twin.M(t[0], q[0]).toarray()
            ke_prev = 0.5 * u[0] @ M0 @ u[0]
        for k in range(1, nrows):
            tn, qn, un = t[k - 1], q[k - 1], u[k - 1]
            tk, qk, uk = t[k], q[k], u[k]
            if not (np.all(np.isfinite(qk)) and np.all(np.isfinite(uk)) and np.all(np.isfinite(P_N[k])) and np.all(np.isfinite(P_F[k]))):
                fail("stored step is not finite", k, "nan/inf in q, u, P_N or P_F")
                break
            # evaluation point of the scheme's contact law
            if solver == "Moreau":
                te = tn + 0.5 * dt
                qe = qn + 0.5 * dt * twin.q_dot(tn, qn, un)
            elif vel_level:
                te = tn + 0.5 * dt
                qe = _implicit_midpoint(twin, te, qn, un, dt)
            else:
                te, qe = tk, qk
            g_e = twin.g_N(te, qe)
            gd_post = twin.g_N_dot(te, qe, uk)
            if vel_level:
                gd_pre = twin.g_N_dot(te, qe, un)
            else:
                gd_pre = twin.g_N_dot(tn, qn, un)
            xi_N = gd_post + e_N * gd_pre
            xi_F = twin.gamma_F(te, qe, uk) if twin.nla_F else np.zeros(0)
            g_k = g_e if not vel_level else None
            evals += 1

            for iN, iF, cname in contacts:
                P = P_N[k, iN]
                g = g_e[iN]
                st["max_P_N"] = max(st["max_P_N"], P)
                # --- sign -------------------------------------------------------------------------
                st["max_neg_P_N"] = max(st["max_neg_P_N"], -P)
                if P < -TOL_NEG:
                    fail("normal percussion is negative", k, f"P_N[{iN}] = {P:.3e}", contact=cname, P_N=P)
                # --- open contacts carry nothing ----------------------------------------------------
                if g > BAND:
                    cnt["n_open"] += 1
                    st["max_P_N_open"] = max(st["max_P_N_open"], abs(P))
                    if abs(P) > TOL_P0:
                        fail("open contact carries a normal percussion", k, f"g_N = {g:.3e} at the scheme's evaluation point but P_N[{iN}] = {P:.3e}",
                             contact=cname, P_N=P, g_N=g)
                in_band = abs(g) <= BAND
                if in_band and P <= TOL_PACT:
                    cnt["n_band_excluded"] += 1
                    outcomes.add("band")
                if P > TOL_PACT:
                    cnt["n_percussion"] += 1
                    if P_N[k - 1, iN] <= TOL_PACT:
                        cnt["n_impact"] += 1
                # --- complementarity ----------------------------------------------------------------
                if vel_level:
                    closed = (g < -BAND) or (g <= BAND and P > TOL_PACT)
                    if closed:
                        cnt["n_closed"] += 1
                        x = xi_N[iN]
                        st["max_neg_xi_N_closed"] = max(st["max_neg_xi_N_closed"], -x)
                        if x < -TOL_XI:
                            fail("restituted gap rate is negative on a closed contact", k,
                                 f"xi_N = g_N_dot+ + e_N g_N_dot- = {x:.3e} (g_N_dot+ {gd_post[iN]:.3e}, g_N_dot- {gd_pre[iN]:.3e}), P_N = {P:.3e}, g_N = {g:.3e}",
                                 contact=cname, xi_N=x, P_N=P, g_N=g)
                        compl = min(max(x, 0.0), max(P, 0.0))
                        st["max_compl_xi_P"] = max(st["max_compl_xi_P"], compl)
                        if x > TOL_XI and P > TOL_PACT:
                            fail("normal percussion is not complementary to the restituted gap rate", k,
                                 f"xi_N = {x:.3e} > 0 and P_N = {P:.3e} > 0 (g_N = {g:.3e})", contact=cname, xi_N=x, P_N=P, g_N=g)
                else:
                    st["max_penetration"] = max(st["max_penetration"], -g)
                    if g < -TOL_PEN:
                        fail("position-level scheme lets the contact penetrate", k, f"g_N(t_k, q_k)[{iN}] = {g:.3e}", contact=cname, g_N=g, P_N=P)
                    st["max_compl_g_P"] = max(st["max_compl_g_P"], abs(g * P))
                    if g <= BAND:
                        cnt["n_closed"] += 1
                    # diagnostics only (never a verdict)
                    if P > TOL_PACT:
                        if solver == "Rattle":
                            st["max_diag_rattle_neg_xi_N"] = max(st["max_diag_rattle_neg_xi_N"], -xi_N[iN])
                        else:
                            st["max_diag_be_neg_gdot"] = max(st["max_diag_be_neg_gdot"], -gd_post[iN])
                # --- friction -----------------------------------------------------------------------
                if iF is not None:
                    PF = P_F[k, iF]
                    nPF = float(np.linalg.norm(PF))
                    excess = nPF - mu * max(P, 0.0)
                    cnt["n_disk_checked"] += 1
                    st["max_disk_excess"] = max(st["max_disk_excess"], excess)
                    if excess > TOL_DISK_ABS + TOL_DISK_REL * mu * max(P, 0.0):
                        fail("friction percussion outside the Coulomb disk", k, f"|P_F| = {nPF:.6e} > mu P_N = {mu * P:.6e} (excess {excess:.3e})",
                             contact=cname, P_N=P, norm_P_F=nPF, excess=excess, rel_excess=excess / max(mu * max(P, 0.0), 1e-300))
                    xF = xi_F[iF]
                    slip = float(np.linalg.norm(xF))
                    if P > TOL_PACT:
                        st["max_slip"] = max(st["max_slip"], slip)
                        if slip > SLIP:
                            cnt["n_slide"] += 1
                            outcomes.add("slide")
                            want = -mu * P * xF / slip
                            err = float(np.linalg.norm(PF - want))
                            rel = err / (mu * P)
                            st["max_slide_dir_err_rel"] = max(st["max_slide_dir_err_rel"], rel)
                            if err > TOL_DIR_ABS + TOL_DIR_REL * mu * P:
                                fail("sliding friction percussion is not -mu P_N xi_F/|xi_F|", k,
                                     f"P_F = {PF.tolist()}, -mu P_N xi_F/|xi_F| = {want.tolist()}, |xi_F| = {slip:.3e}, cos = {float(PF @ want) / max(nPF * mu * P, 1e-300):.6f}",
                                     contact=cname, err=err, rel_err=rel, slip=slip, P_N=P, norm_P_F=nPF, cos=float(PF @ want) / max(nPF * mu * P, 1e-300))
                        elif slip < 1e-7:
                            cnt["n_stick"] += 1
                            outcomes.add("stick")
            # --- kinetic energy ---------------------------------------------------------------------
            if use_ke:
                Mk = twin.M(tk, qk).toarray()
                ke = 0.5 * uk @ Mk @ uk
                inc = (ke - ke_prev) / max(ke_prev, 1e-300)
                cnt["n_ke_steps"] += 1
                st["max_ke_increase_rel"] = max(st["max_ke_increase_rel"], inc)
                if ke - ke_prev > TOL_KE_ABS + TOL_KE_REL * ke_prev:
                    fail("kinetic energy increases in a force-free frictionless scene", k, f"T_k - T_k-1 = {ke - ke_prev:.3e} (T_k-1 = {ke_prev:.6e}), P_N = {P_N[k].tolist()}",
                         dT=ke - ke_prev, T_prev=ke_prev, rel_increase=inc, rel_increase_over_dt=inc / dt)
                ke_prev = ke
            # walk the twin like the solver walked the original
            twin.step_callback(tk, qk.copy(), uk.copy())

    if cnt["n_percussion"]:
        outcomes.add("percussion")
    if cnt["n_impact"]:
        outcomes.add("impact")
    if cnt["n_open"]:
        outcomes.add("open")
    if cnt["n_percussion"] and cnt["n_impact"] < cnt["n_percussion"]:
        outcomes.add("persistent")
    if truncated:
        outcomes.add("truncated_by_solver")
    if use_ke:
        outcomes.add("ke_checked")

    # one fail per site (first step) with the number of failing steps
    seen, num = {}, {}
    for f in fails_all:
        num[f["site"]] = num.get(f["site"], 0) + 1
        seen.setdefault(f["site"], f)
    for s, f in seen.items():
        f["data"]["steps_failing"] = num[s]
    fam = solver.split("_")[0]
    stats = {f"{k}__{fam}": v for k, v in st.items() if v > 0}  # residuals per solver family (noise differs by scheme)
    stats.update(cnt)
    stats["cpu_s"] = time.process_time() - cpu0
    stats["max_case_cpu_s"] = stats["cpu_s"]
    stats["n_truncated_executions"] = int(truncated)
    res = {"fails": list(seen.values()), "nontrivial": cnt["n_percussion"] > 0, "evals": evals, "states": nrows - 1, "transitions": nrows - 1,
           "outcome": sorted(outcomes), "stats": stats}
    return res
