"""C10  Cosserat rod internal forces are stress-free, objective and self-equilibrated.

Engine E1.  One case = one rod formulation (interpolation/degree x displacement-based|mixed x internal
constraint set x element count x stress-free reference x material), built fresh and put alone into a
System.  Inside the case the state space  base o rigid motion o deviation  is enumerated completely:

  bases      reference Q | generic deformed (unit nodal quaternions) | the same with per-node quaternion
             rescaling x{1/2,2}
  deviations all single-coordinate deviations of the deformed base (bound 1; thorough: two letters per
             coordinate and all pairs inside one node = bound 2)
  motions    r_i -> c + A r_i, p_i -> p_A o p_i  for translations, exact quarter/half turns given by integer
             (non-unit) quaternions and a generic rotation+translation

Oracles (all through System):
  * at Q and at every rigid motion of Q: E_pot = 0, h(Q,0) = 0, c(Q,0) = 0, la_c(Q) = 0, g(Q) = 0
  * for every state s and motion m: E_pot, c(.,la_c), la_c(.), g equal at m.s and s; h(.,u), W_c, W_g equal for
    translations
  * for every state (moved or not): the translational rows of h(s,0), of every column of W_c(s) and of every
    column of W_g(s), summed over the nodes, vanish (columns = responses to la = e_i, hence for all la).
"""
import numpy as np

from vp.core import alphabet as ab
from vp.scen import rods as R

ID = "C10"
LEVEL = "model_checking"
RULE = (
    "complete product of rod formulations (6 interpolation/degree x {displacement,mixed} x 5 constraint sets x "
    "element counts x reference configurations [thorough: nel=3 only on the references straight_pose and helix; + full "
    "integration and Harsch2021 letters]); "
    "per formulation all states base o motion o deviation (3 bases, every single-coordinate deviation of the "
    "deformed base, thorough: all coordinate pairs within a node) x all rigid motions.  A case is non-trivial if "
    "the deformed states really are strained (E_pot > 1e-6 or non-zero compliance/constraint residual) and at "
    "least one force vector/direction matrix entering the resultant check is non-zero"
)
ASSUMPTIONS = [
    "rigid motions are applied by an independent reference implementation (quaternion product, rotation matrix of a normalised quaternion)",
    "zero means <= 1e-11 (1e-12 x stiffness x length); invariance means <= 1e-10 relative to max(1,|value|); measured noise is reported in stats",
    "mixed formulations use Simo1986 (the only law with C_n_inv); Harsch2021 only displacement-based, thorough tier",
    "only the force resultant is required to vanish (moment balance is not exact for Petrov-Galerkin test functions and is not checked)",
]
MIN_NONTRIVIAL = 100
MIN_OUTCOMES = 5
CASE_TIMEOUT = 600

TOL_ZERO = 1e-12 * R.KMAX * R.LENGTH
TOL_INV = 1e-10
TOL_RES = 1e-12


def cases(tier, seed):
    out = []
    for f in R.formulations(tier):
        c = dict(f)
        c["tier"] = tier
        c["seed"] = seed
        out.append(c)
    return out


class _Ev:
    """evaluates the observed System functions at a state"""

    def __init__(self, rod, system, seed):
        self.rod = rod
        self.s = system
        self.la_c = 0.8 * ab.weyl(seed, 21, system.nla_c) if system.nla_c else np.zeros(0)
        self.u = 0.7 * ab.weyl(seed, 23, system.nu)
        self.u0 = np.zeros(system.nu)
        self.zero_c = np.zeros(system.nla_c)
        self.rows = [rod.uDOF[rod.nodalDOF_r_u[k]] for k in range(rod.nnodes_r)]
        self.n = 0

    def inv(self, q):
        """quantities that must be invariant under every rigid motion"""
        s = self.s
        self.n += 5
        return {
            "E_pot": np.atleast_1d(float(s.E_pot(0.0, q))),
            "c(q,0)": np.asarray(s.c(0.0, q, self.u0, self.zero_c), float),
            "c(q,la_c)": np.asarray(s.c(0.0, q, self.u0, self.la_c), float),
            "la_c(q)": np.asarray(s.la_c(0.0, q, self.u0), float),
            "g": np.asarray(s.g(0.0, q), float),
        }

    def h(self, q):
        self.n += 2
        return {"h(q,0)": np.asarray(self.s.h(0.0, q, self.u0), float), "h(q,u)": np.asarray(self.s.h(0.0, q, self.u), float)}

    def resultants(self, q, h0=None):
        """name -> (3 x k resultant, scale)"""
        s = self.s
        if h0 is None:
            h0 = np.asarray(s.h(0.0, q, self.u0), float)
            self.n += 1
        out = {}
        mats = {"h(q,0)": h0.reshape(-1, 1)}
        if s.nla_c:
            mats["W_c"] = np.asarray(s.W_c(0.0, q).toarray(), float)
            self.n += 1
        if s.nla_g:
            mats["W_g"] = np.asarray(s.W_g(0.0, q).toarray(), float)
            self.n += 1
        for name, Mx in mats.items():
            res = np.zeros((3, Mx.shape[1]))
            sc = 0.0
            for r in self.rows:
                res += Mx[r, :]
                sc = max(sc, float(np.max(np.abs(Mx[r, :]))) if Mx.shape[1] else 0.0)
            out[name] = (res, sc, Mx)
        return out


def _maxabs(a):
    a = np.asarray(a, float)
    if a.size == 0:
        return 0.0
    m = float(np.max(np.abs(a)))
    return m if m == m else float("inf")


def check(case):
    seed = case.get("seed", 0)
    tier = case.get("tier", "quick")
    rod, system, Q = R.build(case, seed)
    ev = _Ev(rod, system, seed)
    fails = {}
    stats = {"max_ref_residual": 0.0, "max_inv_err_rel": 0.0, "max_resultant_rel": 0.0, "max_h_trans_err_rel": 0.0,
             "n_states": 0, "n_state_motion_pairs": 0}

    def fail(site, msg, data):
        if site not in fails:
            fails[site] = {"site": site, "msg": msg, "data": data}

    M = R.motions(tier, seed)
    bases = R.base_states(rod, Q, seed)
    strained = False
    force_nonzero = False

    # ---------------- stress-free reference (and every rigid motion of it)
    ref_states = [("id", Q)] + [(m[0], R.rigid_motion(rod, Q, m[1], m[2])) for m in M]
    for mname, q in ref_states:
        vals = ev.inv(q)
        vals.update({"h(q,0)": ev.h(q)["h(q,0)"]})
        for name, v in vals.items():
            if name == "c(q,la_c)":
                continue
            e = _maxabs(v)
            stats["max_ref_residual"] = max(stats["max_ref_residual"], e)
            if not e <= TOL_ZERO:
                fail(f"{name} at stress-free reference vs 0", f"|{name}| = {e:.3e} at reference moved by '{mname}'",
                     {"motion": mname, "value": e, "tol": TOL_ZERO})

    # ---------------- states
    def states():
        for bname, q in bases:
            yield (bname, None), q
        qd = bases[1][1]
        deltas = (0.2,) if tier == "quick" else (0.2, -0.35)
        for (i, d), s in R.single_deviations(qd, deltas):
            yield ("dev1", [i, d]), s
        if tier != "quick":
            for (a, b), s in R.pair_deviations_within_node(rod, qd, 0.2, -0.3):
                yield ("dev2", [a, b]), s

    for (sname, sdev), q in states():
        stats["n_states"] += 1
        base = ev.inv(q)
        hb = ev.h(q)
        if sname != "reference":
            if base["E_pot"][0] > 1e-6 or _maxabs(base["c(q,0)"]) > 1e-6 or _maxabs(base["g"]) > 1e-6:
                strained = True
        moved = [("id", q, True, base, hb)]
        for mname, c, pA, is_trans in M:
            qm = R.rigid_motion(rod, q, c, pA)
            stats["n_state_motion_pairs"] += 1
            vm = ev.inv(qm)
            for name, v in vm.items():
                sc = max(1.0, _maxabs(base[name]))
                e = _maxabs(v - base[name]) / sc
                stats["max_inv_err_rel"] = max(stats["max_inv_err_rel"], e)
                if not e <= TOL_INV:
                    fail(f"{name} vs value before rigid motion",
                         f"{name} changes by {e:.3e} (rel.) under '{mname}' at state {sname}{sdev or ''}",
                         {"motion": mname, "state": sname, "dev": sdev, "rel_err": e, "translation_only": bool(is_trans)})
            hm = None
            if is_trans:
                hm = ev.h(qm)
                for name, v in hm.items():
                    sc = max(1.0, _maxabs(hb[name]))
                    e = _maxabs(v - hb[name]) / sc
                    stats["max_h_trans_err_rel"] = max(stats["max_h_trans_err_rel"], e)
                    if not e <= TOL_INV:
                        fail(f"{name} vs value before translation",
                             f"{name} changes by {e:.3e} (rel.) under '{mname}' at state {sname}{sdev or ''}",
                             {"motion": mname, "state": sname, "dev": sdev, "rel_err": e})
            moved.append((mname, qm, is_trans, vm, hm))
        # zero force resultant at the state and at every moved copy
        res_id = None
        for mname, qm, is_trans, _, hm in moved:
            res = ev.resultants(qm, hb["h(q,0)"] if mname == "id" else (None if hm is None else hm["h(q,0)"]))
            if mname == "id":
                res_id = res
            elif is_trans:
                # internal force directions of the mixed / constrained formulations: W(q + c) = W(q)
                for name in ("W_c", "W_g"):
                    if name in res:
                        sc = max(1.0, res_id[name][1])
                        e = _maxabs(res[name][2] - res_id[name][2]) / sc
                        stats["max_h_trans_err_rel"] = max(stats["max_h_trans_err_rel"], e)
                        if not e <= TOL_INV:
                            fail(f"{name} vs value before translation",
                                 f"{name} changes by {e:.3e} (rel.) under '{mname}' at state {sname}{sdev or ''}",
                                 {"motion": mname, "state": sname, "dev": sdev, "rel_err": e})
            for name, (r, sc, _) in res.items():
                if sc > 1e-6:
                    force_nonzero = True
                e = _maxabs(r) / max(1.0, sc) / rod.nnodes_r
                stats["max_resultant_rel"] = max(stats["max_resultant_rel"], e)
                if not e <= TOL_RES:
                    fail(f"force resultant of {name} vs 0",
                         f"sum over nodes of the translational rows of {name} = {_maxabs(r):.3e} (entries up to {sc:.3e}) "
                         f"at state {sname}{sdev or ''} moved by '{mname}'",
                         {"motion": mname, "state": sname, "dev": sdev, "resultant": _maxabs(r), "scale": sc})

    # ---------------- a NEW stress-free reference given to the existing rod (set_reference_strains): the new reference must be
    # stress-free, the old one strained; restoring the old reference restores the old behaviour
    from vp.core.quiet import quiet

    other = "straight" if case["ref"] != "straight" else "helix"
    Q2 = np.asarray(R.reference(type(rod), case["nel"], other, seed), float)
    with quiet():
        rod.set_reference_strains(Q2.copy())
    vals = ev.inv(Q2)
    vals.update({"h(q,0)": ev.h(Q2)["h(q,0)"]})
    for name, v in vals.items():
        if name == "c(q,la_c)":
            continue
        e = _maxabs(v)
        stats["max_ref_residual"] = max(stats["max_ref_residual"], e)
        if not e <= TOL_ZERO:
            fail(f"{name} at a reference set with set_reference_strains vs 0", f"|{name}| = {e:.3e} at the new reference '{other}'",
                 {"new_reference": other, "value": e, "tol": TOL_ZERO})
    if not case["mixed"] and not case["cons"] and hasattr(rod, "eval_strains"):
        # the rod's own strain / sectional-force read-out (post-processing, stress export) follows the new reference too (seeded C10-m)
        for xi in (0.0, 0.3, 0.8, 1.0):
            try:
                eG, eK = rod.eval_strains(0.0, Q2[rod.qDOF], None, None, xi)
                Bn, Bm = rod.eval_stresses(0.0, Q2[rod.qDOF], None, None, xi)
            except Exception as ex:  # noqa
                fail("eval_strains / eval_stresses at a reference set with set_reference_strains raises", f"{type(ex).__name__}: {ex}", {"xi": xi})
                break
            e = max(_maxabs(eG), _maxabs(eK), _maxabs(Bn), _maxabs(Bm))
            ev.n += 2
            stats["max_ref_residual"] = max(stats["max_ref_residual"], e)
            if not e <= TOL_ZERO:
                fail("eval_strains / eval_stresses at a reference set with set_reference_strains vs 0", f"max |strain|, |sectional force| = {e:.3e} at xi = {xi}",
                     {"xi": xi, "value": e, "new_reference": other})
    if system.nla_c:
        # the new reference after a RE-ASSEMBLY: the force form la_c(q) and the compliance form c(q, la_c) of the mixed formulation must
        # still agree at a strained state (precomputed element tables must follow the reference; seeded C26-k)
        from cardillo.solver import SolverOptions

        with quiet():
            system.assemble(options=SolverOptions(compute_consistent_initial_conditions=False))
        qd = bases[1][1]
        la = np.asarray(system.la_c(0.0, qd, ev.u0), float)
        cres = _maxabs(system.c(0.0, qd, ev.u0, la))
        stats["max_c_at_la_c_after_reference_update"] = cres
        ev.n += 2
        if not cres <= 1e-10 * max(1.0, _maxabs(la)):
            fail("c(q, la_c(q)) vs 0 after set_reference_strains + re-assembly", f"|c(q, la_c(q))| = {cres:.3e} at the deformed state (|la_c| up to {_maxabs(la):.3e})",
                 {"value": cres, "new_reference": other})
    with quiet():
        rod.set_reference_strains(Q.copy())
    vals = ev.inv(Q)
    vals.update({"h(q,0)": ev.h(Q)["h(q,0)"]})
    for name, v in vals.items():
        if name != "c(q,la_c)" and not _maxabs(v) <= TOL_ZERO:
            fail(f"{name} at the restored reference vs 0", f"|{name}| = {_maxabs(v):.3e} after set_reference_strains(new); set_reference_strains(old)",
                 {"value": _maxabs(v), "tol": TOL_ZERO})

    # ---------------- a reference whose nodal quaternions are non-unit with norms differing from node to node (seeded C10-e)
    Qn = Q.copy()
    for k in range(rod.nnodes_p):
        d = rod.nodalDOF_p[k]
        Qn[d] *= (0.5, 2.0, 1.3)[k % 3]
    with quiet():
        rod.set_reference_strains(Qn.copy())
    vals = ev.inv(Qn)
    vals.update({"h(q,0)": ev.h(Qn)["h(q,0)"]})
    for name, v in vals.items():
        if name == "c(q,la_c)":
            continue
        e = _maxabs(v)
        stats["max_ref_residual"] = max(stats["max_ref_residual"], e)
        if not e <= TOL_ZERO:
            fail(f"{name} at a reference with non-unit nodal quaternions vs 0", f"|{name}| = {e:.3e} at the reference with nodal quaternions scaled by 0.5/2/1.3",
                 {"value": e, "tol": TOL_ZERO})
    # ---------------- a fresh rod built in a pre-deformed initial configuration q0 != Q: Q stays the stress-free one (seeded C10-f)
    rod2, system2, Qb = R.build(case, seed, q0=bases[1][1])
    ev2 = _Ev(rod2, system2, seed)
    vals = ev2.inv(Qb)
    vals.update({"h(q,0)": ev2.h(Qb)["h(q,0)"]})
    ev.n += ev2.n
    for name, v in vals.items():
        if name == "c(q,la_c)":
            continue
        e = _maxabs(v)
        stats["max_ref_residual"] = max(stats["max_ref_residual"], e)
        if not e <= TOL_ZERO:
            fail(f"{name} at the reference Q of a rod built with q0 != Q vs 0", f"|{name}| = {e:.3e} at Q for a rod constructed in a deformed initial configuration",
                 {"value": e, "tol": TOL_ZERO})
    stats["E_pot_at_deformed_q0"] = float(system2.E_pot(0.0, np.asarray(system2.q0, float)))

    return {
        "fails": list(fails.values()),
        "nontrivial": bool(strained and force_nonzero),
        "evals": ev.n,
        "outcome": R.form_class(case),
        "stats": stats,
    }
