"""C19  RATTLE is second order, drift-free and reversible on conservative systems.

E1 over executions of the real `Rattle` solver on conservative, contact-free systems.  Three oracles,
each recomputed by the harness from the stored rows only:
  order    E = 1/2 u^T M(q) u + E_pot(q) with the System's own M and E_pot; max |E - E0| over [0, T_ord] at
           dt, dt/2, dt/4 must shrink by about four per halving;
  drift    the running maximum of |E - E0| over [0, T] must not exceed C x the running maximum over [0, T/3]
           (a linear drift gives 3, a bounded oscillation 1; regular systems only);
  reverse  N steps forward, velocities reversed (System.set_new_initial_state on a fresh system), N steps
           forward again must return to (q0, -u0).
"""
import numpy as np

ID = "C19"
LEVEL = "exploration"
SYSTEMS = ["pm_pend", "spring_pend", "free_top", "rb_pend", "pm_chain", "double_pend", "slider_crank", "spring_pend_c"]
NONINTEGRABLE = {"double_pend", "pm_chain"}
SPRING = {"slider_crank": True}
NOGRAV = {"free_top"}
DTS = [0.02, 0.01, 0.005]
ORDER_DTS = [0.01, 0.005, 0.0025]  # finer than the design: at dt=.02 the dt^4 term moves the ratio by 10-15 %
T_ORD = 2.0
T_LONG = {"quick": 8.0, "thorough": 40.0}
T_REV = 1.0
RULE = (
    "conservative systems (8: point-mass pendulum/FixedDistance, elastic pendulum (force-form spring and compliance-form spring, no constraint), torque-free rigid body, "
    "rigid-body pendulum/Revolute, chain of 3 point masses, double pendulum/Spherical+Revolute, closed slider-crank loop with force-form spring) "
    "x 2 generic consistent initial velocities (moderate, fast; the seed rotates the letters; plus release from rest for the two rigid-body pendulums) x parts {order: dt=.01,.005,.0025 over T=2; "
    "drift: T=8 at dt=.02 (quick) / T=40 at all three dt (thorough); reverse: 1 s forward + 1 s back at each dt}; one case = one part; "
    "every stored row is an evaluated state; a part is non-trivial if its runs completed and the energy error is measurable (order/drift) "
    "or the state moved (reverse)"
)
ASSUMPTIONS = [
    "Newton tolerance 1e-12; 'up to the nonlinear-solver tolerance' is read as 1e-7 on q and u after 2 x (1 s / dt) steps (measured <= 1e-9)",
    "'about a factor four' is read as a ratio in [3, 5.3] of max|E - E0| over the same time window [0, 2]",
    "'no secular growth' is checked up to T only: running max of |E - E0| at T <= C x running max at T/3 + 1e-9 x energy scale, C = 2 (a linear "
    "drift gives 3, measured <= 1.1) for the systems with regular motion; for the two non-integrable ones (double pendulum, 3-chain) the energy "
    "error depends on the visited states (measured ratios up to 7.4 on the unchanged tree), the ratio is reported as a statistic only and "
    "they are judged by the order and reversibility oracles",
    "a system whose energy error is below 1e-9 x scale at every dt (torque-free body: the midpoint rule conserves quadratic invariants) is exempt "
    "from the ratio test and counted as 'exact'",
    "the energy is evaluated by the harness as 1/2 u^T M(q) u + System.E_pot (RigidBody reports no E_kin)",
    "the reversed run is started with System.set_new_initial_state(q_N, -u_N) on a fresh system (restart path of property C24)",
]
MIN_NONTRIVIAL = 40
MIN_OUTCOMES = 3
CASE_TIMEOUT = 1800

NEWTON_TOL = 1e-12
RATIO = (3.0, 5.3)
TOL_REV = 1e-7
FLOOR = 1e-9


def cases(tier, seed):
    out = []
    for scen in SYSTEMS:
        for level in (1, 2):
            base = {"scen": scen, "level": level, "seed": seed}
            out.append(dict(base, part="order", T=T_ORD))
            for dt in (DTS if tier == "thorough" else DTS[:1]):
                out.append(dict(base, part="drift", dt=dt, T=T_LONG[tier]))
            for dt in DTS:
                out.append(dict(base, part="reverse", dt=dt, T=T_REV))
    # released from REST (level 0): velocity-dependent force terms vanish, together with their Jacobian, in the initial state only
    # (a classification of the forces made once at t0 would be wrong; seeded C19-h)
    for scen in ("double_pend", "rb_pend"):
        base = {"scen": scen, "level": 0, "seed": seed}
        out.append(dict(base, part="order", T=T_ORD))
        out.append(dict(base, part="reverse", dt=DTS[1], T=T_REV))
    for scen in SYSTEMS[:1] + SYSTEMS[3:6]:
        out.append({"scen": scen, "level": 1, "seed": seed, "part": "continue", "dt": DTS[1], "T": 0.3})
    # the same experiments with the full Newton iteration (reuse_lu_decomposition=False) instead of the default chord iteration
    for scen in SYSTEMS[:3]:
        base = {"scen": scen, "level": 1, "seed": seed, "full_newton": True}
        out.append(dict(base, part="order", T=T_ORD))
        out.append(dict(base, part="reverse", dt=DTS[0], T=T_REV))
    order = {"order": 1, "reverse": 0, "drift": 2, "continue": 0}
    out.sort(key=lambda c: (order[c["part"]], SYSTEMS.index(c["scen"]), c["level"], -c.get("dt", 0)))
    return out


def _build(case):
    from vp.scen import integ

    scen = case["scen"]
    return integ.build(scen, SPRING.get(scen, False), case["level"], seed=case.get("seed", 0), grav=scen not in NOGRAV, opts=integ.options(NEWTON_TOL))


_KW = {}


def _run(system, dt, T):
    from vp.scen import integ

    N = int(round(T / dt))
    sol = integ.run(system, "Rattle", dt, N, opts=integ.options(NEWTON_TOL, **_KW))
    return N, np.asarray(sol.t, float), np.asarray(sol.q, float), np.asarray(sol.u, float)


def _energy(system, t, q, u):
    from vp.scen import integ

    return np.array([integ.energy(system, t[k], q[k], u[k]) for k in range(len(t))])


def _escale(system, t, q, u, E):
    M = system.M(t[0], q[0]).toarray()
    return max(1.0, abs(float(E[0])), 0.5 * float(u[0] @ M @ u[0]))


def _giveup(e):
    return isinstance(e, (RuntimeError, ValueError)) and "converge" in str(e).lower()


def check(case):
    from vp.core.quiet import quiet
    from vp.scen import integ

    scen, level, part = case["scen"], case["level"], case["part"]
    letters = {"scen": scen, "level": level, "part": part, "full_newton": bool(case.get("full_newton"))}
    _KW.clear()
    if case.get("full_newton"):
        _KW["reuse_lu_decomposition"] = False
    if "dt" in case:
        letters["dt"] = case["dt"]
    fails, stats = [], {}
    states = transitions = evals = 0

    def fail(site, msg, **data):
        fails.append({"site": site, "msg": f"{letters}: {msg}", "data": dict(letters, **data)})

    try:
        if part == "continue":
            # the same solver object used twice: a second solve() continues the first one; both together must be the run of
            # twice the length (solver state left behind by the first call; seeded C17-l, C19-l)
            import cardillo.solver as S

            dt = case["dt"]
            N = int(round(case["T"] / dt))
            sysA = _build(case)
            with quiet():
                so = S.Rattle(sysA, sysA.t0 + N * dt - 0.5 * dt, dt, options=integ.options(NEWTON_TOL, **_KW))
                a = so.solve()
                b = so.solve()
                sysB = _build(case)
                c = S.Rattle(sysB, sysB.t0 + 2 * N * dt - 0.5 * dt, dt, options=integ.options(NEWTON_TOL, **_KW)).solve()
            ta, tb, tc = np.asarray(a.t, float), np.asarray(b.t, float), np.asarray(c.t, float)
            qa, qb, qc = np.asarray(a.q, float), np.asarray(b.q, float), np.asarray(c.q, float)
            ua, ub, uc = np.asarray(a.u, float), np.asarray(b.u, float), np.asarray(c.u, float)
            states += len(ta) + len(tb) + len(tc)
            transitions += 4 * N
            evals += 3
            if not (len(ta) == len(tb) == N + 1 and len(tc) == 2 * N + 1):
                fail("Rattle: second solve() of one solver object has another length than the first", f"rows {len(ta)}, {len(tb)}, long run {len(tc)}")
            else:
                dj = max(float(np.max(np.abs(qb[0] - qa[-1]))), float(np.max(np.abs(ub[0] - ua[-1]))), float(abs(tb[0] - ta[-1])))
                dl = max(float(np.max(np.abs(np.vstack([qa, qb[1:]]) - qc))), float(np.max(np.abs(np.vstack([ua, ub[1:]]) - uc))),
                         float(np.max(np.abs(np.concatenate([ta, tb[1:]]) - tc))))
                stats["max_continue_join"], stats["max_continue_vs_long"] = dj, dl
                if dj > 1e-12:
                    fail("Rattle: second solve() does not start from the last state of the first", f"jump {dj:.3e} in (t, q, u)", jump=dj)
                if dl > TOL_REV:
                    fail("Rattle: two consecutive solve() calls differ from one run of twice the length", f"max deviation {dl:.3e}", dev=dl)
            return {"fails": fails, "nontrivial": True, "evals": evals, "states": states, "transitions": transitions, "outcome": "continue", "stats": stats}
        if part == "order":
            errs, scale = [], 1.0
            for dt in ORDER_DTS:
                system = _build(case)
                N, t, q, u = _run(system, dt, case["T"])
                if len(t) != N + 1:
                    return {"fails": [], "nontrivial": False, "outcome": "order:short", "stats": {"n_short": 1}}
                E = _energy(system, t, q, u)
                scale = _escale(system, t, q, u, E)
                errs.append(float(np.max(np.abs(E - E[0]))))
                states += len(t)
                transitions += N
                evals += len(t)
            stats["max_energy_err_over_scale"] = max(errs) / scale
            if max(errs) <= FLOOR * scale:
                stats["n_energy_exact"] = 1
                return {"fails": [], "nontrivial": False, "evals": evals, "states": states, "transitions": transitions, "outcome": "order:exact", "stats": stats}
            if min(errs) <= FLOOR * scale:
                fail("Rattle energy error vs second order: error vanishes at one step size only", f"max|E-E0| at dt={ORDER_DTS}: {errs}", errs=errs)
            else:
                r = [errs[0] / errs[1], errs[1] / errs[2]]
                stats["max_order_ratio"] = max(r)
                stats["min_order_ratio"] = min(r)
                for i, ri in enumerate(r):
                    if not (RATIO[0] <= ri <= RATIO[1]):
                        fail("Rattle energy error vs factor four per halving of dt", f"err(dt={ORDER_DTS[i]})/err(dt={ORDER_DTS[i + 1]}) = {ri:.3f} (errors {errs})",
                             ratio=ri, dt=ORDER_DTS[i], errs=errs)
            return {"fails": fails, "nontrivial": True, "evals": evals, "states": states, "transitions": transitions,
                    "outcome": "order:ok" if not fails else "order:violates", "stats": stats}

        if part == "drift":
            system = _build(case)
            N, t, q, u = _run(system, case["dt"], case["T"])
            if len(t) != N + 1:
                return {"fails": [], "nontrivial": False, "outcome": "drift:short", "stats": {"n_short": 1}}
            E = _energy(system, t, q, u)
            scale = _escale(system, t, q, u, E)
            dE = np.abs(E - E[0])
            env = np.maximum.accumulate(dE)
            a, b = float(env[N // 3]), float(env[-1])
            C = 2.0
            judged = scen not in NONINTEGRABLE
            ratio = b / (a + FLOOR * scale)
            key = "max_drift_ratio_nonintegrable" if scen in NONINTEGRABLE else "max_drift_ratio_regular"
            stats[key] = ratio
            stats["max_energy_err_over_scale"] = b / scale
            if judged and not b <= C * a + FLOOR * scale:
                fail("Rattle energy error vs no secular growth", f"running max |E-E0| at T/3: {a:.3e}, at T={case['T']}: {b:.3e} (allowed factor {C:g})",
                     first_third=a, full=b, factor=C)
            exact = b <= FLOOR * scale
            return {"fails": fails, "nontrivial": judged and not exact, "evals": len(t), "states": len(t), "transitions": N,
                    "outcome": "drift:exact" if exact else ("drift:diagnostic-only" if not judged else ("drift:ok" if not fails else "drift:violates")), "stats": stats}

        if part == "reverse":
            dt = case["dt"]
            system = _build(case)
            N, t, q, u = _run(system, dt, case["T"])
            if len(t) != N + 1:
                return {"fails": [], "nontrivial": False, "outcome": "reverse:short", "stats": {"n_short": 1}}
            back = _build(case)
            with quiet():
                back.set_new_initial_state(q[-1].copy(), -u[-1].copy(), t0=0.0, options=integ.options(NEWTON_TOL))
            N2, t2, q2, u2 = _run(back, dt, case["T"])
            if len(t2) != N + 1:
                return {"fails": [], "nontrivial": False, "outcome": "reverse:short", "stats": {"n_short": 1}}
            dq = float(np.max(np.abs(q2[-1] - q[0])))
            du = float(np.max(np.abs(u2[-1] + u[0])))
            stats["max_reverse_defect"] = max(dq, du)
            moved = float(np.max(np.abs(q[-1] - q[0]))) > 1e-3
            # the reversed run must also retrace the forward rows in between (diagnostic statistic)
            stats["max_retrace_defect"] = float(max(np.max(np.abs(q2[::-1] - q)), np.max(np.abs(u2[::-1] + u))))
            if not max(dq, du) <= TOL_REV:
                fail("Rattle forward-reverse-forward vs return to (q0, -u0)", f"|q - q0| = {dq:.3e}, |u + u0| = {du:.3e} after 2 x {N} steps", dq=dq, du=du, steps=N)
            return {"fails": fails, "nontrivial": moved, "evals": 2 * (N + 1), "states": 2 * (N + 1), "transitions": 2 * N,
                    "outcome": "reverse:ok" if not fails else "reverse:violates", "stats": stats}
    except Exception as e:  # noqa: BLE001
        if _giveup(e):
            return {"fails": [], "nontrivial": False, "outcome": f"{part}:gave-up", "stats": {"n_gave_up": 1}}
        raise
    raise KeyError(part)


def extra_coverage(results, tier, seed):
    gave = sum(1 for r in results if "gave-up" in str(r.get("outcome")) or "short" in str(r.get("outcome")))
    # vacuity guard; it must not mask violations that were found (exit 1 wins over exit 2)
    if gave > 0.2 * len(results) and not any(r.get("fails") for r in results):
        raise RuntimeError(f"vacuous: {gave} of {len(results)} parts did not complete")
    return {"step_sizes": DTS, "order_step_sizes": ORDER_DTS, "T_order": T_ORD, "T_drift": T_LONG[tier], "T_reverse": T_REV, "newton_tolerance": NEWTON_TOL,
            "parts_not_completed": gave, "tolerances": {"ratio": list(RATIO), "reverse": TOL_REV, "drift_factor_regular": 2.0}}
