"""C06  Contact gaps and slip velocities are geometric and consistently differentiated.

Engine E1.  Every contact configuration of the stated product (contact type x partners x plane
orientation/motion x radii x friction x anisotropy x offset x restitution) is built as a real assembled
System; inside a case the complete product of state letters (positions incl. touching/penetrating x
quaternions incl. non-unit and half turn x time letters) is evaluated through the System interface.

Oracles
 * geometry: independent reference kinematics (vp.scen.contacts.RefPart, no cardillo code): signed
   distance, velocity of the touching material points, n.(v2-v1);
 * time derivatives along the flow (q_dot(t,q,u), u_dot) by 5-point stencils through the System;
 * exact differences for the affine argument u (W_N, W_F, g_N_dot_u, gamma_F_u);
 * every q/u derivative the System exposes for contacts: equal to the stencil derivative, or
   NotImplementedError; any other exception / a mismatch is a fail.
Known sphere-sphere defects are characterised *by an independently computed prediction of the
residual* (data.explained_by), so any other error in the same routine still fails.
"""
import itertools
import os
import traceback
import numpy as np

from vp.core import fd
from vp.core.alphabet import weyl, generic_quat

# import the library in the parent process / worker initialiser, never inside a case: a case timeout (SIGALRM)
# that fires in the middle of a lazy first import leaves half-initialised modules behind in that worker
import cardillo  # noqa: F401,E402
import cardillo.contacts  # noqa: F401,E402
import cardillo.discrete  # noqa: F401,E402
import cardillo.solver  # noqa: F401,E402

ID = "C06"
LEVEL = "model_checking"
RULE = (
    "full product of contact configurations (sphere-plane: plane orientation {I, x90, y90, z90, generic} x "
    "{fixed, translating} x {RigidBody, PointMass} x r {0, .1, 1} x (mu, anisotropy) {(0,-), (.3,(1,1)), (.3,(1,.5))} x "
    "B_r_CP {0, generic} x restitution {default, (.5,.25)}; sphere-sphere: 8 partner pairs incl. fixed and "
    "translating+rotating frames x radii {(.5,.5), (.2,.8)} x mu {0, .5} x 3 reference separations x restitution; point-mass pair at length scales {1e-3, 1e-7} x mu {0, .5} with closed-form references); "
    "inside a case the full product positions (open / touching / penetrating / generic) x quaternion letters "
    "(integer quarter-turn non-unit, half turn, generic non-unit; thorough tier also identity and integer norm-2) x time "
    "letters; per state 4 (u, u_dot) letters for the time-derivative identities and one generic (u, u_dot, lambda) "
    "letter for the Jacobians.  A case is non-trivial if at least 10 derivative comparisons had a reference of "
    "magnitude > 1e-3"
)
ASSUMPTIONS = [
    "reference kinematics: c = r + A(p/|p|) B_r_CP, omega = A B_omega, material point velocity v_c + omega x (x - c)",
    "anisotropy scales the slip components (gamma_F = diag(a) [t1 t2]^T v_rel), as the constructor documents",
    "5-point real stencils (h, h/2) with measured error estimate; ill-conditioned letters are excluded and counted",
    "time derivative along the straight line (t+s, q+s q_dot, u+s u_dot) (second-order consistent path)",
    "sphere-sphere tangent basis is taken from Sphere2Sphere.t1t2 and only required to be orthonormal and normal to n",
    "states keep |c2-c1| >= 0.5 and |t2_ref x n| >= 0.3 (distance to the singular sets of the sphere-sphere basis)",
    "assembled with compute_consistent_initial_conditions=False (C16 covers the initial solve)",
]
MIN_NONTRIVIAL = 100
CASE_TIMEOUT = 900
H_FLOW = 3e-4  # stencil step along the flow (|direction| is O(1..5): q_dot, u_dot), coarser one is h/2

REPO = os.path.abspath(os.environ.get("VERIF_REPO", "/repo"))
HERE = os.path.dirname(os.path.dirname(os.path.dirname(os.path.abspath(__file__))))

ROTS = ["I", "x90", "y90", "z90", "generic"]
PAIRS = [("RB", "RB"), ("RB", "PM"), ("PM", "RB"), ("PM", "PM"), ("FRfix", "RB"), ("FRmov", "RB"), ("RB", "FRmov"), ("FRmov", "PM")]
# initial separations exactly along every signed coordinate axis (degenerate corner of the reference-basis choice; seeded C06-e)
SEPS = {"ex": (1.4, 0.0, 0.0), "ez": (0.0, 0.0, 1.2), "generic": (1.0, 0.5, -0.7), "-ex": (-1.4, 0.0, 0.0), "ey": (0.0, 1.3, 0.0), "-ey": (0.0, -1.3, 0.0), "-ez": (0.0, 0.0, -1.2)}
SEPS_NEW = ("-ex", "ey", "-ey", "-ez")


def cases(tier, seed):
    out = []
    rests = ["default", "e"]
    # ---------------- sphere - plane
    fr = [(0.0, None), (0.3, (1.0, 1.0)), (0.3, (1.0, 0.5))]
    for rot, motion, sub, r, (mu, an), brcp, rest in itertools.product(
            ROTS, ("fixed", "translating"), ("PM", "RB"), (0.0, 0.1, 1.0), fr, (False, True), rests):
        if tier == "quick" and rest == "default" and not (rot == "I" and r == 0.1):
            # quick tier: default restitution only on one orientation/radius (it only enters xi_N / xi_F)
            continue
        out.append({"contact": "s2p", "rot": rot, "motion": motion, "sub": sub, "r": r, "mu": mu,
                    "aniso": list(an) if an else [1.0, 1.0], "brcp": brcp, "rest": rest, "tier": tier, "seed": seed})
    # ---------------- sphere - sphere
    for pair, radii, mu, sep, rest in itertools.product(PAIRS, ((0.5, 0.5), (0.2, 0.8)), (0.0, 0.5), list(SEPS), rests):
        if tier == "quick" and rest == "default" and sep != "generic":
            continue
        if tier == "quick" and sep in SEPS_NEW and radii != (0.5, 0.5):
            continue
        out.append({"contact": "s2s", "pair": list(pair), "radii": list(radii), "mu": mu, "sep": sep, "rest": rest,
                    "tier": tier, "seed": seed})
        if sep == "generic" and rest == "default" and all(k in ("RB", "PM") for k in pair):
            # the same contact with the partners registered in the opposite order
            out.append({"contact": "s2s", "pair": list(pair), "radii": list(radii), "mu": mu, "sep": sep, "rest": rest,
                        "tier": tier, "seed": seed, "order": "21"})
    # ---------------- sphere - sphere at the small end of the length scale (sub-micrometre particles in SI units)
    for mu, scale in itertools.product((0.0, 0.5), (1e-3, 1e-7)):
        out.append({"contact": "s2s_tiny", "pair": ["PM", "PM"], "mu": mu, "scale": scale, "tier": tier, "seed": seed})
    # simplest first: point masses / no friction first
    out.sort(key=lambda c: (c["contact"], c["mu"] > 0, c.get("sub", "") == "RB", "RB" in c.get("pair", [])))
    return out


# ------------------------------------------------------------------------------------------------
class Rec:
    def __init__(self, case):
        self.case = case
        self.fails = {}
        self.nfail = {}
        self.evals = 0
        self.sig = 0
        self.outcomes = set()
        self.stats = {"n_illcond": 0, "n_states": 0, "n_states_skipped_guard": 0}

    def stat_max(self, k, v):
        if np.isfinite(v):
            self.stats[k] = max(self.stats.get(k, 0.0), float(v))

    def fail(self, site, msg, **data):
        key = (site, data.get("explained_by"), data.get("exc"))
        self.nfail[key] = self.nfail.get(key, 0) + 1
        if key not in self.fails:
            self.fails[key] = {"site": site, "msg": msg, "data": data}

    def result(self):
        fl = []
        for key, f in self.fails.items():
            f["data"]["n_states_failing"] = self.nfail[key]
            fl.append(f)
        return {"fails": fl, "nontrivial": self.sig >= 10, "evals": self.evals, "outcome": sorted(self.outcomes),
                "stats": self.stats}


def _close(R, site, got, ref, tol_rel, st, statkey, **data):
    """exact (to rounding) comparison"""
    R.evals += 1
    got = fd.dense(got)
    ref = fd.dense(ref)
    if got.shape != ref.shape:
        if got.size == ref.size:
            got = got.reshape(ref.shape)
        else:
            R.fail(site, f"shape {got.shape} != {ref.shape}", state=st, **data)
            return False
    e = fd.err(got, ref)
    sc = fd.scale_of(got, ref)
    R.stat_max(statkey, e / sc)
    if not (e <= tol_rel * sc):
        R.fail(site, f"error {e:.3e} > {tol_rel*sc:.1e} (routine {np.ravel(got)[:6]}, reference {np.ravel(ref)[:6]})",
               err=e, state=st, **data)
        return False
    return True


def _own_exception(e):
    """True if the last own (repo or harness) frame of the exception is harness code: then it is a harness bug
    and must not be blamed on cardillo"""
    last = None
    for fr in traceback.extract_tb(e.__traceback__):
        fn = os.path.abspath(fr.filename)
        if fn.startswith(REPO + os.sep):
            last = "repo"
        elif fn.startswith(HERE + os.sep):
            last = "own"
    return last != "repo"


def _deriv(R, name, oracle, call, ref, st, explain=None, cols=None):
    """routine `name` must equal the stencil derivative or raise NotImplementedError.
    call() -> routine value ; ref() -> (D, est) ; explain(residual, thr) -> str|None ; cols: the reference only
    has these columns (coordinates of the contact partners + one uninvolved one), all other columns of the
    routine must be exactly zero"""
    R.evals += 1
    try:
        val = fd.dense(call())
    except NotImplementedError:
        R.outcomes.add(f"{name}:NotImplementedError")
        return
    except Exception as e:  # noqa
        if _own_exception(e):
            raise
        R.outcomes.add(f"{name}:{type(e).__name__}")
        R.fail(f"{name} raises", f"{type(e).__name__}: {e}", exc=type(e).__name__, state=st,
               where=traceback.format_exc()[-400:])
        return
    D, est = ref()
    D = fd.dense(D)
    if cols is not None and val.ndim == 2 and val.shape[1] >= len(cols) and val.shape[0] == D.shape[0]:
        rest = np.delete(val, cols, axis=1)
        if rest.size and np.any(rest != 0):
            R.outcomes.add(f"{name}:mismatch")
            R.fail(f"{name} vs {oracle}", "non-zero entry in the column of a coordinate of an uninvolved body", state=st)
            return
        val = val[:, cols]
    if val.shape != D.shape:
        if val.size == D.size:
            val = val.reshape(D.shape)
        else:
            R.outcomes.add(f"{name}:shape")
            R.fail(f"{name} vs {oracle}", f"shape {val.shape} != {D.shape}", state=st)
            return
    v, e, thr = fd.verdict(val, D, est)
    if v == "illcond":
        R.stats["n_illcond"] += 1
        return
    if D.size and float(np.max(np.abs(D))) > 1e-3:
        R.sig += 1
    R.stat_max("max_est_fd", est)
    if v == "ok":
        R.stat_max("max_err_" + name, e)
        R.outcomes.add(f"{name}:exact" if D.size else f"{name}:empty")
        return
    why = None
    if explain is not None:
        why = explain(val - D, thr)
    R.outcomes.add(f"{name}:{'known-residual' if why else 'mismatch'}")
    R.fail(f"{name} vs {oracle}", f"error {e:.3e} > {thr:.1e}" + (f" (residual reproduced by: {why})" if why else ""),
           err=e, thr=thr, explained_by=why, state=st)


# ------------------------------------------------------------------------------------------------
# state letters
# ------------------------------------------------------------------------------------------------
def quat_letters(seed, k, tier):
    L = [
        ("int_z90_nonunit", np.array([1.0, 0, 0, 1.0])),
        ("halfturn", np.array([0.0, 1.0, 0, 0])),
        ("generic_nonunit", generic_quat(seed, 11 + k)),
    ]
    if tier != "quick":
        L += [("id", np.array([1.0, 0, 0, 0])), ("int_norm2", np.array([1.0, 1.0, -1.0, 1.0]))]
    return L


def uud_letters(seed, nu):
    """(u, u_dot) letters for the time-derivative identities"""
    z = np.zeros(nu)
    a = 1.5 * weyl(seed, 31, nu)
    b = 1.5 * weyl(seed, 32, nu)
    c = 2.0 * weyl(seed, 33, nu)
    d = 2.0 * weyl(seed, 34, nu)
    return [("u0_ud", z, c), ("u_ud0", a, z), ("uA_udC", a, c), ("uB_udD", b, d)]


def _glob_state(b, locs):
    """global q from local coordinates of the contact partners (pad body keeps its q0)"""
    s = b["system"]
    q = s.q0.copy()
    for sub, ql in locs:
        if len(ql):
            q[sub.qDOF] = ql
    return q


# ------------------------------------------------------------------------------------------------
# common derivative battery (through the System only)
# ------------------------------------------------------------------------------------------------
def _battery(R, b, t, q, st, k, seed, ref_gN_dot, explain):
    s = b["system"]
    con = b["contact"]
    nq, nu = s.nq, s.nu
    nN, nF = s.nla_N, s.nla_F
    X0 = lambda u: np.concatenate([[t], q, u])
    T = lambda x: x[0]
    Q = lambda x: x[1:1 + nq]
    U = lambda x: x[1 + nq:]
    # columns for q-Jacobians: coordinates of the contact partners + one coordinate of the uninvolved pad body
    cols = sorted(set(int(i) for i in con.qDOF) | {0})
    jq = lambda f: fd.jac(f, q, idx=cols)

    # ---- affine in u: force directions are the transposed velocity Jacobians
    ua = 1.5 * weyl(seed, 35, nu)
    for x0 in (None, ua):
        _close(R, "W_N vs transposed d/du g_N_dot", s.W_N(t, q).toarray().T,
               fd.affine_jac(lambda u: s.g_N_dot(t, q, u), nu, x0=x0).reshape(nN, nu), 1e-11, st, "max_err_W_N")
        _close(R, "W_F vs transposed d/du gamma_F", s.W_F(t, q).toarray().T,
               fd.affine_jac(lambda u: s.gamma_F(t, q, u), nu, x0=x0).reshape(nF, nu), 1e-11, st, "max_err_W_F")

    # ---- time derivative identities over the (u, u_dot) letters
    for nm, u, ud in uud_letters(seed, nu):
        stt = dict(st, uud=nm)
        qd = s.q_dot(t, q, u)
        V = np.concatenate([[1.0], qd, ud])
        x0 = X0(u)
        gd = s.g_N_dot(t, q, u)
        _close(R, "g_N_dot vs reference n.(v2-v1)", gd, ref_gN_dot(u), 1e-11, stt, "max_err_g_N_dot_ref")
        _deriv(R, "g_N_dot", "d/dt g_N", lambda: gd, lambda: fd.ddir(lambda x: s.g_N(T(x), Q(x)), x0, V, h=H_FLOW), stt)
        _deriv(R, "g_N_ddot", "d/dt g_N_dot", lambda: s.g_N_ddot(t, q, u, ud),
               lambda: fd.ddir(lambda x: s.g_N_dot(T(x), Q(x), U(x)), x0, V, h=H_FLOW), stt,
               explain=(lambda res, thr: explain("g_N_ddot", res, thr, u=u, ud=ud)) if explain else None)
        _deriv(R, "gamma_F_dot", "d/dt gamma_F", lambda: s.gamma_F_dot(t, q, u, ud),
               lambda: fd.ddir(lambda x: s.gamma_F(T(x), Q(x), U(x)), x0, V, h=H_FLOW), stt,
               explain=(lambda res, thr: explain("gamma_F_dot", res, thr, u=u, ud=ud)) if explain else None)

    # ---- Jacobians exposed by the System, one generic (u, u_dot, la) letter (index rotates with the state)
    u = 1.5 * weyl(seed, 41 + k % 3, nu)
    ud = 2.0 * weyl(seed, 44 + k % 3, nu)
    la_N = np.array([0.7 + 0.1 * (k % 3)])[:nN]
    la_F = (1.2 * weyl(seed, 47 + k % 3, 2))[:nF]
    # pre-impact state for xi: a different state
    q_pre = q + 0.05 * weyl(seed, 51, nq)
    u_pre = 1.5 * weyl(seed, 52, nu)
    t_pre = t - 0.1
    stj = dict(st, uud=f"jac{k % 3}")
    ex = (lambda nm: (lambda res, thr: explain(nm, res, thr, u=u, ud=ud, la_F=la_F, cols=cols))) if explain else (lambda nm: None)
    eq0 = np.zeros((0, len(cols)))

    # xi_N, xi_F definitions (Newton impact law combination)
    _close(R, "xi_N vs g_N_dot(post) + e_N g_N_dot(pre)", s.xi_N(t_pre, t, q_pre, q, u_pre, u),
           s.g_N_dot(t, q, u) + s.e_N * s.g_N_dot(t_pre, q_pre, u_pre), 1e-12, stj, "max_err_xi_N")
    if nF:
        _close(R, "xi_F vs gamma_F(post) + e_F gamma_F(pre)", s.xi_F(t_pre, t, q_pre, q, u_pre, u),
               s.gamma_F(t, q, u) + s.e_F * s.gamma_F(t_pre, q_pre, u_pre), 1e-12, stj, "max_err_xi_F")

    _deriv(R, "g_N_q", "d/dq g_N", lambda: s.g_N_q(t, q), lambda: jq(lambda x: s.g_N(t, x)), stj, cols=cols)
    _deriv(R, "xi_N_q", "d/dq_post xi_N", lambda: s.xi_N_q(t, q, u),
           lambda: jq(lambda x: s.xi_N(t_pre, t, q_pre, x, u_pre, u)), stj, cols=cols)
    _deriv(R, "Wla_N_q", "d/dq of W_N la_N", lambda: s.Wla_N_q(t, q, la_N),
           lambda: jq(lambda x: s.W_N(t, x).toarray() @ la_N), stj, cols=cols)
    _deriv(R, "g_N_dot_u", "d/du g_N_dot", lambda: s.g_N_dot_u(t, q),
           lambda: (fd.affine_jac(lambda x: s.g_N_dot(t, q, x), nu, x0=u).reshape(nN, nu), 0.0), stj)
    _deriv(R, "chi_N", "g_N_dot at u=0", lambda: s.chi_N(t, q), lambda: (s.g_N_dot(t, q, np.zeros(nu)), 0.0), stj)
    _deriv(R, "gamma_F_q", "d/dq gamma_F", lambda: s.gamma_F_q(t, q, u),
           lambda: jq(lambda x: s.gamma_F(t, x, u)) if nF else (eq0, 0.0), stj, explain=ex("gamma_F_q"), cols=cols)
    _deriv(R, "xi_F_q", "d/dq_post xi_F", lambda: s.xi_F_q(t, q, u),
           lambda: jq(lambda x: s.xi_F(t_pre, t, q_pre, x, u_pre, u)) if nF else (eq0, 0.0), stj,
           explain=ex("gamma_F_q"), cols=cols)
    _deriv(R, "gamma_F_u", "d/du gamma_F", lambda: s.gamma_F_u(t, q),
           lambda: (fd.affine_jac(lambda x: s.gamma_F(t, q, x), nu, x0=u).reshape(nF, nu), 0.0), stj)
    _deriv(R, "gamma_F_dot_q", "d/dq gamma_F_dot", lambda: s.gamma_F_dot_q(t, q, u, ud),
           lambda: jq(lambda x: s.gamma_F_dot(t, x, u, ud)) if nF else (eq0, 0.0), stj, cols=cols)
    _deriv(R, "gamma_F_dot_u", "d/du gamma_F_dot", lambda: s.gamma_F_dot_u(t, q, u, ud),
           lambda: fd.jac(lambda x: s.gamma_F_dot(t, q, x, ud), u) if nF else (np.zeros((0, nu)), 0.0), stj)
    _deriv(R, "Wla_F_q", "d/dq of W_F la_F", lambda: s.Wla_F_q(t, q, la_F),
           lambda: jq(lambda x: s.W_F(t, x).toarray() @ la_F), stj, explain=ex("Wla_F_q"), cols=cols)


# ------------------------------------------------------------------------------------------------
# sphere - plane
# ------------------------------------------------------------------------------------------------
def _check_s2p(case, R):
    from vp.scen import contacts as sc
    from vp.core.alphabet import quat_to_A

    seed, tier = case["seed"], case["tier"]
    rotq = dict(sc.rot_letters(seed))[case["rot"]]
    eN, eF = (None, None) if case["rest"] == "default" else (0.5, 0.25)
    b = sc.build_s2p(rotq, case["motion"], case["sub"], case["r"], case["mu"], case["aniso"], case["brcp"], seed, e_N=eN, e_F=eF)
    s, body = b["system"], b["body"]
    fr, part = b["parts"]
    A0, r, an = b["A0"], b["r"], b["aniso"]
    n, t1, t2 = A0[:, 2], A0[:, 0], A0[:, 1]
    B = part.B
    # positions of the sphere centre in plane coordinates (relative to the plane origin at t)
    lat = 0.6 * weyl(seed, 61, 2)
    pos = [("open", np.array([lat[0], lat[1], r + 0.5])), ("touching", np.array([-lat[1], lat[0], r])),
           ("penetrating", np.array([0.3, -0.2, r - 0.3])), ("generic", np.concatenate([1.3 * lat, [r + 0.37]]))]
    quats = quat_letters(seed, 0, tier) if case["sub"] == "RB" else [("-", None)]
    times = ([0.7] if tier == "quick" else [0.0, 0.7]) if case["motion"] == "translating" else [0.3]
    k = 0
    for (pn, pl), (qn, P), t in itertools.product(pos, quats, times):
        c = fr.f["r"](t) + A0 @ pl
        if case["sub"] == "RB":
            ql = np.concatenate([c - quat_to_A(P) @ B, P])
        else:
            ql = c - B
        q = _glob_state(b, [(body, ql)])
        st = {"pos": pn, "quat": qn, "t": t}
        R.stats["n_states"] += 1

        def refs(u):
            ul = u[body.uDOF]
            cc = part.c(t, ql)
            S = cc - r * n
            vS = part.v_material(t, ql, ul, S)
            vQ = fr.f["v"](t)
            return cc, part.v_c(t, ql, ul), vS, vQ

        # geometry: signed distance and tangential velocity of the touching material points
        cc = part.c(t, ql)
        _close(R, "g_N vs signed distance", s.g_N(t, q), [n @ (cc - fr.f["r"](t)) - r], 1e-12, st, "max_err_g_N_geom")
        if s.nla_F:
            for nm, u, _ in uud_letters(seed, s.nu):
                _, _, vS, vQ = refs(u)
                _close(R, "gamma_F vs tangential velocity of the touching material points", s.gamma_F(t, q, u),
                       an * np.array([t1 @ (vS - vQ), t2 @ (vS - vQ)]), 1e-12, dict(st, uud=nm), "max_err_gamma_F_geom")
        else:
            _close(R, "gamma_F vs tangential velocity of the touching material points", s.gamma_F(t, q, np.ones(s.nu)),
                   np.zeros(0), 1e-12, st, "max_err_gamma_F_geom")

        def ref_gd(u):
            _, vc, _, vQ = refs(u)
            return [n @ (vc - vQ)]

        _battery(R, b, t, q, st, k, seed, ref_gd, None)
        k += 1


# ------------------------------------------------------------------------------------------------
# sphere - sphere
# ------------------------------------------------------------------------------------------------
def _check_s2s(case, R):
    from vp.scen import contacts as sc

    seed, tier = case["seed"], case["tier"]
    eN, eF = (None, None) if case["rest"] == "default" else (0.5, 0.25)
    sep = np.array(SEPS[case["sep"]])
    r1, r2 = case["radii"]
    b = sc.build_s2s(tuple(case["pair"]), (r1, r2), case["mu"], sep, seed, e_N=eN, e_F=eF, order=case.get("order", "12"))
    s, con = b["system"], b["contact"]
    # a second, independent contact of the same kind whose frame partner sits elsewhere: it is evaluated at the same
    # (t, q) immediately before every state of the contact under test (objects must not share state)
    twin = None
    if any(kd.startswith("FR") for kd in case["pair"]):
        twin = sc.build_s2s(tuple(case["pair"]), (r1, r2), case["mu"], sep, seed + 3, e_N=eN, e_F=eF, shift=[0.4, -0.7, 0.5])["system"]
    sub1, sub2 = b["subs"]
    p1, p2 = b["parts"]
    kinds = case["pair"]
    t2_ref = con.reference_contact_basis[:, 1].copy()
    e = sep / np.linalg.norm(sep)
    lat = np.cross(e, [0.3, -0.5, 0.8])
    lat /= np.linalg.norm(lat)
    lat2 = np.cross(e, lat)
    # separation letters c2 - c1
    pos = [("reference", sep), ("touching", (r1 + r2) * e), ("penetrating", 0.85 * (r1 + r2) * e + 0.1 * lat),
           ("generic", 0.8 * sep + 0.45 * lat - 0.3 * lat2)]
    qu1 = quat_letters(seed, 1, tier) if kinds[0] == "RB" else [("-", None)]
    qu2 = quat_letters(seed, 2, tier) if kinds[1] == "RB" else [("-", None)]
    if kinds[0] == "RB" and kinds[1] == "RB":
        # two rigid bodies: the second body's letter is rotated against the first one's (every letter of both
        # bodies appears; pairs (i, i+1) and, thorough tier, (i, i+3)) instead of the full square
        m = len(qu1)
        qpairs = [(qu1[i], qu2[(i + d) % m]) for i in range(m) for d in ((1,) if tier == "quick" else (1, 3))]
    else:
        qpairs = list(itertools.product(qu1, qu2))
    moving = any(kd == "FRmov" for kd in kinds)
    times = ([0.7] if tier == "quick" else [0.0, 0.7]) if moving else [0.3]
    off = 0.3 * weyl(seed, 62, 3)
    k = 0
    for (pn, dvec), ((q1n, P1), (q2n, P2)), t in itertools.product(pos, qpairs, times):
        # centres: frames sit where they are; bodies are placed relative to them
        if kinds[0].startswith("FR"):
            c1 = p1.c(t, np.zeros(0))
            c2 = c1 + dvec
        elif kinds[1].startswith("FR"):
            c2 = p2.c(t, np.zeros(0))
            c1 = c2 - dvec
        else:
            c1 = b["c1"] + off
            c2 = c1 + dvec
        ql1 = np.zeros(0) if kinds[0].startswith("FR") else (np.concatenate([c1, P1]) if kinds[0] == "RB" else c1)
        ql2 = np.zeros(0) if kinds[1].startswith("FR") else (np.concatenate([c2, P2]) if kinds[1] == "RB" else c2)
        q = _glob_state(b, [(sub1, ql1), (sub2, ql2)])
        st = {"pos": pn, "quat": f"{q1n}|{q2n}", "t": t}
        d = p2.c(t, ql2) - p1.c(t, ql1)
        dist = np.linalg.norm(d)
        n = d / dist
        if dist < 0.5 or np.linalg.norm(np.cross(t2_ref, n)) < 0.3:
            R.stats["n_states_skipped_guard"] += 1
            continue
        R.stats["n_states"] += 1
        qloc = lambda qq: qq[con.qDOF]
        if twin is not None:
            try:
                uz = np.zeros(twin.nu)
                twin.g_N(t, q), twin.g_N_dot(t, q, uz), twin.W_N(t, q), twin.g_N_q(t, q)
                if case["mu"] > 0:
                    twin.gamma_F(t, q, uz), twin.W_F(t, q)
            except Exception:  # the twin is only a disturbance
                pass

        def kin(tt, qq, u):
            """reference: n, dist, v_c1, v_c2, omega1, omega2, v_rel of the touching material points"""
            a1, a2 = qq[sub1.qDOF], qq[sub2.qDOF]
            u1, u2 = u[sub1.uDOF], u[sub2.uDOF]
            cc1, cc2 = p1.c(tt, a1), p2.c(tt, a2)
            dd = cc2 - cc1
            L = np.linalg.norm(dd)
            nn = dd / L
            v1, v2 = p1.v_c(tt, a1, u1), p2.v_c(tt, a2, u2)
            o1, o2 = p1.omega(tt, a1, u1), p2.omega(tt, a2, u2)
            vrel = (v2 + np.cross(o2, -r2 * nn)) - (v1 + np.cross(o1, r1 * nn))
            return nn, L, v1, v2, o1, o2, vrel

        # ---- geometry
        _close(R, "g_N vs signed distance", s.g_N(t, q), [dist - r1 - r2], 1e-12, st, "max_err_g_N_geom")
        if s.nla_F:
            tt1, tt2 = con.t1t2(t, qloc(q))
            Bm = np.array([tt1, tt2, n])
            _close(R, "tangent basis orthonormal and normal to n", Bm @ Bm.T, np.eye(3), 1e-12, st, "max_err_basis")
            for nm, u, _ in uud_letters(seed, s.nu):
                vrel = kin(t, q, u)[6]
                g = s.gamma_F(t, q, u)
                _close(R, "gamma_F vs tangential velocity of the touching material points", tt1 * g[0] + tt2 * g[1],
                       vrel - n * (n @ vrel), 1e-12, dict(st, uud=nm), "max_err_gamma_F_geom")

        def ref_gd(u):
            nn, L, v1, v2 = kin(t, q, u)[:4]
            return [nn @ (v2 - v1)]

        # ---- predicted residuals of the known defects (computed independently of the routine under test)
        memo = {}

        def t_rates(u):
            """d/dt of the tangent basis along the flow (stencil on Sphere2Sphere.t1t2)"""
            qd = s.q_dot(t, q, u)
            x0 = np.concatenate([[t], q])
            V = np.concatenate([[1.0], qd])
            D, est = fd.ddir(lambda x: np.array(con.t1t2(x[0], qloc(x[1:]))), x0, V, h=H_FLOW)
            return D

        def t_q_error():
            """(claimed - true) q-derivative of t1, t2, scattered to global columns"""
            if "E" not in memo:
                ql = qloc(q)
                a = con.t1t2_q1_q2(t, ql)
                claimed = [np.hstack([a[0], a[1]]), np.hstack([a[2], a[3]])]
                J, est = fd.jac(lambda x: np.array(con.t1t2(t, x)), ql)  # (2,3,nql)
                outl = []
                for i in range(2):
                    E = np.zeros((3, s.nq))
                    E[:, con.qDOF] = claimed[i] - J[i]
                    outl.append(E)
                memo["E"] = outl
            return memo["E"]

        def explain(name, res, thr, u=None, ud=None, la_F=None, cols=None):
            tol = max(10 * thr, 1e-7)
            nn, L, v1, v2, o1, o2, vrel = kin(t, q, u)
            ndot = (np.eye(3) - np.outer(nn, nn)) @ (v2 - v1) / L
            if name == "g_N_ddot":
                pred = -ndot @ (v2 - v1)
                R.stat_max("max_err_residual_prediction", abs(res.ravel()[0] - pred))
                return "missing n_dot.(v2-v1)" if abs(res.ravel()[0] - pred) <= tol else None
            if name == "gamma_F_dot":
                td = t_rates(u)
                tt = np.array(con.t1t2(t, qloc(q)))
                extra = np.cross(o2, -r2 * ndot) - np.cross(o1, r1 * ndot)
                pred = -(td @ vrel + tt @ extra)
                R.stat_max("max_err_residual_prediction", np.max(np.abs(res.ravel() - pred)))
                return "missing n_dot and t_dot terms" if np.max(np.abs(res.ravel() - pred)) <= tol else None
            if name == "gamma_F_q":
                E = t_q_error()
                pred = np.array([vrel @ E[0], vrel @ E[1]])[:, cols]
                R.stat_max("max_err_residual_prediction", np.max(np.abs(res - pred)))
                return "t1t2_q1_q2 error" if np.max(np.abs(res - pred)) <= tol else None
            if name == "Wla_F_q":
                E = t_q_error()
                G = fd.affine_jac(lambda x: kin(t, q, x)[6], s.nu)  # 3 x nu
                pred = (G.T @ (la_F[0] * E[0] + la_F[1] * E[1]))[:, cols]
                R.stat_max("max_err_residual_prediction", np.max(np.abs(res - pred)))
                return "t1t2_q1_q2 error" if np.max(np.abs(res - pred)) <= tol else None
            return None

        _battery(R, b, t, q, st, k, seed, ref_gd, explain)
        k += 1

    # a deep copy of the system that is re-initialised in another configuration (its reference contact basis differs from the
    # original's): on the copy the slip velocity is still affine in u with the copy's own force directions (seeded C06-l)
    if s.nla_F and all(kd in ("RB", "PM") for kd in kinds):
        from cardillo.solver import SolverOptions

        try:
            s2 = s.deepcopy()
            qn = np.array(s.q0, float).copy()
            b2 = sub2
            qn[b2.qDOF[:3]] = qn[b2.qDOF[:3]] + np.cross(sep, [0.2, -0.4, 0.7]) + 0.3 * sep
            s2.set_new_initial_state(qn, np.zeros(s.nu), options=SolverOptions(compute_consistent_initial_conditions=False))
            tq = s2.t0
            for nm, u, _ in uud_letters(seed, s.nu)[:3]:
                for qq in (qn, np.array(s.q0, float)):
                    lhs = np.asarray(s2.gamma_F(tq, qq, u), float) - np.asarray(s2.gamma_F(tq, qq, np.zeros(s.nu)), float)
                    rhs = fd.dense(s2.W_F(tq, qq)).T @ u
                    _close(R, "gamma_F(u) - gamma_F(0) vs W_F^T u on a re-initialised deep copy", lhs, rhs, 1e-11, {"uud": nm}, "max_err_copy_gamma_F")
        except Exception as e:  # noqa
            if _own_exception(e):
                raise
            R.fail("deep copy + set_new_initial_state of a system with a sphere-sphere contact raises", f"{type(e).__name__}: {e}", exc=type(e).__name__)


def _check_s2s_tiny(case, R):
    """two point masses carrying spheres of radii 0.2 L and 0.25 L with centre distances 0.4 L .. 0.6 L: closed-form references only,
    judged relative to the length / velocity scale of the model"""
    from vp.scen import contacts as sc

    seed, L, mu = case["seed"], case["scale"], case["mu"]
    r1, r2 = 0.2 * L, 0.25 * L
    e = np.array([1.0, 2.0, -2.0]) / 3.0
    b = sc.build_s2s(("PM", "PM"), (r1, r2), mu, 0.5 * L * e, seed)
    s = b["system"]
    sub1, sub2 = b["subs"]
    lat = np.cross(e, [0.3, -0.5, 0.8])
    lat /= np.linalg.norm(lat)
    t = 0.3
    k = 0
    for fac, tilt in itertools.product((0.6, 0.5, 0.45, 0.4), (0.0, 0.2)):
        k += 1
        c1 = np.asarray(b["c1"], float)
        c2 = c1 + fac * L * (e + tilt * lat) / np.linalg.norm(e + tilt * lat)
        q = _glob_state(b, [(sub1, c1), (sub2, c2)])
        d = q[sub2.qDOF] - q[sub1.qDOF]
        dist = float(np.linalg.norm(d))
        n = d / dist
        st = {"scale": L, "centre_distance_over_scale": fac, "tilt": tilt}
        R.stats["n_states"] += 1
        for ul, u in (("gen", weyl(seed, 70 + k, s.nu)), ("gen_small", L * weyl(seed, 80 + k, s.nu))):
            st_u = dict(st, u=ul)
            vrel = u[sub2.uDOF] - u[sub1.uDOF]
            vs = float(np.linalg.norm(vrel)) + 1e-300
            R.evals += 3
            R.sig += 3
            gN = float(np.ravel(fd.dense(s.g_N(t, q)))[0])
            if not abs(gN - (dist - r1 - r2)) <= 1e-8 * L:
                R.fail("g_N vs signed distance [small length scale]", f"{gN!r} vs {dist - r1 - r2!r} at scale {L:g}", state=st_u, err=abs(gN - (dist - r1 - r2)))
            gd = float(np.ravel(fd.dense(s.g_N_dot(t, q, u)))[0])
            if not abs(gd - n @ vrel) <= 1e-8 * vs:
                R.fail("g_N_dot vs n.(v2 - v1) [small length scale]", f"{gd!r} vs {float(n @ vrel)!r} at scale {L:g}", state=st_u, err=abs(gd - n @ vrel))
            wn = float(np.ravel(fd.dense(s.W_N(t, q)).T @ u)[0])
            if not abs(wn - n @ vrel) <= 1e-8 * vs:
                R.fail("W_N^T u vs n.(v2 - v1) [small length scale]", f"{wn!r} vs {float(n @ vrel)!r} at scale {L:g}", state=st_u, err=abs(wn - n @ vrel))
            if mu > 0:
                R.evals += 1
                gF = np.ravel(fd.dense(s.gamma_F(t, q, u)))
                vt = vrel - n * (n @ vrel)
                if not abs(float(np.linalg.norm(gF)) - float(np.linalg.norm(vt))) <= 1e-8 * vs:
                    R.fail("|gamma_F| vs tangential relative speed [small length scale]", f"{np.linalg.norm(gF)!r} vs {np.linalg.norm(vt)!r} at scale {L:g}",
                           state=st_u, err=abs(float(np.linalg.norm(gF)) - float(np.linalg.norm(vt))))
    R.outcomes.add("s2s_tiny")


def check(case):
    import warnings

    warnings.simplefilter("ignore")
    R = Rec(case)
    if case["contact"] == "s2p":
        _check_s2p(case, R)
    elif case["contact"] == "s2s_tiny":
        _check_s2s_tiny(case, R)
    else:
        _check_s2s(case, R)
    return R.result()
