"""C09  Scalar force laws default to a stress-free initial configuration.

Engine E1, finite and complete: every force-law class x form, on every documented subsystem type
(TwoPointInteraction over 5 pairings x 3 initial distances, Revolute over 2 pairings x 4 angle0 x
3 axes), in every registration variant (subsystem added to the System before the law / after the law /
only wrapped by the law), with rest and with a common rigid translation as initial velocity.

The property is about the DEFAULT reference path (l_ref=None).  To separate it from registration
requirements that have nothing to do with l_ref, every configuration is built twice: once with
l_ref=None and once with an explicit l_ref computed by the harness from the geometry.  If the explicit
twin does not assemble either, the registration variant is unsupported regardless of l_ref and the
case is excluded from the verdict (counted as outcome 'registration-unsupported'); if the explicit twin
assembles and the default one does not, that is a violation.
"""
import math

import numpy as np

from vp.core import alphabet as ab
from vp.scen import joints as J

ID = "C09"
LEVEL = "model_checking"
RULE = (
    "full product {Spring, KelvinVoigt} x {compliance, force form} + Maxwell, x (TwoPointInteraction over 5 pairings "
    "x 3 initial distances | Revolute over 2 pairings x angle0 in {0,.3,-2,7} x 3 axes) x 3 registration variants "
    "x initial velocity (rest; plus a common translation where both partners are movable); each built with l_ref=None and with an explicit harness-"
    "computed l_ref. A case is non-trivial if the explicit-l_ref twin assembles (the registration is usable at all)"
)
ASSUMPTIONS = [
    "stress-free means: l_ref == l(t0,q0) (harness geometry), la_c/force == 0, E_pot == 0, law contribution to h == 0 at (t0,q0,u0)",
    "u0 has zero relative velocity between the two attachment points (rest, or one common translation of everything movable)",
    "a registration variant that cannot be assembled even with an explicit l_ref is outside the verdict (counted)",
    "Maxwell damper elongation q0 is left at its default 0",
]
MIN_NONTRIVIAL = 100
MIN_OUTCOMES = 1  # on a tree without defects every configuration is "stress_free"
TOL = 1e-12

LAWS = [("Spring", True), ("Spring", False), ("KelvinVoigt", True), ("KelvinVoigt", False), ("Maxwell", None)]
TPI_PAIRS = ["O-PM", "O-RB", "RB-RB", "PM-PM", "Fm-RB", "O-ROD"]
REV_PAIRS = ["O-RB", "RB-RB"]
REV_PAIRS_ROD = ["RB-ROD", "ROD-RB"]  # rod cross-section (several elements) as joint partner (seeded C09-h)
DISTS = [0.05, 1.0, 7.5, 5e-5, 2e-6]  # incl. micro-scale separations (seeded C09-i)
ANGLE0 = [0.0, 0.3, -2.0, 7.0]
REGS = ["sub_before_law", "sub_after_law", "sub_only_wrapped"]
VELS = ["rest", "common_translation"]


def _both_movable(pair):
    return all(k in ("PM", "RB", "ROD") for k in pair.split("-"))


def cases(tier, seed):
    out = []
    for law, form in LAWS:
        for reg in REGS:
            for vel in VELS:
                for pair in TPI_PAIRS:
                    if vel == "common_translation" and not _both_movable(pair):
                        continue
                    for d in DISTS:
                        out.append({"law": law, "compliance": form, "sub": "tpi", "pair": pair, "dist": d, "reg": reg, "vel": vel, "seed": seed})
                for pair in REV_PAIRS + REV_PAIRS_ROD:
                    if vel == "common_translation" and not _both_movable(pair):
                        continue
                    if pair in REV_PAIRS_ROD and (vel != "rest" or reg != "sub_before_law"):
                        continue
                    for a0 in ANGLE0:
                        for axis in (0, 1, 2):
                            out.append({"law": law, "compliance": form, "sub": "revolute", "pair": pair, "angle0": a0, "axis": axis, "reg": reg, "vel": vel, "seed": seed})
    # simplest first: rest, documented registration, then the rest (stable sort)
    # multi-step history: the subsystem is assembled first, the system is re-initialised in another configuration
    # (set_new_initial_state) and only then the force law is attached: the default reference must be taken
    # from the configuration that is initial NOW
    for law, form in LAWS:
        for pair in TPI_PAIRS:
            if pair.split("-")[1] not in ("PM", "RB"):
                continue
            out.append({"law": law, "compliance": form, "sub": "tpi", "pair": pair, "dist": DISTS[1], "reg": "law_after_reinit", "vel": "rest", "seed": seed})
            out.append({"law": law, "compliance": form, "sub": "tpi", "pair": pair, "dist": DISTS[1], "reg": "second_law_after_reinit", "vel": "rest", "seed": seed})
        for pair in REV_PAIRS:
            for a0 in ANGLE0[:2]:
                for axis in (0, 1, 2):
                    out.append({"law": law, "compliance": form, "sub": "revolute", "pair": pair, "angle0": a0, "axis": axis, "reg": "law_after_reinit", "vel": "rest", "seed": seed})
    # an EXPLICIT reference of exactly zero is a value, not "no value": it must be honoured (seeded C16-q, C23-q)
    for law, form in LAWS:
        if law == "Maxwell":
            continue
        for pair in ("O-PM", "RB-RB"):
            out.append({"law": law, "compliance": form, "sub": "tpi", "pair": pair, "dist": DISTS[1], "reg": "sub_before_law", "vel": "rest", "seed": seed, "explicit_zero": True})
        out.append({"law": law, "compliance": form, "sub": "revolute", "pair": "O-RB", "angle0": 0.3, "axis": 1, "reg": "sub_before_law", "vel": "rest", "seed": seed, "explicit_zero": True})
    order = REGS + ["law_after_reinit", "second_law_after_reinit"]
    out.sort(key=lambda c: (c["vel"] != "rest", order.index(c["reg"]), c["sub"] != "tpi"))
    return out


def _build(case, explicit, l_ref_value=None):
    """returns (system, law, sub, l_expected, movable) ; raises whatever cardillo raises"""
    from cardillo import System
    from cardillo.force_laws import KelvinVoigtElement, MaxwellElement, Spring
    from cardillo.interactions import TwoPointInteraction

    seed = case["seed"]
    system = System(t0=J.T0)
    vcommon = ab.generic_vec(seed, 5, 3, 1.0) if case["vel"] == "common_translation" else np.zeros(3)
    k1, k2 = case["pair"].split("-")
    bodies = []

    def mk(kind, slot, q0=None):
        if kind in ("O",):
            return system.origin
        s = J.make_subsystem(kind, seed, slot, system, q0=q0)
        bodies.append(s)
        return s

    if case["sub"] == "tpi":
        d = case["dist"]
        n = ab.generic_unit(seed, 3)
        off1 = ab.generic_vec(seed, 6, 3, 0.3) if k1 in ("RB", "Fm") else np.zeros(3)
        off2 = ab.generic_vec(seed, 7, 3, 0.3) if k2 in ("RB",) else np.zeros(3)
        s1 = mk(k1, 1)
        # attachment point 1 in the initial configuration (harness geometry, independent rotation)
        if k1 == "O":
            P1 = np.zeros(3)
        elif k1 == "PM":
            P1 = np.asarray(s1.q0, float)
        elif k1 == "RB":
            P1 = s1.q0[:3] + ab.quat_to_A(s1.q0[3:]) @ off1
        elif k1 == "Fm":
            f = s1._verif_fns
            P1 = f.r(J.T0) + f.A(J.T0) @ off1
        P2 = P1 + d * n
        xi2 = None
        if k2 == "PM":
            s2 = mk("PM", 2, q0=P2)
        elif k2 == "RB":
            quat = ab.generic_quat(seed, 8)
            s2 = mk("RB", 2, q0=np.concatenate([P2 - ab.quat_to_A(quat) @ off2, quat]))
        elif k2 == "ROD":
            s2 = mk("ROD", 2)
            xi2 = 1.0
            nn = 5
            # move the whole rod so that its tip node sits at P2 (nodal positions are component-major)
            tip = np.array([s2.q0[4], s2.q0[9], s2.q0[14]])
            for c in range(3):
                s2.q0[c * nn : (c + 1) * nn] += (P2 - tip)[c]
        kw = {}
        if np.any(off1):
            kw["B_r_CP1"] = off1
        if np.any(off2):
            kw["B_r_CP2"] = off2
        sub = TwoPointInteraction(s1, s2, xi2=xi2, **kw)
        l_expected = d
    else:
        axis = case["axis"]
        s1 = mk(k1, 1)
        s2 = mk(k2, 2)
        A_IJ0 = J.generic_rotation(seed, 9)
        r_OJ0 = ab.generic_vec(seed, 10, 3, 0.5)
        xi1 = 0.5 if k1 == "ROD" else None  # nodal parameters: assembly normalises nodal quaternions, which changes interior orientations
        xi2 = 1.0 if k2 == "ROD" else None
        sub = J.make_joint("Revolute", axis, s1, s2, xi1=xi1, xi2=xi2, r_OJ0=r_OJ0, A_IJ0=A_IJ0, angle0=case["angle0"])
        l_expected = case["angle0"]

    # initial velocities: common translation of everything (only generated for pairs of two movable bodies)
    has_moving_frame = "Fm" in (k1, k2)
    for b in bodies:
        if hasattr(b, "nu") and b.nu:
            u0 = np.zeros(b.nu)
            if b.__class__.__name__ == "PointMass":
                u0[:3] = vcommon
            elif b.__class__.__name__ == "RigidBody":
                u0[:3] = vcommon
            else:  # rod: nodal velocities, component-major
                nn = 5
                for c in range(3):
                    u0[c * nn : (c + 1) * nn] = vcommon[c]
            b.u0 = u0

    if case["sub"] == "tpi" and k1 == "Fm":
        # zero relative velocity w.r.t. the prescribed frame: body 2 translates with the frame's attachment point
        f = s1._verif_fns
        u0 = np.zeros(s2.nu)
        u0[:3] = f.r_t(J.T0) + f.A_t(J.T0) @ off1
        s2.u0 = u0

    l_ref = (l_expected if l_ref_value is None else l_ref_value) if explicit else None
    if case["law"] == "Spring":
        law = Spring(sub, 11.0, l_ref=l_ref, compliance_form=case["compliance"])
    elif case["law"] == "KelvinVoigt":
        law = KelvinVoigtElement(sub, 11.0, 0.7, l_ref=l_ref, compliance_form=case["compliance"])
    else:
        law = MaxwellElement(sub, 11.0, 0.7, l_ref=l_ref, q0=np.zeros(1))

    items = list(bodies)
    if case["reg"] in ("law_after_reinit", "second_law_after_reinit"):
        if case["reg"] == "second_law_after_reinit":
            # the interaction is NOT a contribution of its own: a first law (explicit l_ref) wraps and assembles it; after the
            # re-initialisation a second law without l_ref is attached to the same interaction object (seeded C09-m)
            first = Spring(sub, 7.0, l_ref=l_expected, compliance_form=False, name="first_law")
            system.add(*(items + [first]))
        else:
            system.add(*(items + [sub]))
        J.assemble(system)
        q = np.array(system.q0, float).copy()
        qd = s2.qDOF
        if case["sub"] == "tpi":
            shift = 0.2
            q[qd[:3]] = q[qd[:3]] + shift * n
            l_expected = d + shift
        else:
            delta = 0.4
            axI = A_IJ0[:, axis]
            qR = ab.axis_angle_quat(axI, delta)
            R = ab.quat_to_A(qR)
            q[qd[:3]] = r_OJ0 + R @ (q[qd[:3]] - r_OJ0)
            q[qd[3:7]] = ab.quat_mul(qR, q[qd[3:7]])
            l_expected = case["angle0"] + delta
        from vp.core.quiet import quiet

        with quiet():
            system.set_new_initial_state(q, np.array(system.u0, float).copy())
        if l_ref is not None:
            law.l_ref = l_expected
        system.add(law)
        J.assemble(system)
        return system, law, sub, l_expected, has_moving_frame
    if case["reg"] == "sub_before_law":
        items += [sub, law]
    elif case["reg"] == "sub_after_law":
        items += [law, sub]
    else:
        items += [law]
    system.add(*items)
    J.assemble(system)
    return system, law, sub, l_expected, has_moving_frame


def _exc_info(e):
    import traceback

    tb = traceback.extract_tb(e.__traceback__)
    last = tb[-1] if tb else None
    return {"exc": type(e).__name__, "exc_msg": str(e)[:200], "where": f"{last.filename.split('/cardillo/')[-1]}:{last.name}" if last else "?"}


def check_explicit_zero(case):
    """l_ref = 0.0 given explicitly: the law keeps it and is loaded by the full initial length / angle"""
    c = dict(case)
    system, law, sub, l_expected, _ = _build(c, explicit=True, l_ref_value=0.0)
    fails = []
    lr = float(np.asarray(law.l_ref).reshape(-1)[0]) if law.l_ref is not None else float("nan")
    if not lr == 0.0:
        fails.append({"site": "explicit l_ref = 0 is not kept", "msg": f"l_ref = {law.l_ref!r} after assembly (initial length/angle {l_expected})", "data": {"l_ref": lr, "l0": l_expected}})
    t0 = system.t0
    q0, u0 = J.raw_q0(system)
    if case["compliance"]:
        f = float(np.asarray(system.la_c(t0, q0, u0), float)[law.la_cDOF].reshape(-1)[0])
    else:
        f = float(np.asarray(law.la_c(t0, q0[law.qDOF], u0[law.uDOF])).reshape(-1)[0])
    want = -11.0 * l_expected
    if not abs(f - want) <= 1e-10 * max(1.0, abs(want)):
        fails.append({"site": "force of a law with explicit l_ref = 0 vs -k l(t0,q0)", "msg": f"force {f!r}, expected {want!r}", "data": {"force": f, "want": want}})
    return {"fails": fails, "nontrivial": True, "evals": 2, "outcome": "explicit-zero:" + ("ok" if not fails else "fail")}


def check(case):
    if case.get("explicit_zero"):
        return check_explicit_zero(case)
    fails = []
    evals = 0
    # the explicit twin decides whether this registration is usable at all
    try:
        _build(case, explicit=True)
        explicit_ok = True
        explicit_err = None
    except Exception as e:  # noqa
        explicit_ok = False
        explicit_err = _exc_info(e)
    evals += 1
    if not explicit_ok and case["reg"] == "sub_before_law":
        # the documented registration order on a supported pairing with a legitimate geometry: must assemble (also with l_ref=None)
        try:
            _build(case, explicit=False)
            default_ok = True
        except Exception:  # noqa
            default_ok = False
        if not default_ok:
            return {"fails": [{"site": "documented registration does not assemble (neither with explicit nor with default l_ref)",
                               "msg": f"{explicit_err['exc']}: {explicit_err['exc_msg']} (in {explicit_err['where']})", "data": explicit_err}],
                    "nontrivial": True, "evals": evals + 1, "outcome": "documented-registration-crash:" + explicit_err["exc"]}
    if not explicit_ok:
        return {"fails": [], "nontrivial": False, "evals": evals, "outcome": "registration-unsupported:" + explicit_err["exc"],
                "excluded": "registration variant does not assemble even with an explicit l_ref",
                "stats": {"n_registration_unsupported": 1}}
    try:
        system, law, sub, l_expected, _ = _build(case, explicit=False)
    except Exception as e:  # noqa
        info = _exc_info(e)
        fails.append({"site": "assemble with l_ref=None raises vs explicit l_ref assembles",
                      "msg": f"{info['exc']}: {info['exc_msg']} (in {info['where']})", "data": info})
        return {"fails": fails, "nontrivial": True, "evals": evals + 1, "outcome": "default-path-crash:" + info["exc"]}
    evals += 1
    t0 = system.t0
    q0, u0 = J.raw_q0(system)
    st = {}
    # 1. the reference the default picked
    lr = law.l_ref
    e_ref = abs(float(np.asarray(lr).reshape(-1)[0]) - l_expected) if lr is not None else float("inf")
    st["max_err_l_ref"] = e_ref
    if not e_ref <= 1e-10 * max(1.0, abs(l_expected)):
        fails.append({"site": "default l_ref vs l(t0,q0) from harness geometry", "msg": f"l_ref={lr} expected {l_expected}",
                      "data": {"l_ref": lr, "expected": l_expected}})
    # 2. force, energy, generalized force through the System at (t0, raw q0, u0) and at system.q0/u0
    scale = 11.0 * max(1.0, abs(l_expected))
    for label, (q, u) in (("raw", (q0, u0)), ("assembled", (system.q0, system.u0))):
        E = float(system.E_pot(t0, q))
        h = np.asarray(system.h(t0, q, u), float)
        # subtract what is not the law's: gyroscopic terms of bodies (zero here: no angular velocity), rod internal forces
        h_other = np.zeros(system.nu)
        E_other = 0.0
        for c in system.contributions:
            if c is law:
                continue
            if hasattr(c, "h") and callable(c.h) and hasattr(c, "uDOF"):
                h_other[c.uDOF] += np.asarray(c.h(t0, q[c.qDOF], u[c.uDOF]), float)
            if hasattr(c, "E_pot") and callable(c.E_pot) and hasattr(c, "qDOF"):
                E_other += float(c.E_pot(t0, q[c.qDOF]))
        eE = abs(E - E_other)
        eh = float(np.max(np.abs(h - h_other))) if h.size else 0.0
        st["max_err_E_pot"] = max(st.get("max_err_E_pot", 0.0), eE)
        st["max_err_h"] = max(st.get("max_err_h", 0.0), eh)
        evals += 2
        if not eE <= TOL * scale * scale:
            fails.append({"site": "System.E_pot at (t0,q0) vs 0", "msg": f"E_pot={E - E_other:.3e} ({label} q0)", "data": {"E_pot": E - E_other, "which": label}})
        if not eh <= TOL * scale:
            fails.append({"site": "System.h (law contribution) at (t0,q0,u0) vs 0", "msg": f"|h|={eh:.3e} ({label} q0)", "data": {"h_max": eh, "which": label}})
        if case["law"] == "Maxwell":
            f = float(np.asarray(law.force(t0, q[law.qDOF], u[law.uDOF])).reshape(-1)[0])
        elif case["compliance"]:
            la = np.asarray(system.la_c(t0, q, u), float)[law.la_cDOF]
            f = float(la.reshape(-1)[0])
            # the compliance equation must be satisfied by the zero force
            c0 = np.asarray(system.c(t0, q, u, np.zeros(system.nla_c)), float)[law.la_cDOF]
            ec = float(np.max(np.abs(c0)))
            st["max_err_c"] = max(st.get("max_err_c", 0.0), ec)
            if not ec <= TOL * scale:
                fails.append({"site": "System.c(t0,q0,u0,la_c=0) vs 0", "msg": f"c={ec:.3e} ({label} q0)", "data": {"c": ec, "which": label}})
        else:
            f = float(np.asarray(law.la_c(t0, q[law.qDOF], u[law.uDOF])).reshape(-1)[0])
        evals += 1
        st["max_err_force"] = max(st.get("max_err_force", 0.0), abs(f))
        if not abs(f) <= TOL * scale:
            fails.append({"site": "force (la_c / force) at (t0,q0,u0) vs 0", "msg": f"force={f:.3e} ({label} q0)", "data": {"force": f, "which": label}})
    # 3. vacuity guard of the oracle itself: away from q0 the element must load (otherwise 0 == 0 is empty)
    loaded = False
    try:
        dq = q0.copy()
        if case["sub"] == "tpi":
            # stretch: move subsystem 2's position coordinates along the line
            s2 = sub.subsystem2
            n = ab.generic_unit(case["seed"], 3)
            if s2.__class__.__name__ in ("PointMass", "RigidBody"):
                dq[s2.my_qDOF[:3]] += 0.37 * n
            else:
                nn = 5
                for c in range(3):
                    dq[s2.my_qDOF[c * nn : (c + 1) * nn]] += 0.37 * n[c]
        else:
            s2 = sub.subsystem2
            A_IJ0 = J.generic_rotation(case["seed"], 9)
            turn = 0.37
            if s2.__class__.__name__ != "RigidBody":
                # second partner is a rod cross-section: turn the first partner (a rigid body) the other way instead
                s2, turn = sub.subsystem1, -0.37
            R = A_IJ0 @ J.rot(np.eye(3)[case["axis"]], turn) @ A_IJ0.T
            # rotate body 2 about the joint axis through r_OJ0
            r_OJ0 = ab.generic_vec(case["seed"], 10, 3, 0.5)
            qb = q0[s2.my_qDOF]
            Aold = ab.quat_to_A(qb[3:])
            from cardillo.math import Spurrier

            dq[s2.my_qDOF[:3]] = r_OJ0 + R @ (qb[:3] - r_OJ0)
            dq[s2.my_qDOF[3:]] = Spurrier(R @ Aold)
        E1 = float(system.E_pot(t0, dq))
        Eo = sum(float(c.E_pot(t0, dq[c.qDOF])) for c in system.contributions if c is not law and hasattr(c, "E_pot") and callable(c.E_pot) and hasattr(c, "qDOF"))
        expected = 0.5 * 11.0 * 0.37**2
        st["max_err_loaded_energy"] = abs((E1 - Eo) - expected)
        loaded = abs((E1 - Eo) - expected) <= 1e-9
        evals += 1
        if not loaded:
            fails.append({"site": "E_pot after a 0.37 stretch/turn vs k/2*0.37^2", "msg": f"E={E1 - Eo:.6g} expected {expected:.6g}", "data": {"E": E1 - Eo, "expected": expected}})
    except Exception as e:  # noqa
        info = _exc_info(e)
        fails.append({"site": "evaluation away from q0 raises", "msg": f"{info['exc']}: {info['exc_msg']}", "data": info})
    return {"fails": fails, "nontrivial": True, "evals": evals, "outcome": "stress-free" if not fails else "not-stress-free", "stats": st}
