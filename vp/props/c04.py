"""C04  Rigid body, point mass and frame kinematics are self-consistent.

Engine E1 (exhaustive product of finite alphabets on the real objects).  One case = one
configuration (body kind, quaternion letter, position letter, inertia | frame motion, time); the
velocity / acceleration / offset letters are looped inside the case.  Oracles: 5-point central
differences along the kinematic flow  s -> (t+s, q+s*q_dot(t,q,u), u+s*u_dot)  for the
time-derivative relations, exact differences for affine arguments, 5-point Jacobians for every
`_q/_u` partial (vp.core.fd, DESIGN 2.2).
"""
import numpy as np

from vp.core import fd
from vp.core.alphabet import quat_to_A, unskew, generic_vec
from vp.scen import bodies as B

ID = "C04"
LEVEL = "exploration"
RULE = (
    "full product: RigidBody x quaternion letters (all of {-1,0,1}^4 up to sign, x1/2 and x3 copies, generic non-unit) "
    "x position letters x inertia letters, inside each case u letters (generic, 0, +-e_i) x u_dot letters x offsets "
    "{0,e1,e2,e3,generic} x times; PointMass x positions x times; Frame x 5 motion families x {with, without} supplied "
    "derivatives x times x offsets. A case is non-trivial if at least one oracle comparison with a non-zero reference "
    "value was evaluated and no comparison was skipped as ill-conditioned"
)
ASSUMPTIONS = [
    "5-point central differences (h=1e-3, h/2) with measured error estimate are the true derivatives up to 1e-8+1e-7*scale+4*est",
    "the straight line q+s*q_dot is a second-order consistent path of the kinematic equation (enough for a central first derivative)",
    "kappa_P is defined by a_P = J_P u_dot + kappa_P and B_kappa_R by B_Psi = B_J_R u_dot + B_kappa_R (how the joints consume them)",
    "frames without supplied derivatives are outside the quantifier; the library's numerical fallback is only held to 1e-6 (first) / 5e-2 (second derivative; measured rounding noise of its eps=1e-6 second difference is 1e-3) relative",
    "RigidBody reports no kinetic energy, so E_kin = 1/2 u^T M u is checked for PointMass only",
]
MIN_NONTRIVIAL = 50
CASE_TIMEOUT = 600

T_LETTERS = [0.7, 0.0, -1.3]


def cases(tier, seed):
    out = []
    nP = len(B.quat_letters(seed))
    nr = 2 if tier == "quick" else 3
    # point mass first (simplest)
    for ir in range(3):
        for it in range(2):
            out.append({"body": "PointMass", "r": ir, "t": it})
    for name in B.frame_motions(seed):
        for deriv in (True, False):
            for it in range(len(T_LETTERS) + 1):
                out.append({"body": "Frame", "motion": name, "derivatives": deriv, "t": it})
    for iP in range(nP):
        for ir in range(nr):
            for inertia in range(len(B.INERTIAS)):
                out.append({"body": "RigidBody", "P": iP, "r": ir, "inertia": inertia})
    for c in out:
        c["tier"] = tier
        c["seed"] = seed
    return out


class Acc:
    """collects comparisons of one case"""

    def __init__(self, base):
        self.base = base
        self.fails = {}
        self.n = 0
        self.nonzero = 0
        self.illcond = 0
        self.stats = {}

    def _stat(self, k, v):
        if np.isfinite(v):
            self.stats[k] = max(self.stats.get(k, 0.0), float(v))

    def _fail(self, site, msg, data):
        if site in self.fails:
            self.fails[site]["data"]["n_fail_in_case"] += 1
            return
        d = {"n_fail_in_case": 1}
        d.update(data)
        self.fails[site] = {"site": site, "msg": msg, "data": d}

    def fdcmp(self, site, routine, ref, est, data, kind="fd", atol=1e-8, rtol=1e-7):
        self.n += 1
        routine = fd.dense(routine)
        ref = fd.dense(ref)
        if routine.shape != ref.shape:
            self._fail(site, f"shape {routine.shape} != {ref.shape}", data)
            return
        if ref.size == 0:
            return
        v, e, thr = fd.verdict(routine, ref, est, atol=atol, rtol=rtol)
        if v == "illcond":
            self.illcond += 1
            return
        if np.max(np.abs(ref)) > 1e-6:
            self.nonzero += 1
        self._stat(("max_err_" if v == "ok" else "max_failed_err_") + kind, e)
        self._stat("max_est_" + kind, est)
        if v == "fail":
            dd = {"err": e, "thr": thr, "est": est, "routine": routine, "reference": ref}
            dd.update(data)
            self._fail(site, f"err={e:.3e} thr={thr:.3e}", dd)

    def close(self, site, a, b, tol, data, kind="exact"):
        self.n += 1
        a = fd.dense(a)
        b = fd.dense(b)
        if a.shape != b.shape:
            self._fail(site, f"shape {a.shape} != {b.shape}", data)
            return
        if a.size == 0:
            return
        e = fd.err(a, b)
        if np.max(np.abs(b)) > 1e-6:
            self.nonzero += 1
        self._stat(("max_err_" if e <= tol else "max_failed_err_") + kind, e)
        if not (e <= tol):
            dd = {"err": e, "thr": tol, "routine": a, "reference": b}
            dd.update(data)
            self._fail(site, f"err={e:.3e} tol={tol:.3e}", dd)

    def result(self, extra_stats=None):
        st = dict(self.stats)
        st["n_illcond"] = self.illcond
        if extra_stats:
            st.update(extra_stats)
        res = {"fails": list(self.fails.values()), "evals": self.n, "stats": st,
               "nontrivial": self.nonzero > 0 and self.illcond == 0}
        return res


def _jac(f, x, h):
    return fd.jac(f, x, h=h)


def _flow(f, h=1e-3):
    """d/ds f(s) at 0 and error estimate"""
    return fd.ddir(lambda s: f(float(s[0])), np.zeros(1), np.ones(1), h=h)


# ------------------------------------------------------------------------------------------------
def check(case):
    kind = case["body"]
    if kind == "RigidBody":
        return _check_rigid(case)
    if kind == "PointMass":
        return _check_pm(case)
    return _check_frame(case)


def _check_rigid(case):
    tier, seed = case["tier"], case["seed"]
    Pn, P = B.quat_letters(seed)[case["P"]]
    rn, r = B.r_letters(seed)[case["r"]]
    q = np.concatenate([r, P]).astype(float)
    body = B.rigid_body(case["inertia"])
    Theta = B.INERTIAS[case["inertia"]][2]
    acc = Acc(case)
    hq = 1e-3 * max(1.0, float(np.max(np.abs(P))))
    ts = [0.7] if tier == "quick" else [0.7, 0.0]
    U = B.vel_letters(seed, 6, 11, tier)
    UD = B.vel_letters(seed, 6, 12, tier)
    if tier == "quick":
        UD = UD[:2] + UD[5:6]  # generic, zero, +e3 (angular acceleration about e1)
    else:
        UD = UD[:8]  # generic, zero, +e_i
    OFF = B.offset_letters(seed)
    nP = float(np.linalg.norm(P))

    for t in ts:
        d0 = {"t": t}
        # ---- q only -----------------------------------------------------------------------
        A = body.A_IB(t, q)
        acc.close("RigidBody.A_IB vs independent quaternion rotation", A, quat_to_A(P), 1e-13, d0)
        J, est = _jac(lambda x: body.A_IB(t, x), q, hq)
        acc.fdcmp("RigidBody.A_IB_q vs d/dq A_IB", body.A_IB_q(t, q), J, est, d0)
        acc.close("RigidBody.q_dot_u vs exact d q_dot/du", body.q_dot_u(t, q),
                  fd.affine_jac(lambda u: body.q_dot(t, q, u), 6), 1e-12 * max(1, nP), d0, kind="affine")
        # mass matrix
        M = fd.dense(body.M(t, q))
        acc.close("RigidBody.M symmetric", M, M.T, 0.0, d0)
        acc.n += 1
        try:
            np.linalg.cholesky(M)
        except np.linalg.LinAlgError:
            acc._fail("RigidBody.M positive definite (Cholesky)", "Cholesky failed", d0)
        Mref = np.zeros((6, 6))
        Mref[:3, :3] = B.INERTIAS[case["inertia"]][1] * np.eye(3)
        Mref[3:, 3:] = Theta
        acc.close("RigidBody.M vs blockdiag(m I, Theta)", M, Mref, 0.0, d0)

        # ---- offsets only -------------------------------------------------------------------
        for bn, off in OFF:
            db = {"t": t, "offset": bn}
            J, est = _jac(lambda x: body.r_OP(t, x, B_r_CP=off), q, hq)
            acc.fdcmp("RigidBody.r_OP_q vs d/dq r_OP", body.r_OP_q(t, q, B_r_CP=off), J, est, db)
            J, est = _jac(lambda x: body.J_P(t, x, B_r_CP=off), q, hq)
            acc.fdcmp("RigidBody.J_P_q vs d/dq J_P", body.J_P_q(t, q, B_r_CP=off), J, est, db)
            acc.close("RigidBody.r_OP vs r + A B_r_CP (independent)", body.r_OP(t, q, B_r_CP=off), r + quat_to_A(P) @ off,
                      1e-13 * max(1.0, float(np.max(np.abs(r)))), db)

        for un, u in U:
            du = {"t": t, "u": un}
            qd = body.q_dot(t, q, u)
            # kinematic equation keeps the quaternion length
            acc.close("RigidBody.q_dot keeps |P| (P.P_dot=0)", np.array([P @ qd[3:]]), np.zeros(1),
                      1e-14 * max(1.0, nP * float(np.linalg.norm(u[3:]))), du)
            J, est = _jac(lambda x: body.q_dot(t, x, u), q, hq)
            acc.fdcmp("RigidBody.q_dot_q vs d/dq q_dot", body.q_dot_q(t, q, u), J, est, du)
            # gyroscopic forces
            hh = body.h(t, q, u)
            acc.close("RigidBody.h does no work (h.u=0)", np.array([hh @ u]), np.zeros(1),
                      1e-13 * max(1.0, float(np.linalg.norm(u)) ** 3), du)
            # tolerance relative to the size of the inertia tensor (never looser than before for tensors of order one and above)
            acc.close("RigidBody.h vs -omega x Theta omega", hh[3:], -np.cross(u[3:], Theta @ u[3:]),
                      1e-13 * min(1.0, float(np.max(np.abs(Theta)))) * max(1.0, float(u @ u)), du)
            J, est = _jac(lambda x: body.h(t, q, x), u, 1e-3)
            acc.fdcmp("RigidBody.h_u vs d/du h", body.h_u(t, q, u), J, est, du)
            # angular velocity = that of the rotation along the flow
            dA, est = _flow(lambda s: body.A_IB(t + s, q + s * qd))
            acc.fdcmp("RigidBody.B_Omega vs axial(A^T dA/dt) along the flow", body.B_Omega(t, q, u), unskew(A.T @ dA), est, du)
            acc.fdcmp("RigidBody: A^T dA/dt skew along the flow", (A.T @ dA + (A.T @ dA).T), np.zeros((3, 3)), est, du)
            acc.close("RigidBody.B_J_R vs exact d B_Omega/du", body.B_J_R(t, q),
                      fd.affine_jac(lambda x: body.B_Omega(t, q, x), 6), 1e-13, du, kind="affine")
            J, est = _jac(lambda x: body.B_Omega(t, x, u), q, hq)
            acc.fdcmp("RigidBody.B_Omega_q vs d/dq B_Omega", body.B_Omega_q(t, q, u), J, est, du)
            J, est = _jac(lambda x: body.B_J_R(t, x), q, hq)
            acc.fdcmp("RigidBody.B_J_R_q vs d/dq B_J_R", body.B_J_R_q(t, q), J, est, du)

            for udn, ud in UD:
                dd = {"t": t, "u": un, "u_dot": udn}
                dO, est = _flow(lambda s: body.B_Omega(t + s, q + s * qd, u + s * ud))
                Psi = body.B_Psi(t, q, u, ud)
                acc.fdcmp("RigidBody.B_Psi vs d/dt B_Omega along the flow", Psi, dO, est, dd)
                acc.close("RigidBody.B_kappa_R vs B_Psi - B_J_R u_dot", body.B_kappa_R(t, q, u), Psi - body.B_J_R(t, q) @ ud, 1e-13, dd)
                J, est = _jac(lambda x: body.B_Psi(t, x, u, ud), q, hq)
                acc.fdcmp("RigidBody.B_Psi_q vs d/dq B_Psi", body.B_Psi_q(t, q, u, ud), J, est, dd)
                J, est = _jac(lambda x: body.B_Psi(t, q, x, ud), u, 1e-3)
                acc.fdcmp("RigidBody.B_Psi_u vs d/du B_Psi", body.B_Psi_u(t, q, u, ud), J, est, dd)
            J, est = _jac(lambda x: body.B_kappa_R(t, x, u), q, hq)
            acc.fdcmp("RigidBody.B_kappa_R_q vs d/dq B_kappa_R", body.B_kappa_R_q(t, q, u), J, est, du)
            J, est = _jac(lambda x: body.B_kappa_R(t, q, x), u, 1e-3)
            acc.fdcmp("RigidBody.B_kappa_R_u vs d/du B_kappa_R", body.B_kappa_R_u(t, q, u), J, est, du)

            for bn, off in OFF:
                db = {"t": t, "u": un, "offset": bn}
                dr, est = _flow(lambda s: body.r_OP(t + s, q + s * qd, B_r_CP=off))
                v = body.v_P(t, q, u, B_r_CP=off)
                acc.fdcmp("RigidBody.v_P vs d/dt r_OP along the flow", v, dr, est, db)
                acc.close("RigidBody.J_P vs exact d v_P/du", body.J_P(t, q, B_r_CP=off),
                          fd.affine_jac(lambda x: body.v_P(t, q, x, B_r_CP=off), 6), 1e-13 * max(1.0, float(np.max(np.abs(off)))), db, kind="affine")
                J, est = _jac(lambda x: body.v_P(t, x, u, B_r_CP=off), q, hq)
                acc.fdcmp("RigidBody.v_P_q vs d/dq v_P", body.v_P_q(t, q, u, B_r_CP=off), J, est, db)
                J, est = _jac(lambda x: body.kappa_P(t, x, u, B_r_CP=off), q, hq)
                acc.fdcmp("RigidBody.kappa_P_q vs d/dq kappa_P", body.kappa_P_q(t, q, u, B_r_CP=off), J, est, db)
                J, est = _jac(lambda x: body.kappa_P(t, q, x, B_r_CP=off), u, 1e-3)
                acc.fdcmp("RigidBody.kappa_P_u vs d/du kappa_P", body.kappa_P_u(t, q, u, B_r_CP=off), J, est, db)
                kap = body.kappa_P(t, q, u, B_r_CP=off)
                JP = body.J_P(t, q, B_r_CP=off)
                for udn, ud in UD:
                    dd = {"t": t, "u": un, "u_dot": udn, "offset": bn}
                    dv, est = _flow(lambda s: body.v_P(t + s, q + s * qd, u + s * ud, B_r_CP=off))
                    a = body.a_P(t, q, u, ud, B_r_CP=off)
                    acc.fdcmp("RigidBody.a_P vs d/dt v_P along the flow", a, dv, est, dd)
                    acc.close("RigidBody.kappa_P vs a_P - J_P u_dot", kap, a - JP @ ud, 1e-12 * max(1.0, float(np.max(np.abs(a)))), dd)
                    J, est = _jac(lambda x: body.a_P(t, x, u, ud, B_r_CP=off), q, hq)
                    acc.fdcmp("RigidBody.a_P_q vs d/dq a_P", body.a_P_q(t, q, u, ud, B_r_CP=off), J, est, dd)
                    J, est = _jac(lambda x: body.a_P(t, q, x, ud, B_r_CP=off), u, 1e-3)
                    acc.fdcmp("RigidBody.a_P_u vs d/du a_P", body.a_P_u(t, q, u, ud, B_r_CP=off), J, est, dd)
    # ---- body-fixed offsets of any length: with the centre at rest in the origin every point quantity is LINEAR in B_r_CP
    # (micro-/nano-scale offsets must not be treated as zero; seeded C04-i)
    g = OFF[-1][1]
    q_o = np.concatenate([np.zeros(3), P]).astype(float)
    u_o = np.concatenate([np.zeros(3), U[0][1][3:]])
    ud_o = np.concatenate([np.zeros(3), UD[0][1][3:]])
    for t in ts[:1]:
        ref = {
            "r_OP": body.r_OP(t, q_o, B_r_CP=g), "v_P": body.v_P(t, q_o, u_o, B_r_CP=g), "a_P": body.a_P(t, q_o, u_o, ud_o, B_r_CP=g),
            "J_P[:,3:]": fd.dense(body.J_P(t, q_o, B_r_CP=g))[:, 3:], "kappa_P": body.kappa_P(t, q_o, u_o, B_r_CP=g),
            "r_OP_q": fd.dense(body.r_OP_q(t, q_o, B_r_CP=g))[:, 3:], "v_P_q": fd.dense(body.v_P_q(t, q_o, u_o, B_r_CP=g)),
            "J_P_q": fd.dense(body.J_P_q(t, q_o, B_r_CP=g)), "a_P_q": fd.dense(body.a_P_q(t, q_o, u_o, ud_o, B_r_CP=g)),
            "a_P_u": fd.dense(body.a_P_u(t, q_o, u_o, ud_o, B_r_CP=g)),
        }
        for sc_ in (1e-3, 1e-6, 1e-9, 1e-12):
            b = sc_ * g
            got = {
                "r_OP": body.r_OP(t, q_o, B_r_CP=b), "v_P": body.v_P(t, q_o, u_o, B_r_CP=b), "a_P": body.a_P(t, q_o, u_o, ud_o, B_r_CP=b),
                "J_P[:,3:]": fd.dense(body.J_P(t, q_o, B_r_CP=b))[:, 3:], "kappa_P": body.kappa_P(t, q_o, u_o, B_r_CP=b),
                "r_OP_q": fd.dense(body.r_OP_q(t, q_o, B_r_CP=b))[:, 3:], "v_P_q": fd.dense(body.v_P_q(t, q_o, u_o, B_r_CP=b)),
                "J_P_q": fd.dense(body.J_P_q(t, q_o, B_r_CP=b)), "a_P_q": fd.dense(body.a_P_q(t, q_o, u_o, ud_o, B_r_CP=b)),
                "a_P_u": fd.dense(body.a_P_u(t, q_o, u_o, ud_o, B_r_CP=b)),
            }
            for k in ref:
                rk = np.asarray(ref[k], float)
                acc.close(f"RigidBody.{k}(s B_r_CP) / s vs {k}(B_r_CP) [centre at rest in the origin]", np.asarray(got[k], float) / sc_, rk,
                          1e-11 * max(1.0, float(np.max(np.abs(rk)))), {"t": t, "scale": sc_}, kind="offset_scaling")
    if hasattr(body, "E_kin"):
        for un, u in U:
            acc.close("RigidBody.E_kin vs 1/2 u^T M u", np.array([body.E_kin(0.0, q, u)]), np.array([0.5 * u @ M @ u]), 1e-13 * max(1.0, float(u @ u)), {"u": un})
    res = acc.result({"n_no_E_kin_reported": 0 if hasattr(body, "E_kin") else 1})
    res["outcome"] = "RigidBody"
    return res


def _check_pm(case):
    tier, seed = case["tier"], case["seed"]
    rn, r = B.r_letters(seed)[case["r"]]
    t = [0.7, 0.0][case["t"]]
    body = B.point_mass(1.7)
    acc = Acc(case)
    q = np.array(r, float)
    U = B.vel_letters(seed, 3, 21, "thorough")
    UD = B.vel_letters(seed, 3, 22, "thorough")
    OFF = B.offset_letters(seed)
    M = fd.dense(body.M(t, q))
    d0 = {"t": t}
    acc.close("PointMass.M symmetric", M, M.T, 0.0, d0)
    acc.close("PointMass.M vs m I", M, 1.7 * np.eye(3), 0.0, d0)
    acc.n += 1
    try:
        np.linalg.cholesky(M)
    except np.linalg.LinAlgError:
        acc._fail("PointMass.M positive definite (Cholesky)", "Cholesky failed", d0)
    acc.close("PointMass.q_dot_u vs exact d q_dot/du", body.q_dot_u(t, q), fd.affine_jac(lambda u: body.q_dot(t, q, u), 3), 1e-14, d0, kind="affine")
    for un, u in U:
        du = {"t": t, "u": un}
        qd = np.asarray(body.q_dot(t, q, u), float)
        acc.close("PointMass.E_kin vs 1/2 u^T M u", np.array([body.E_kin(t, q, u)]), np.array([0.5 * u @ M @ u]), 1e-13 * max(1.0, float(u @ u)), du)
        for bn, off in OFF:
            db = {"t": t, "u": un, "offset": bn}
            dr, est = _flow(lambda s: body.r_OP(t + s, q + s * qd, B_r_CP=off))
            acc.fdcmp("PointMass.v_P vs d/dt r_OP along the flow", body.v_P(t, q, u, B_r_CP=off), dr, est, db)
            acc.close("PointMass.J_P vs exact d v_P/du", body.J_P(t, q, B_r_CP=off), fd.affine_jac(lambda x: body.v_P(t, q, x, B_r_CP=off), 3), 1e-14, db, kind="affine")
            J, est = _jac(lambda x: body.r_OP(t, x, B_r_CP=off), q, 1e-3)
            acc.fdcmp("PointMass.r_OP_q vs d/dq r_OP", body.r_OP_q(t, q, B_r_CP=off), J, est, db)
            J, est = _jac(lambda x: body.v_P(t, x, u, B_r_CP=off), q, 1e-3)
            acc.fdcmp("PointMass.v_P_q vs d/dq v_P", body.v_P_q(t, q, u, B_r_CP=off), J, est, db)
            J, est = _jac(lambda x: body.J_P(t, x, B_r_CP=off), q, 1e-3)
            acc.fdcmp("PointMass.J_P_q vs d/dq J_P", body.J_P_q(t, q, B_r_CP=off), J, est, db)
            for udn, ud in UD:
                dd = {"t": t, "u": un, "u_dot": udn, "offset": bn}
                dv, est = _flow(lambda s: body.v_P(t + s, q + s * qd, u + s * ud, B_r_CP=off))
                acc.fdcmp("PointMass.a_P vs d/dt v_P along the flow", body.a_P(t, q, u, ud, B_r_CP=off), dv, est, dd)
                J, est = _jac(lambda x: body.a_P(t, x, u, ud, B_r_CP=off), q, 1e-3)
                acc.fdcmp("PointMass.a_P_q vs d/dq a_P", body.a_P_q(t, q, u, ud, B_r_CP=off), J, est, dd)
                J, est = _jac(lambda x: body.a_P(t, q, x, ud, B_r_CP=off), u, 1e-3)
                acc.fdcmp("PointMass.a_P_u vs d/du a_P", body.a_P_u(t, q, u, ud, B_r_CP=off), J, est, dd)
    res = acc.result()
    res["outcome"] = "PointMass"
    return res


def _check_frame(case):
    seed = case["seed"]
    mot = B.frame_motions(seed)[case["motion"]]
    exact = case["derivatives"]
    ts = T_LETTERS + [float(generic_vec(seed, 31, 1, 2.0)[0])]
    t = ts[case["t"]]
    fr = B.make_frame(mot, with_derivatives=exact)
    acc = Acc(case)
    OFF = B.offset_letters(seed)
    q = np.array([])
    A = fr.A_IB(t)
    A_tt = fd.dense(fr.A_IB_tt__(t))
    rot = callable(mot["A"])
    # tolerances: exact derivatives -> verdict rule; numerical fallback of the library -> loose
    if exact:
        a1 = dict(atol=1e-8, rtol=1e-7, kind="fd")
        a2 = dict(atol=1e-8, rtol=1e-7, kind="fd")
        sfx = ""
    else:
        a1 = dict(atol=1e-6, rtol=1e-6, kind="fallback_first")
        a2 = dict(atol=5e-2, rtol=5e-2, kind="fallback_second")
        sfx = " [library numerical fallback]"
    d0 = {"t": t}
    dA, est = _flow(lambda s: fr.A_IB(t + s))
    acc.fdcmp("Frame.B_Omega vs axial(A^T dA/dt)" + sfx, fr.B_Omega(t), unskew(A.T @ dA), est, d0, **a1)
    dO, est = _flow(lambda s: fr.B_Omega(t + s))
    acc.fdcmp("Frame.B_Psi vs d/dt B_Omega" + sfx, fr.B_Psi(t), dO, est, d0, **a2)
    acc.close("Frame.B_kappa_R vs B_Psi (no velocity coordinates)" + sfx, fr.B_kappa_R(t), fr.B_Psi(t), 0.0, d0)
    for name, shape in (("A_IB_q", (3, 3, 0)), ("B_Omega_q", (3, 0)), ("B_Psi_q", (3, 0)), ("B_Psi_u", (3, 0)),
                        ("B_kappa_R_q", (3, 0)), ("B_kappa_R_u", (3, 0)), ("B_J_R_q", (3, 0, 0))):
        acc.n += 1
        got = np.asarray(getattr(fr, name)(t, q))
        if got.shape != shape:
            acc._fail(f"Frame.{name} shape", f"{got.shape} != {shape}", d0)
    acc.n += 1
    if np.asarray(fr.B_J_R(t, q)).shape != (3, 0):
        acc._fail("Frame.B_J_R shape", "not (3,0)", d0)
    for bn, off in OFF:
        db = {"t": t, "offset": bn, "A_tt_B_norm": float(np.linalg.norm(A_tt @ off)), "rotating": bool(rot)}
        dr, est = _flow(lambda s: fr.r_OP(t + s, B_r_CP=off))
        acc.fdcmp("Frame.v_P vs d/dt r_OP" + sfx, fr.v_P(t, B_r_CP=off), dr, est, db, **a1)
        dv, est = _flow(lambda s: fr.v_P(t + s, B_r_CP=off))
        a = fr.a_P(t, B_r_CP=off)
        acc.fdcmp("Frame.a_P vs d/dt v_P" + sfx, a, dv, est, db, **a2)
        # a_P = J_P u_dot + kappa_P with an empty J_P
        acc.close("Frame.kappa_P vs a_P - J_P u_dot" + sfx, fr.kappa_P(t, B_r_CP=off), a, 1e-12 * max(1.0, float(np.max(np.abs(a)))), db)
        for name, shape in (("r_OP_q", (3, 0)), ("v_P_q", (3, 0)), ("J_P", (3, 0)), ("a_P_q", (3, 0)), ("a_P_u", (3, 0)),
                            ("kappa_P_q", (3, 0)), ("kappa_P_u", (3, 0)), ("J_P_q", (3, 0, 0))):
            acc.n += 1
            got = np.asarray(getattr(fr, name)(t, q, B_r_CP=off))
            if got.shape != shape:
                acc._fail(f"Frame.{name} shape", f"{got.shape} != {shape}", db)
    res = acc.result()
    # constant frames have only zero references: they still exercise the code, count them via the
    # outcome histogram but not as non-trivial
    res["outcome"] = "Frame:" + case["motion"] + (":exact" if exact else ":fallback")
    return res
