"""C22  Nonlinear and fixed-point helpers honour their convergence contract.

E1: complete product of (problem family x dimension x start x tolerances x iteration limit x
Jacobian mode) for `fsolve`; (contraction family x dimension x tolerances x iteration limit) for the
two fixed-point helpers of the dual Stoermer-Verlet module; (function x method x step) for
`approx_fprime`.  Every returned result is re-judged by the harness from the user function alone.
"""
import itertools
import math
import numpy as np

ID = "C22"
LEVEL = "exploration"
RULE = (
    "full product of the finite alphabets (fsolve: 6 residual families x n in {1,2,4,8} x 2 starts x 3x3 tolerances x 4 iteration "
    "limits x 6 Jacobian modes; fixed-point helpers: 2 helpers x 7 map families x n in 1..8 x 6 tolerance pairs x 4 iteration limits x {float, per-component} atol x {pure, in-place} map x {keyword, positional} call; approx_fprime: "
    "5 functions x 3 methods x 3-4 step sizes); one case per (helper, family, n); non-trivial = the helper returned and the harness "
    "could re-evaluate the criterion, or the helper reported failure"
)
ASSUMPTIONS = [
    "fsolve's criterion is rms(f/(atol+rtol*|f(x0)|)) < 1 as documented in its docstring/implementation (Kelley 1995 (1.12)); the harness recomputes it from the user function at the returned x",
    "the performance notice of approx_fprime is not counted as a non-convergence warning",
    "fixed-point contract: the returned point is the accepted iterate (output of a recorded evaluation whose (input, output) pair meets rms(dx/(atol+rtol*max|.|))<1) or meets that criterion itself as (x, fun(x))",
]
MIN_NONTRIVIAL = 50
MIN_OUTCOMES = 4


# ------------------------------------------------------------------------------------------
# fsolve
# ------------------------------------------------------------------------------------------
def _lin_matrix(n, kappa):
    # symmetric positive definite with condition number kappa (orthogonal Householder similarity)
    v = np.arange(1, n + 1, dtype=float)
    v /= np.linalg.norm(v)
    H = np.eye(n) - 2 * np.outer(v, v)
    d = np.logspace(0, math.log10(kappa), n) if n > 1 else np.array([kappa])
    return H @ np.diag(d) @ H


def family(name, n):
    """returns (fun, jac_dense, has_root)"""
    idx = np.arange(1, n + 1, dtype=float)
    if name.startswith("lin"):
        kappa = {"lin1": 1.0, "lin1e4": 1e4, "lin1e10": 1e10}[name]
        A = _lin_matrix(n, kappa)
        b = A @ (0.3 * idx)
        return (lambda x: A @ x - b), (lambda x: A), True
    if name == "quad":
        c = idx
        return (lambda x: x * x + 0.1 * np.roll(x, 1) - c - 0.1 * np.roll(np.sqrt(c), 1)), (
            lambda x: np.diag(2 * x) + 0.1 * np.roll(np.eye(n), 1, axis=0) if n > 1 else np.diag(2 * x) + 0.1 * np.eye(1)), True
    if name == "noroot":
        return (lambda x: x * x + 1.0), (lambda x: np.diag(2 * x)), False
    if name == "exp":
        return (lambda x: np.exp(x) - 1.0 - 0.5 * idx + 0.05 * np.roll(x, 1)), (
            lambda x: np.diag(np.exp(x)) + 0.05 * (np.roll(np.eye(n), 1, axis=0) if n > 1 else np.eye(1))), True
    if name == "rosen":
        from scipy.optimize import rosen_der, rosen_hess

        if n == 1:
            return (lambda x: 2.0 * (x - 1.0)), (lambda x: 2.0 * np.eye(1)), True
        return rosen_der, rosen_hess, True
    # families on which Newton from the harness starts produces a NON-FINITE residual at some iterate >= 1 (the root exists;
    # seeded C22-f / C21-e: a NaN error must not count as converged)
    if name == "logdom":   # iterate leaves the domain of log
        return (lambda x: np.log(x) + 2.0 + 0.1 * idx), (lambda x: np.diag(1.0 / x)), True
    if name == "sing":     # Jacobian exactly singular at the first start (x0 = 1.5 + 0.1 i)
        s0 = 1.5 + 0.1 * np.arange(n)
        return (lambda x: (x - s0) ** 2 - 1.0), (lambda x: np.diag(2 * (x - s0))), True
    if name == "atan":     # diverging iteration that overflows
        return (lambda x: np.arctan(x + 3.5)), (lambda x: np.diag(1.0 / (1.0 + (x + 3.5) ** 2))), True
    raise KeyError(name)


FS_FAMILIES = ["lin1", "lin1e4", "lin1e10", "quad", "noroot", "exp", "rosen", "logdom", "sing", "atan"]
FS_MODES = ["exact", "2-point", "3-point", "cs", "superlu", "inexact"]
TOLS = [1e-4, 1e-8, 1e-12]
MAXIT = [1, 2, 5, 20]


def _starts(n, seed):
    from vp.core.alphabet import weyl

    return [np.full(n, 1.5) + 0.1 * np.arange(n), 1.0 + 0.8 * weyl(seed, 3, n, 0.1, 1.0)]


def check_fsolve(case, seed):
    import warnings
    from scipy.sparse import csc_array
    from scipy.sparse.linalg import splu
    from cardillo.math.fsolve import fsolve
    from cardillo.solver import SolverOptions

    name, n = case["family"], case["n"]
    fun, jacd, has_root = family(name, n)
    jac = lambda x: csc_array(np.atleast_2d(jacd(x)))
    fails, outcomes, evals = [], set(), 0
    max_err_success = 0.0
    starts = list(enumerate(_starts(n, seed)))
    if name in ("lin1", "lin1e4"):
        # warm starts whose initial scaled error is 1.5 (> 1: not converged, although 1.5 / sqrt(n) < 1 for n >= 3): the test applied
        # to the initial guess must be the same as the one applied to the iterates (seeded C23-h)
        A_ = _lin_matrix(n, {"lin1": 1.0, "lin1e4": 1e4}[name])
        root = 0.3 * np.arange(1, n + 1, dtype=float)
        for atol_w in TOLS:
            starts.append((f"warm{atol_w:g}", root + np.linalg.solve(A_, 1.5 * atol_w * (-1.0) ** np.arange(n))))
    for si, x0 in starts:
        for atol, rtol, mi, mode in itertools.product(TOLS, TOLS, MAXIT, FS_MODES):
            if isinstance(si, str) and (si != f"warm{atol:g}" or rtol > 1e-8):
                continue
            if mode == "cs" and name == "rosen" and n > 1:
                continue  # scipy's rosen_der is not complex-safe
            kw = dict(newton_atol=atol, newton_rtol=rtol, newton_max_iter=mi)
            if mode in ("2-point", "3-point", "cs"):
                opts = SolverOptions(numerical_jacobian_method=mode, numerical_jacobian_eps=(1e-30 if mode == "cs" else 1e-6), **kw)
                args = dict(jac=None)
            elif mode == "superlu":
                opts = SolverOptions(**kw)
                try:
                    args = dict(jac=splu(jac(x0)))
                except RuntimeError:  # harness-side factorisation of an exactly singular start Jacobian: letter not applicable
                    continue
            elif mode == "inexact":
                opts = SolverOptions(**kw)
                args = dict(jac=jac, inexact=True)
            else:
                # options built positionally in the dataclass field order (fixed-point atol, rtol, max_iter, newton atol, rtol, max_iter)
                opts = SolverOptions(1e-6, 1e-6, 1000, atol, rtol, mi)
                args = dict(jac=jac)
            with warnings.catch_warnings(record=True) as w:
                warnings.simplefilter("always")
                try:
                    sol = fsolve(fun, x0.copy(), options=opts, **args)
                except Exception as e:  # singular Jacobians etc.: an error is not silent
                    outcomes.add("fsolve:raised")
                    evals += 1
                    continue
            evals += 1
            msgs = [str(m.message) for m in w if not str(m.message).startswith("'approx_fprime' is used")
                    and not issubclass(m.category, (np.exceptions.ComplexWarning,)) and "SparseEfficiencyWarning" not in m.category.__name__
                    and m.category.__name__ not in ("MatrixRankWarning", "RuntimeWarning")]
            nonconv_msgs = [m for m in msgs if m]
            letters = {"family": name, "n": n, "start": si, "atol": atol, "rtol": rtol, "max_iter": mi, "mode": mode}
            f0 = np.atleast_1d(fun(x0))
            scale = atol + np.abs(f0) * rtol
            with np.errstate(all="ignore"):
                fx = np.atleast_1d(fun(np.asarray(sol.x, float)))
            if not np.all(np.isfinite(fx)):
                outcomes.add("fsolve:non-finite residual at returned point")
            err = float(np.linalg.norm(fx / scale) / scale.size ** 0.5)
            if sol.success:
                outcomes.add("fsolve:success")
                max_err_success = max(max_err_success, err if math.isfinite(err) else 1e300)
                # tolerance-free: the criterion itself, with 1e-9 slack for re-evaluation rounding
                if not (err < 1.0 * (1 + 1e-9)):
                    fails.append({"site": "fsolve reports success but its scaled residual criterion fails at the returned point",
                                  "msg": f"{letters}: recomputed error {err:.3e} >= 1 (reported {sol.error:.3e})", "data": dict(letters, err=err)})
                if not has_root:
                    fails.append({"site": "fsolve reports success on a system without root", "msg": str(letters), "data": letters})
            else:
                outcomes.add("fsolve:failure_reported")
                if not nonconv_msgs:
                    fails.append({"site": "fsolve returns success=False without a warning", "msg": str(letters), "data": letters})
            # reported function value / error belong to the returned point
            if np.all(np.isfinite(fx)) and np.all(np.isfinite(np.atleast_1d(sol.fun))):
                if not np.allclose(np.atleast_1d(sol.fun), fx, rtol=1e-9, atol=1e-12 * (1 + np.max(np.abs(fx)))):
                    fails.append({"site": "fsolve: reported fun is not the residual at the returned x", "msg": str(letters), "data": letters})
    return fails, outcomes, evals, {"max_err_at_success": max_err_success}


# ------------------------------------------------------------------------------------------
# fixed-point helpers
# ------------------------------------------------------------------------------------------
FP_FAMILIES = ["diag.1", "diag.5", "diag.9", "diag.99", "rot.5", "rot.9", "expand1.01"]
FP_TOLS = [(1e-4, 1e-4), (1e-8, 1e-8), (1e-12, 1e-10), (1e-6, 1e-12), (1e-12, 1e-6), (1e-3, 1e-9)]
FP_MAXIT = [1, 10, 100, 3000]


def fp_map(name, n):
    idx = np.arange(1, n + 1, dtype=float)
    b = 0.5 * idx * (-1.0) ** np.arange(n)
    if name.startswith("diag"):
        rho = float(name[4:])
        A = np.diag(rho * (1.0 - 0.5 * (idx - 1) / max(1, n)))
    elif name.startswith("rot"):
        rho = float(name[3:])
        A = np.zeros((n, n))
        i = 0
        while i + 1 < n:
            c, s = math.cos(0.7 + i), math.sin(0.7 + i)
            A[i:i + 2, i:i + 2] = rho * np.array([[c, -s], [s, c]])
            i += 2
        if i < n:
            A[i, i] = rho * 0.5
    else:
        A = np.diag(np.full(n, 1.01))
    return A, b


def _crit(x, xn, atol, rtol):
    sc = atol + np.maximum(np.abs(x), np.abs(xn)) * rtol
    return float(np.linalg.norm((xn - x) / sc) / math.sqrt(len(x)))


def check_fp(case, seed):
    import cardillo.solver.dual_stormer_verlet as dsv

    helper = getattr(dsv, case["helper"])
    name, n = case["family"], case["n"]
    A, b = fp_map(name, n)
    fails, outcomes, evals = [], set(), 0
    worst = 0.0
    for (atol, rtol), mi, atol_kind, inplace, call in itertools.product(FP_TOLS, FP_MAXIT, ("float", "array"), (False, True), ("kw", "pos")):
        calls = []
        atol_scalar = atol
        if atol_kind == "array":
            # per-component absolute tolerances, as DualStormerVerlet._step passes them
            atol = atol_scalar * (1.0 + 0.5 * (np.arange(n) % 2))
            atol_before = atol.copy()

        def fun(x):
            xin = x.copy()
            y = A @ x + b
            calls.append((xin, y.copy()))
            if inplace:
                # a map that updates its argument in place and hands it back (as the dual Stoermer-Verlet stage map does with
                # views of the iterate): the helper must not let this destroy its own record of the previous iterate
                x[:] = y
                return x
            return y

        x0 = np.zeros(n) + 0.25
        letters = {"helper": case["helper"], "family": name, "n": n, "atol": atol_scalar, "atol_kind": atol_kind, "rtol": rtol, "max_iter": mi, "inplace_map": inplace, "call": call}
        evals += 1
        x0_before = x0.copy()
        try:
            with np.errstate(all="ignore"):
                if call == "pos":
                    # the signature order (fun, x0, atol, rtol, max_iter) is how DualStormerVerlet-style callers may pass them
                    out = helper(fun, x0, atol, rtol, mi)
                else:
                    out = helper(fun, x0, atol=atol, rtol=rtol, max_iter=mi)
        except Exception as e:
            outcomes.add(f"{case['helper']}:raised")
            out = None
        if atol_kind == "array":
            if not np.array_equal(atol, atol_before):
                fails.append({"site": f"{case['helper']} modifies the tolerance array of its caller", "msg": f"{letters}: {atol_before} -> {atol}", "data": dict(letters)})
            atol = atol_before
        if out is None:
            continue
        x = np.asarray(out[0], float)
        outcomes.add(f"{case['helper']}:returned")
        ok = False
        # (a) the returned point is the output of a recorded evaluation whose pair meets the criterion
        for xin, xout in reversed(calls[-3:]):
            if np.array_equal(x, xout) and _crit(xin, xout, atol, rtol) < 1.0:
                ok = True
                break
        # (b) or it meets the criterion itself
        own = _crit(x, A @ x + b, atol, rtol)
        if own < 1.0:
            ok = True
        worst = max(worst, own if math.isfinite(own) else 1e300)
        if not ok:
            fails.append({"site": f"{case['helper']} returns a point that does not meet the given tolerance",
                          "msg": f"{letters}: criterion at returned point {own:.3e} >= 1 after {len(calls)} evaluations", "data": dict(letters, crit=own)})
    return fails, outcomes, evals, {"max_crit_at_returned_point": worst}


# ------------------------------------------------------------------------------------------
# approx_fprime
# ------------------------------------------------------------------------------------------
def _afp_functions():
    return {
        "poly": (lambda x: np.array([x[0] ** 3 + x[0] * x[1], x[1] ** 2 - 2 * x[0]]),
                 lambda x: np.array([[3 * x[0] ** 2 + x[1], x[0]], [-2.0, 2 * x[1]]]), np.array([0.7, -1.3])),
        "trig": (lambda x: np.array([np.sin(x[0]) * np.cos(x[1]), np.exp(0.5 * x[2]), x[0] * x[2]]),
                 lambda x: np.array([[np.cos(x[0]) * np.cos(x[1]), -np.sin(x[0]) * np.sin(x[1]), 0.0], [0, 0, 0.5 * np.exp(0.5 * x[2])], [x[2], 0, x[0]]]),
                 np.array([0.4, 1.1, -0.6])),
        # bounded smooth function at LARGE arguments: the step actually taken, fl(x + eps) - x, differs from eps by up to ulp(x)/2;
        # dividing by the nominal step instead costs ulp(x)/(2 eps) relative accuracy (seeded C22-h)
        # (every large argument enters the elementary functions on its own: a sum of two large arguments inside f would round the step away)
        "trig_large": (lambda x: np.array([np.sin(x[0]) * np.cos(x[1]), np.cos(x[2]), np.sin(x[2]) * np.sin(x[0])]),
                       lambda x: np.array([[np.cos(x[0]) * np.cos(x[1]), -np.sin(x[0]) * np.sin(x[1]), 0.0], [0, 0, -np.sin(x[2])],
                                           [np.sin(x[2]) * np.cos(x[0]), 0, np.cos(x[2]) * np.sin(x[0])]]),
                       np.array([1.0e4 + 0.3, -2.5e3 + 0.7, 7.1e3 + 0.1])),
        "scalar_arg": (lambda x: np.array([x[0] ** 2, np.sin(x[0])]), lambda x: np.array([2 * x[0], np.cos(x[0])]), np.array([0.9])),
        # functions whose result shares memory with their argument (cardillo's own PointMass.q_dot returns u)
        "identity_alias": (lambda x: x, lambda x: np.eye(3), np.array([0.3, -0.8, 1.2])),
        "view_alias": (lambda x: x[1:], lambda x: np.eye(3)[1:], np.array([0.3, -0.8, 1.2])),
        "matrix_valued": (lambda x: np.outer(x, x), None, np.array([0.3, -0.8, 1.2])),
        "transpose_alias": (lambda X: X.T, None, np.array([[0.5, -0.2], [0.1, 0.9]])),
        "matrix_arg": (lambda X: X @ X, None, np.array([[0.5, -0.2], [0.1, 0.9]])),
    }


def check_afp(case, seed):
    import warnings
    from cardillo.math.approx_fprime import approx_fprime

    fails, outcomes, evals = [], set(), 0
    worst = {}
    fname = case["function"]
    f, df, x0 = _afp_functions()[fname]
    if fname == "matrix_valued":
        n = len(x0)
        ref = np.zeros((n, n, n))
        for i in range(n):
            for j in range(n):
                for k in range(n):
                    ref[i, j, k] = (i == k) * x0[j] + (j == k) * x0[i]
    elif fname == "transpose_alias":
        ref = np.zeros((2, 2, 2, 2))
        for i, j, k, l in itertools.product(range(2), repeat=4):
            ref[i, j, k, l] = float(i == l and j == k)
    elif fname == "matrix_arg":
        X = x0
        ref = np.zeros((2, 2, 2, 2))
        for i, j, k, l in itertools.product(range(2), repeat=4):
            ref[i, j, k, l] = (i == k) * X[l, j] + (j == l) * X[i, k]
    else:
        ref = np.squeeze(df(x0))
    for method, epss, order in (("2-point", [1e-4, 1e-6, 1e-8], 1), ("3-point", [1e-4, 1e-6, 1e-8], 2), ("cs", [1e-6, 1e-12, 1e-30], 2)):
        for eps in epss:
            evals += 1
            with warnings.catch_warnings():
                warnings.simplefilter("ignore")
                got = approx_fprime(x0.copy(), f, method=method, eps=eps)
            letters = {"function": fname, "method": method, "eps": eps}
            if np.shape(got) != np.shape(ref):
                fails.append({"site": "approx_fprime: wrong shape", "msg": f"{letters}: {np.shape(got)} vs {np.shape(ref)}", "data": letters})
                continue
            err = float(np.max(np.abs(got - ref)))
            # method accuracy: C*eps^p truncation + rounding eps_mach/eps (not for cs); C=50 covers the third derivatives of the alphabet
            bound = 50 * eps ** order + (0.0 if method == "cs" else 50 * 2.3e-16 / eps) + 1e-13
            worst[f"max_err_{method}"] = max(worst.get(f"max_err_{method}", 0.0), err / bound)
            outcomes.add(f"afp:{method}")
            if err > bound:
                fails.append({"site": f"approx_fprime[{method}] outside its method's accuracy", "msg": f"{letters}: err {err:.3e} > bound {bound:.3e}", "data": dict(letters, err=err)})
    return fails, outcomes, evals, worst


def cases(tier, seed):
    out = []
    ns = [1, 2, 4, 8]
    for fam in FS_FAMILIES:
        for n in ns:
            out.append({"kind": "fsolve", "family": fam, "n": n, "seed": seed})
    for helper in ("fixed_point_iteration", "fixed_point_iteration_with_momentum"):
        for fam in FP_FAMILIES:
            for n in range(1, 9):
                out.append({"kind": "fp", "helper": helper, "family": fam, "n": n, "seed": seed})
    for fn in _afp_functions():
        out.append({"kind": "afp", "function": fn, "seed": seed})
    return out


def check(case):
    seed = case.get("seed", 0)
    if case["kind"] == "fsolve":
        fails, outcomes, evals, stats = check_fsolve(case, seed)
    elif case["kind"] == "fp":
        fails, outcomes, evals, stats = check_fp(case, seed)
    else:
        fails, outcomes, evals, stats = check_afp(case, seed)
    seen = {}
    n_per_site = {}
    for f in fails:
        n_per_site[f["site"]] = n_per_site.get(f["site"], 0) + 1
        seen.setdefault(f["site"], f)
    for k, f in seen.items():
        f["data"]["count_in_case"] = n_per_site[k]
    return {"fails": list(seen.values()), "nontrivial": evals > 0, "evals": evals, "outcome": sorted(outcomes), "stats": stats}
