"""C13  Finite-element basis, quadrature and connectivity are correct.

Engine E1, finite domain enumerated entirely: degree 1..5 x element count 1..12 x knot data
{uniform (data=None), explicit non-uniform partitions}, and Gauss n=1..N / Lobatto n=2..N on a
list of intervals.  Oracles are exact rational arithmetic (fractions.Fraction): the reference
Lagrange polynomials on equispaced element nodes, their derivatives and integrals, and the
monomial integrals of the quadrature oracle are computed exactly; quadrature sums are evaluated
exactly on the returned float nodes/weights, so the only error measured is that of the rule itself.
"""
import itertools
from fractions import Fraction as Fr

import numpy as np

# imported at module level on purpose: the runner imports this module before forking its workers, so the
# (slow) cardillo import happens once per run instead of once per worker / re-execution
import cardillo.rods.discretization  # noqa: F401  (resolved through PYTHONPATH = $VERIF_REPO)

from vp.core.alphabet import weyl

ID = "C13"
LEVEL = "model_checking"
RULE = (
    "knot cases: every (degree 1..5, nel 1..12, knot data in {uniform data=None; explicit graded, alternating, "
    "seed-generic partitions (nel>=2); explicit [0,1] (nel=1)}) = 230 cases; in each: every xi in {all global nodes, "
    "element boundaries and their floating-point neighbours inside [0,1], element midpoints, 5 seed-generic points} through "
    "LagrangeKnotVector.element_number (scalar and vector call), LagrangeBasis call/deriv(1,2), lagrange_basis1D, "
    "Mesh1D.eval_basis (el=None and every containing element); Mesh1D connectivity over basis{Lagrange,Lagrange_Disc} x "
    "(dim_q,dim_u){(1,-),(3,-),(4,-),(4,3)}; Mesh1D quadrature tables over basis x quadrature{Gauss,Lobatto} x "
    "derivative_order{0,1,2}.  quadrature cases: rule{gauss n=1..N, lobatto n=2..N} x intervals{default,[-1,1],[0,1],[2,5],"
    "[-3,-1.5],[1/4,1/3],seed-generic}, all monomials x^k and centred monomials ((x-c)/h)^k up to the admissible degree "
    "(N=10 quick, 12 thorough). Non-trivial: knot case = at least one basis evaluation compared; quadrature case = "
    "the rule is measurably inexact one degree above the admissible degree (non-vacuity guard)"
)
ASSUMPTIONS = [
    "reference = exact rational Lagrange basis on the equispaced nodes a+k(b-a)/p of the element [a,b] stored by the knot vector",
    "a knot vector whose public constructor fails is rebuilt harness-side with data=element boundaries (what the proposed patch gives) "
    "so that element lookup, basis and mesh are still explored on it; such evaluations are flagged bypass=true",
    "on an element boundary either neighbouring element is accepted from element_number",
    "tolerances: basis values 1e-11*(1+|ref|) (measured noise <= 1e-13), quadrature 1e-11 relative to sum |w_i||f(x_i)| (measured noise <= 3e-14, Lobatto n=10)",
    "node numbering along the rod is consecutive (local node a of element e is global node first(e)+a)",
]
MIN_NONTRIVIAL = 150
CASE_TIMEOUT = 300

DEGREES = [1, 2, 3, 4, 5]
NELS = list(range(1, 13))
BASIS_TOL = 1e-11
QUAD_RTOL = 1e-11
SITE_CTOR = "LagrangeKnotVector(degree, nel, data) vs accepts every element partition"


# ------------------------------------------------------------------------------------------------
# alphabets
# ------------------------------------------------------------------------------------------------
def partition(name, nel, seed):
    """explicit element boundaries 0 = x_0 < ... < x_nel = 1 (floats), None for the uniform default"""
    if name == "uniform":
        return None
    if name == "explicit_unit":
        assert nel == 1
        return [0.0, 1.0]
    if name == "graded":
        lens = [1.3**k for k in range(nel)]
    elif name == "alternating":
        lens = [1.0 if k % 2 == 0 else 3.0 for k in range(nel)]
    elif name == "generic":
        lens = list(0.6 + 0.4 * weyl(seed, 60 + nel, nel))  # in (0.2, 1.0)
    else:
        raise ValueError(name)
    tot = sum(lens)
    xs = [0.0]
    acc = 0.0
    for L in lens[:-1]:
        acc += L
        xs.append(acc / tot)
    xs.append(1.0)
    assert all(b > a for a, b in zip(xs[:-1], xs[1:]))
    return xs


def knot_names(nel):
    return ["uniform", "explicit_unit"] if nel == 1 else ["uniform", "graded", "alternating", "generic"]


INTERVALS = ["default", "[-1,1]", "[0,1]", "[2,5]", "[-3,-1.5]", "[1/4,1/3]", "generic"]


def interval_of(name, seed):
    if name == "default":
        return None
    if name == "generic":
        w = weyl(seed, 77, 2)
        a = 3.0 * w[0]
        return np.array([a, a + 0.1 + 1.5 * abs(w[1])])
    return {"[-1,1]": np.array([-1, 1]), "[0,1]": np.array([0, 1]), "[2,5]": np.array([2, 5]),
            "[-3,-1.5]": np.array([-3.0, -1.5]), "[1/4,1/3]": np.array([0.25, 1.0 / 3.0])}[name]


def cases(tier, seed):
    out = []
    nmax = 10 if tier == "quick" else 12
    # quadrature first (cheapest, simplest)
    for n in range(1, nmax + 1):
        for rule in ("gauss", "lobatto"):
            if rule == "lobatto" and n < 2:
                continue
            for iv in INTERVALS:
                out.append({"kind": "quad", "rule": rule, "n": n, "interval": iv, "seed": seed})
    for degree in DEGREES:
        for nel in NELS:
            for kn in knot_names(nel):
                out.append({"kind": "knot", "degree": degree, "nel": nel, "knot": kn, "seed": seed})
    return out


# ------------------------------------------------------------------------------------------------
# exact reference
# ------------------------------------------------------------------------------------------------
def _pmul(a, b):
    out = [Fr(0)] * (len(a) + len(b) - 1)
    for i, x in enumerate(a):
        for j, y in enumerate(b):
            out[i + j] += x * y
    return out


def _pder(a):
    return [k * a[k] for k in range(1, len(a))] or [Fr(0)]


def _pval(a, s):
    r = Fr(0)
    for c in reversed(a):
        r = r * s + c
    return r


def _pint01(a):
    return sum(c / (k + 1) for k, c in enumerate(a))


_REF = {}


def ref_basis(p):
    """exact coefficient lists (ascending) of l_i(s) on nodes j/p, and of their 1st and 2nd derivatives"""
    if p not in _REF:
        L = []
        for i in range(p + 1):
            poly = [Fr(1)]
            for j in range(p + 1):
                if j != i:
                    poly = _pmul(poly, [Fr(-j, i - j), Fr(p, i - j)])  # (p s - j)/(i - j)
            L.append(poly)
        D1 = [_pder(a) for a in L]
        D2 = [_pder(a) for a in D1]
        _REF[p] = (L, D1, D2)
    return _REF[p]


def ref_eval(p, xi, a, b):
    """exact N, dN/dxi, d2N/dxi2 (as float arrays, shape (3, p+1)) at float xi on element [a,b]"""
    L, D1, D2 = ref_basis(p)
    h = Fr(b) - Fr(a)
    s = (Fr(xi) - Fr(a)) / h
    out = np.zeros((3, p + 1))
    for i in range(p + 1):
        out[0, i] = float(_pval(L[i], s))
        out[1, i] = float(_pval(D1[i], s) / h)
        out[2, i] = float(_pval(D2[i], s) / (h * h))
    return out


# ------------------------------------------------------------------------------------------------
# quadrature cases
# ------------------------------------------------------------------------------------------------
def check_quad(case):
    from cardillo.rods.discretization import gauss, lobatto

    rule, n, seed = case["rule"], case["n"], case["seed"]
    iv = interval_of(case["interval"], seed)
    fun = gauss if rule == "gauss" else lobatto
    fails = []
    stats = {}
    try:
        pts, wts = fun(n) if iv is None else fun(n, interval=iv)
    except Exception as e:  # noqa
        return {"fails": [{"site": f"{rule}(n, interval) raises", "msg": f"{type(e).__name__}: {e}", "data": {"n": n, "exc": type(e).__name__}}],
                "nontrivial": True, "evals": 1}
    pts = np.asarray(pts)
    wts = np.asarray(wts)
    a, b = (-1.0, 1.0) if iv is None else (float(iv[0]), float(iv[1]))
    data0 = {"rule": rule, "n": n, "interval": [a, b], "points": pts, "weights": wts}
    if pts.shape != (n,) or wts.shape != (n,) or not (np.all(np.isfinite(pts.astype(float))) and np.all(np.isfinite(wts.astype(float)))):
        return {"fails": [{"site": f"{rule} returns n finite real points and weights", "msg": f"shapes {pts.shape} {wts.shape}", "data": data0}],
                "nontrivial": True, "evals": 1}
    X = [Fr(float(x)) for x in pts]
    W = [Fr(float(w)) for w in wts]
    A, B = Fr(a), Fr(b)
    C, H = (A + B) / 2, (B - A) / 2
    deg = 2 * n - 1 if rule == "gauss" else 2 * n - 3
    evals = 0
    if rule == "lobatto":
        e = max(abs(float(pts[0]) - a), abs(float(pts[-1]) - b))
        evals += 1
        if e > 1e-15 * max(1.0, abs(a), abs(b)):
            fails.append({"site": "lobatto end points vs interval ends", "msg": f"{e:.3e}", "data": dict(data0, err=e)})

    def relerr(k, centred):
        if centred:
            T = [(x - C) / H for x in X]
            exact = H * (Fr(2, k + 1) if k % 2 == 0 else Fr(0))
        else:
            T = X
            exact = (B ** (k + 1) - A ** (k + 1)) / (k + 1)
        terms = [w * t**k for w, t in zip(W, T)]
        # scale = size of the integral of |f| : sum |w_i f(x_i)|, not below (b-a) max|f| / (k+1)
        M = Fr(1) if centred else max(abs(A), abs(B))
        scale = max(sum(abs(t) for t in terms), abs(B - A) * M**k / (k + 1))
        err = abs(sum(terms) - exact)
        return float(err / scale), float(exact), float(sum(terms))

    for centred in (True, False):
        fam = "centred monomials ((x-c)/h)^k" if centred else "monomials x^k"
        key = "max_relerr_" + rule + ("_centred" if centred else "_monomial")
        for k in range(deg + 1):
            r, ex, got = relerr(k, centred)
            evals += 1
            stats[key] = max(stats.get(key, 0.0), r)
            if r > QUAD_RTOL:
                fails.append({"site": f"{rule} quadrature sum vs exact integral of {fam}",
                              "msg": f"n={n} [{a},{b}] k={k}: rel err {r:.3e}", "data": dict(data0, k=k, relerr=r, exact=ex, got=got)})
                break
    # non-vacuity guard: one degree above the rule must be measurably inexact
    r_above, _, _ = relerr(deg + 1, True)
    stats["min_relerr_one_degree_above"] = r_above
    return {"fails": fails, "nontrivial": bool(r_above > 1e3 * QUAD_RTOL), "evals": evals, "stats": stats,
            "outcome": f"{rule}:" + ("inexact" if fails else "exact")}


# ------------------------------------------------------------------------------------------------
# knot cases
# ------------------------------------------------------------------------------------------------
def _build_knot_vector(case, part, fails):
    """public constructor; on failure record it and rebuild harness-side (flagged bypass)"""
    from cardillo.rods.discretization import LagrangeKnotVector
    import traceback

    p, nel = case["degree"], case["nel"]
    try:
        kv = LagrangeKnotVector(p, nel) if part is None else LagrangeKnotVector(p, nel, data=np.array(part))
        return kv, False
    except Exception as e:  # noqa
        tb = traceback.extract_tb(e.__traceback__)
        fails.append({"site": SITE_CTOR, "msg": f"degree={p} nel={nel} data={case['knot']}: {type(e).__name__} in {tb[-1].name}",
                      "data": {"exc": type(e).__name__, "raised_in": tb[-1].name, "degree": p, "nel": nel, "partition": part}})
    kv = object.__new__(LagrangeKnotVector)
    kv.degree = p
    kv.nel = nel
    kv.data = np.array(part, dtype=float)
    kv.element_data = kv.data
    return kv, True


def _xi_alphabet(bounds, p, seed):
    """sorted list of (xi, tags)"""
    pts = {}

    def add(x, tag):
        x = float(x)
        if 0.0 <= x <= 1.0:
            pts.setdefault(x, set()).add(tag)

    nel = len(bounds) - 1
    for e in range(nel):
        a, b = bounds[e], bounds[e + 1]
        for k in range(p + 1):
            add(a + k * (b - a) / p if k < p else b, "node")
        add(0.5 * (a + b), "mid")
    for x in bounds:
        add(x, "boundary")
        add(np.nextafter(x, -1.0), "below_boundary")
        add(np.nextafter(x, 2.0), "above_boundary")
        # close to an element end without being on it (a few 1e-6 and 1e-7 away): still an ordinary interior parameter
        for dx in (4e-6, 1e-7):
            add(x - dx, "near_boundary")
            add(x + dx, "near_boundary")
    for x in 0.5 * (weyl(seed, 90, 5) + 1.0):
        add(x, "generic")
    return sorted(pts.items())


def _cmp(site, got, ref, order_max, fails, stats, info):
    """got, ref: arrays (>=order_max+1, p+1); value, partition-of-unity / zero-sum checks; returns #evals"""
    n = 0
    got = np.asarray(got, float)
    for d in range(order_max + 1):
        g, r = got[d], ref[d]
        sc = 1.0 + float(np.max(np.abs(r)))
        e = float(np.max(np.abs(g - r))) / sc
        if not np.isfinite(e):
            e = float("inf")
        k = f"max_relerr_basis_d{d}"
        n += 1
        if e > BASIS_TOL:
            dd = dict(info, got=g, ref=r, relerr=e, derivative=d)
            if d >= 2 and "h" in info:
                # diagnostic for the narrow known-finding predicate: chain rule applied once instead of d times
                e2 = float(np.max(np.abs(g / info["h"] ** (d - 1) - r))) / sc
                dd["explained_by_single_division_by_element_length"] = bool(e2 <= BASIS_TOL)
            fails.append({"site": f"{site} [derivative {d}] vs exact rational Lagrange basis", "msg": f"{info}: rel err {e:.3e}", "data": dd})
        else:
            stats[k] = max(stats.get(k, 0.0), e)
        s = float(np.sum(g)) - (1.0 if d == 0 else 0.0)
        ssc = 1.0 + float(np.sum(np.abs(r)))
        n += 1
        if not abs(s) <= BASIS_TOL * ssc:
            nm = "sum N_i = 1 (partition of unity)" if d == 0 else f"sum d^{d}N_i = 0 (zero-sum derivatives)"
            fails.append({"site": f"{site} vs {nm}", "msg": f"{info}: residual {s:.3e}", "data": dict(info, got=g, residual=s)})
        else:
            stats[f"max_sum_residual_d{d}"] = max(stats.get(f"max_sum_residual_d{d}", 0.0), abs(s) / ssc)
    return n


def check_knot(case):
    from cardillo.rods.discretization import LagrangeBasis, Mesh1D, lagrange_basis1D

    p, nel, seed = case["degree"], case["nel"], case["seed"]
    part = partition(case["knot"], nel, seed)
    fails = []
    stats = {}
    evals = 0
    kv, bypass = _build_knot_vector(case, part, fails)
    if bypass:
        stats["n_bypass_constructed_knot_vectors"] = 1
    tagb = {"bypass": bypass, "degree": p, "nel": nel}

    # ---- stored partition
    evals += 1
    try:
        ivs = [np.asarray(kv.element_interval(e), float) for e in range(nel)]
        bounds = [float(ivs[0][0])] + [float(iv[1]) for iv in ivs]
        ok = all(iv.shape == (2,) for iv in ivs) and all(float(ivs[e][1]) == float(ivs[e + 1][0]) for e in range(nel - 1))
        ok = ok and bounds[0] == 0.0 and bounds[-1] == 1.0 and all(b > a for a, b in zip(bounds[:-1], bounds[1:]))
        if part is not None:
            ok = ok and bounds == [float(x) for x in part]
        else:
            ok = ok and all(abs(Fr(bounds[k]) - Fr(k, nel)) <= Fr(1, 2**52) for k in range(nel + 1))
    except Exception as e:  # noqa
        ok = False
        bounds = None
        ivs = repr(e)
    if not ok:
        fails.append({"site": "LagrangeKnotVector.element_interval vs given element partition", "msg": f"{case}", "data": dict(tagb, intervals=ivs, partition=part)})
        return {"fails": fails, "nontrivial": True, "evals": evals, "stats": stats}

    xis = _xi_alphabet(bounds, p, seed)
    xs = [x for x, _ in xis]

    # ---- element lookup
    def containing(x):
        return [e for e in range(nel) if bounds[e] <= x <= bounds[e + 1]]

    site_en = "LagrangeKnotVector.element_number vs element containing xi"
    nbad = 0
    els = {}
    for x, tags in xis:
        evals += 1
        try:
            r = kv.element_number(x)
            el = int(np.asarray(r).reshape(-1)[0])
            good = np.asarray(r).size == 1 and el in containing(x)
        except Exception as e:  # noqa
            el, good = repr(e), False
        els[x] = el if good else None
        if not good:
            nbad += 1
            if nbad <= 3:
                fails.append({"site": site_en, "msg": f"xi={x!r} ({sorted(tags)}) -> {el}, containing {containing(x)}",
                              "data": dict(tagb, xi=x, tags=sorted(tags), got=el, containing=containing(x), call="scalar")})
    evals += 1
    try:
        rv = np.asarray(kv.element_number(np.array(xs)))
        goodv = rv.shape == (len(xs),) and all(int(rv[i]) in containing(x) for i, x in enumerate(xs)) \
            and all(els[x] is None or els[x] == int(rv[i]) for i, x in enumerate(xs))
    except Exception as e:  # noqa
        rv, goodv = repr(e), False
    if not goodv and nbad == 0:
        fails.append({"site": site_en, "msg": "vector call differs from scalar calls / not containing", "data": dict(tagb, got=rv, xis=xs, call="vector")})
    # the same letters in other orders (descending, interleaved, right end repeated): the lookup must not depend on the order
    if nbad == 0:
        orders = {"descending": xs[::-1], "interleaved": xs[1::2] + xs[0::2], "right end repeated": [1.0, xs[len(xs) // 2], 1.0, 0.0, 1.0]}
        for oname, xo in orders.items():
            evals += 1
            try:
                ro = np.asarray(kv.element_number(np.array(xo)))
                goodo = ro.shape == (len(xo),) and all(int(ro[i]) in containing(x) for i, x in enumerate(xo))
            except Exception as e:  # noqa
                ro, goodo = repr(e), False
            if not goodo:
                fails.append({"site": site_en, "msg": f"vector call in {oname} order returns an element that does not contain its xi",
                              "data": dict(tagb, got=ro, xis=xo, call="vector:" + oname)})
                break
    for x0, nm in ((0, "int 0"), (1, "int 1")):
        evals += 1
        try:
            el = int(np.asarray(kv.element_number(x0)).reshape(-1)[0])
            good = el in containing(float(x0))
        except Exception as e:  # noqa
            el, good = repr(e), False
        if not good:
            fails.append({"site": site_en, "msg": f"xi={nm} -> {el}", "data": dict(tagb, xi=x0, got=el, call="python int")})

    # ---- exact reference for every (xi, containing element)
    REF = {}
    for x in xs:
        for e in containing(x):
            REF[(x, e)] = ref_eval(p, x, bounds[e], bounds[e + 1])

    # ---- LagrangeBasis directly, per element
    ncmp = 0
    for e in range(nel):
        a, b = bounds[e], bounds[e + 1]
        pts = [x for x in xs if a <= x <= b]
        info = dict(tagb, element=e, h=b - a)
        try:
            lb = LagrangeBasis(p, interval=kv.element_interval(e))
            V = [np.asarray(lb(pts)), np.asarray(lb.deriv(pts, n=1)), np.asarray(lb.deriv(pts, n=2))]
        except Exception as ex:  # noqa
            fails.append({"site": "LagrangeBasis call/deriv raises", "msg": repr(ex), "data": dict(info, exc=type(ex).__name__)})
            continue
        for i, x in enumerate(pts):
            got = np.stack([V[0][i], V[1][i], V[2][i]])
            ncmp += _cmp("LagrangeBasis.__call__/deriv", got, REF[(x, e)], 2, fails, stats, dict(info, xi=x))
    # ---- Kronecker property at the element nodes (float node positions as used by the library's own constructor)
    for e in range(nel):
        a, b = bounds[e], bounds[e + 1]
        nodes = [a + k * (b - a) / p for k in range(p)] + [b]
        try:
            lb = LagrangeBasis(p, interval=np.array([a, b]))
            Nn = np.asarray(lb(nodes))
            e_k = float(np.max(np.abs(Nn - np.eye(p + 1))))
        except Exception as ex:  # noqa
            Nn, e_k = repr(ex), float("inf")
        ncmp += 1
        if not e_k <= 1e-10:
            fails.append({"site": "LagrangeBasis at element nodes vs Kronecker delta", "msg": f"element {e}: {e_k:.3e}", "data": dict(tagb, element=e, got=Nn, err=e_k)})
        else:
            stats["max_err_kronecker"] = max(stats.get("max_err_kronecker", 0.0), e_k)

    # ---- lagrange_basis1D (element found by the knot vector)
    try:
        NB = np.asarray(lagrange_basis1D(p, np.array(xs), 2, kv, squeeze=False))
        assert NB.shape == (3, len(xs), p + 1), NB.shape
        for i, x in enumerate(xs):
            if els[x] is None:
                continue
            ncmp += _cmp("lagrange_basis1D", NB[:, i, :], REF[(x, els[x])], 2, fails, stats,
                             dict(tagb, xi=x, element=els[x], h=bounds[els[x] + 1] - bounds[els[x]]))
    except Exception as ex:  # noqa
        if nbad == 0:
            fails.append({"site": "lagrange_basis1D raises or has wrong shape", "msg": repr(ex), "data": dict(tagb, exc=type(ex).__name__)})

    # ---- Mesh1D: connectivity product
    for basis, (dq, du) in itertools.product(("Lagrange", "Lagrange_Disc"), ((1, None), (3, None), (4, None), (4, 3))):
        info = dict(tagb, basis=basis, dim_q=dq, dim_u=du)
        try:
            m = Mesh1D(kv, p + 1, dim_q=dq, derivative_order=1, basis=basis, quadrature="Gauss", dim_u=du)
        except Exception as ex:  # noqa
            fails.append({"site": "Mesh1D constructor raises", "msg": repr(ex), "data": dict(info, exc=type(ex).__name__)})
            continue
        evals += 1
        msg = _connectivity(m, basis, p, nel, dq, dq if du is None else du)
        if msg:
            fails.append({"site": f"Mesh1D[{basis}] elDOF/nodalDOF vs shared-node connectivity", "msg": msg[0], "data": dict(info, which=msg[1], detail=msg[2])})
        # eval_basis on the first dims letter only (independent of dim_q)
        if (dq, du) == (1, None):
            for x in xs:
                for el_arg in [None] + containing(x):
                    e_ref = els[x] if el_arg is None else el_arg
                    if e_ref is None:
                        continue
                    try:
                        got = np.asarray(m.eval_basis(x, el_arg) if el_arg is not None else m.eval_basis(x), float).reshape(2, p + 1)
                    except Exception as ex:  # noqa
                        fails.append({"site": f"Mesh1D[{basis}].eval_basis raises or has wrong shape", "msg": repr(ex), "data": dict(info, xi=x, el=el_arg)})
                        continue
                    ncmp += _cmp(f"Mesh1D[{basis}].eval_basis", got, REF[(x, e_ref)], 1, fails, stats, dict(info, xi=x, el=el_arg, element=e_ref))
            # vector calls: several parameters at once, elements looked up per parameter (el=None), given per parameter,
            # and one explicit element broadcast over parameters of that element (seeded C13-i)
            xv = [x for x in xs if els[x] is not None]
            for how in ("None", "list"):
                try:
                    NV = np.asarray(m.lagrange_basis1D(np.array(xv), None if how == "None" else [els[x] for x in xv], squeeze=False), float)
                    assert NV.shape == (2, len(xv), p + 1), NV.shape
                    for i, x in enumerate(xv):
                        ncmp += _cmp(f"Mesh1D[{basis}].lagrange_basis1D (vector of parameters, els={how})", NV[:, i, :], REF[(x, els[x])], 1, fails, stats,
                                     dict(info, xi=x, element=els[x], n_parameters=len(xv)))
                except Exception as ex:  # noqa
                    fails.append({"site": f"Mesh1D[{basis}].lagrange_basis1D (vector of parameters) raises or has wrong shape", "msg": repr(ex), "data": dict(info, els=how)})
            try:
                NV = np.asarray(m.eval_basis(tuple(xv)), float).reshape(2, len(xv), p + 1)
                for i, x in enumerate(xv):
                    ncmp += _cmp(f"Mesh1D[{basis}].eval_basis (tuple of parameters)", NV[:, i, :], REF[(x, els[x])], 1, fails, stats,
                                 dict(info, xi=x, element=els[x], n_parameters=len(xv)))
            except Exception as ex:  # noqa
                fails.append({"site": f"Mesh1D[{basis}].eval_basis (tuple of parameters) raises or has wrong shape", "msg": repr(ex), "data": dict(info)})
            # global Kronecker property: basis function of global node j at node i (through element lookup + elDOF)
            try:
                msgk = _global_kronecker(m, kv, basis, p, nel, bounds)
            except Exception as ex:  # noqa
                msgk = None
                if nbad == 0:  # otherwise the root cause (element lookup) is already reported
                    msgk = f"raises {ex!r}"
            ncmp += 1
            if msgk:
                fails.append({"site": f"Mesh1D[{basis}] nodal basis through elDOF vs Kronecker delta at global nodes", "msg": msgk, "data": info})

    # ---- Mesh1D: quadrature table product
    L, D1, D2 = ref_basis(p)
    for basis, quad, dorder in itertools.product(("Lagrange", "Lagrange_Disc"), ("Gauss", "Lobatto"), (0, 1, 2)):
        info = dict(tagb, basis=basis, quadrature=quad, derivative_order=dorder)
        nq = p + 1
        try:
            m = Mesh1D(kv, nq, dim_q=3, derivative_order=dorder, basis=basis, quadrature=quad)
            tabs = [m.N] + ([m.N_xi] if dorder > 0 else []) + ([m.N_xixi] if dorder > 1 else [])
            qp, wp = np.asarray(m.qp, float), np.asarray(m.wp, float)
            assert qp.shape == (nel, nq) and wp.shape == (nel, nq)
            assert all(np.asarray(t).shape == (nel, nq, p + 1) for t in tabs)
        except Exception as ex:  # noqa
            fails.append({"site": "Mesh1D constructor/tables raise or have wrong shape", "msg": repr(ex), "data": dict(info, exc=type(ex).__name__)})
            continue
        for e in range(nel):
            a, b = bounds[e], bounds[e + 1]
            h = b - a
            evals += 1
            inside = bool(np.all(qp[e] >= a - 1e-15) and np.all(qp[e] <= b + 1e-15))
            wsum = abs(float(np.sum(wp[e])) - h) / h
            if not inside or not wsum <= 1e-13:
                fails.append({"site": "Mesh1D.qp/wp vs element interval", "msg": f"element {e}: inside={inside} weight-sum rel err {wsum:.2e}",
                              "data": dict(info, element=e, qp=qp[e], wp=wp[e], interval=[a, b])})
                continue
            stats["max_relerr_weight_sum"] = max(stats.get("max_relerr_weight_sum", 0.0), wsum)
            for q in range(nq):
                x = float(np.clip(qp[e, q], a, b))
                ref = ref_eval(p, x, a, b)
                got = np.stack([np.asarray(t, float)[e, q] for t in tabs])
                ncmp += _cmp("Mesh1D.N/N_xi/N_xixi tables", got, ref, dorder, fails, stats, dict(info, element=e, q=q, xi=x, h=h))
            # integrals of the basis functions and of their derivatives through the mesh tables (exact rational oracle)
            exact = [[float(_pint01(L[i])) * h for i in range(p + 1)],
                     [float(_pval(L[i], Fr(1)) - _pval(L[i], Fr(0))) for i in range(p + 1)],
                     [float(_pval(D1[i], Fr(1)) - _pval(D1[i], Fr(0))) / h for i in range(p + 1)]]
            for d, t in enumerate(tabs):
                got = wp[e] @ np.asarray(t, float)[e]
                sc = 1.0 + float(np.max(np.abs(exact[d])))
                er = float(np.max(np.abs(got - np.array(exact[d])))) / sc
                evals += 1
                if not er <= 1e-11:
                    dd = dict(info, element=e, got=got, exact=exact[d], relerr=er, derivative=d, h=h)
                    if d >= 2:
                        dd["explained_by_single_division_by_element_length"] = bool(
                            float(np.max(np.abs(got / h ** (d - 1) - np.array(exact[d])))) / sc <= 1e-11)
                    fails.append({"site": f"Mesh1D sum_q wp*N table [derivative {d}] vs exact integral of the basis", "msg": f"element {e}: rel err {er:.3e}", "data": dd})
                else:
                    stats["max_relerr_table_integrals"] = max(stats.get("max_relerr_table_integrals", 0.0), er)

    # ---- after all the mesh evaluations above: a FRESH basis on the default interval, and one on a caller-owned interval
    # array, must not be influenced by (or write into) anything earlier objects used
    try:
        lb = LagrangeBasis(p)
        nodes01 = [k / p for k in range(p + 1)]
        e_k = float(np.max(np.abs(np.asarray(lb(nodes01)) - np.eye(p + 1))))
    except Exception as ex:  # noqa
        e_k = float("inf")
    ncmp += 1
    if not e_k <= 1e-10:
        fails.append({"site": "fresh LagrangeBasis on the default interval [0,1] vs Kronecker delta at its nodes (after other bases were used)",
                      "msg": f"{e_k:.3e}", "data": dict(tagb, err=e_k)})
    try:
        own = np.array([0.25, 0.75])
        lb2 = LagrangeBasis(p, interval=own)
        lb2(np.array([0.3]))
        lb3 = LagrangeBasis(p, interval=np.array([0.0, 0.5]))
        lb3(np.array([0.1]))
        mod = not np.array_equal(own, np.array([0.25, 0.75]))
    except Exception as ex:  # noqa
        mod = True
    ncmp += 1
    if mod:
        fails.append({"site": "LagrangeBasis modifies the interval array of its caller", "msg": "interval array changed", "data": dict(tagb)})

    evals += ncmp
    stats["n_xi_letters"] = len(xs)
    # keep the report small: at most 3 fails per site
    cnt = {}
    kept = []
    for f in fails:
        cnt[f["site"]] = cnt.get(f["site"], 0) + 1
        if cnt[f["site"]] <= 3:
            kept.append(f)
    return {"fails": kept, "nontrivial": ncmp > 0, "evals": evals, "stats": stats,
            "outcome": ("bypass" if bypass else "constructed") + (":violates" if any(f["site"] != SITE_CTOR for f in kept) else ":holds")}


def _connectivity(m, basis, p, nel, dq, du):
    """None or (message, which, detail)"""
    nn = nel * p + 1 if basis == "Lagrange" else nel * (p + 1)
    step = p if basis == "Lagrange" else p + 1
    for which, elDOF, nodalDOF, nodalDOF_el, dim, ntot in (
        ("q", m.elDOF, m.nodalDOF, m.nodalDOF_element, dq, m.nq),
        ("u", m.elDOF_u, m.nodalDOF_u, m.nodalDOF_element_u, du, m.nu),
    ):
        elDOF, nodalDOF, nodalDOF_el = np.asarray(elDOF), np.asarray(nodalDOF), np.asarray(nodalDOF_el)
        if m.nnodes != nn or ntot != nn * dim:
            return (f"nnodes={m.nnodes} n{which}={ntot}, expected {nn} nodes x {dim}", which, None)
        if nodalDOF.shape != (nn, dim) or sorted(nodalDOF.reshape(-1).tolist()) != list(range(nn * dim)):
            return ("nodalDOF is not a partition of all DOFs into nodes", which, nodalDOF)
        if elDOF.shape != (nel, (p + 1) * dim) or nodalDOF_el.shape != (p + 1, dim):
            return (f"elDOF shape {elDOF.shape} / nodalDOF_element shape {nodalDOF_el.shape}", which, None)
        if sorted(nodalDOF_el.reshape(-1).tolist()) != list(range((p + 1) * dim)):
            return ("nodalDOF_element is not a partition of the element DOFs", which, nodalDOF_el)
        node_of = {tuple(nodalDOF[n].tolist()): n for n in range(nn)}
        sets = []
        for e in range(nel):
            row = elDOF[e]
            if len(set(row.tolist())) != row.size or row.min() < 0 or row.max() >= nn * dim:
                return (f"elDOF[{e}] has repeated or out-of-range entries", which, row)
            # local node a of element e is global node first(e)+a, with identical component order
            for a in range(p + 1):
                n = node_of.get(tuple(row[nodalDOF_el[a]].tolist()))
                if n != e * step + a:
                    return (f"elDOF[{e}][nodalDOF_element[{a}]] is node {n}, expected node {e * step + a}", which, row[nodalDOF_el[a]])
            sets.append(set(row.tolist()))
        for e, f in itertools.combinations(range(nel), 2):
            inter = sets[e] & sets[f]
            if f == e + 1 and basis == "Lagrange":
                want = set(nodalDOF[(e + 1) * p].tolist())
            else:
                want = set()
            if inter != want:
                return (f"elDOF[{e}] & elDOF[{f}] = {sorted(inter)}, expected {sorted(want)}", which, None)
        if set().union(*sets) != set(range(nn * dim)):
            return ("union of elDOF rows is not the set of all DOFs", which, None)
    return None


def _global_kronecker(m, kv, basis, p, nel, bounds):
    """value of the (single-component) interpolation of the nodal vector e_j at node i must be delta_ij"""
    nn = m.nnodes
    step = p if basis == "Lagrange" else p + 1
    for e in range(nel):
        a, b = bounds[e], bounds[e + 1]
        for k in range(p + 1):
            x = a + k * (b - a) / p if k < p else b
            i = e * step + k
            if basis == "Lagrange":
                N = np.asarray(m.eval_basis(x), float).reshape(2, p + 1)[0]
                el = int(kv.element_number(x)[0])
            else:
                # discontinuous basis: the node belongs to element e only, evaluate on that element
                N = np.asarray(m.eval_basis(x, e), float).reshape(2, p + 1)[0]
                el = e
            glob = np.zeros(nn)
            glob[np.asarray(m.elDOF)[el][np.asarray(m.nodalDOF_element)[:, 0]]] = N  # dim_q = 1
            want = np.zeros(nn)
            want[np.asarray(m.nodalDOF)[i, 0]] = 1.0
            if not np.max(np.abs(glob - want)) <= 1e-10:
                return f"node {i} (element {e}, local {k}, xi={x!r}): nodal values {glob.tolist()}"
    return None


def check(case):
    if case["kind"] == "quad":
        return check_quad(case)
    return check_knot(case)
