"""C01  Quaternion rotation kernel is algebraically exact.

Engine E1 (complete product grid).  Every identity of the property, multiplied through by the
appropriate power of |P|^2, is a polynomial identity of per-variable degree <= 4 (<= 2 for the
product homomorphism in each of P and Q); the grid {-2..3}^4 \\ {0} contains the origin-free product
{-2,-1,1,2,3}^4 with 5 values per variable, so vanishing on the grid decides the identity for
every implementation that stays in that rational degree class (DESIGN 2.3).  At integer points a
non-zero residual is a rational with denominator <= 36^2, i.e. >= 7e-4, rounding noise is <= 1e-13.

Checked (sites):
  Exp_SO3_quat: R^T R = I, det R = +1, R = independent Euler-Rodrigues reference, R(sP) = R(P)
  Exp_SO3_quat(quatprod(P,Q)) = Exp_SO3_quat(P) Exp_SO3_quat(Q)
  T_SO3_quat(P) T_SO3_inv_quat(P) = I3
  P_dot = T_SO3_inv_quat(P) w  =>  R^T (Exp_SO3_quat_P . P_dot) = skew(w)   (body-fixed spin, no symmetric part)
  Exp_SO3_quat_P = d/dP Exp_SO3_quat  (complex step on the implemented map + exact rational quotient rule)
  normalize=False variants of all of the above on exactly-unit letters only
  algebra.py: ax2skew(a) b = a x b = cross3(a,b), ax2skew_squared = ax2skew^2, skew2ax(ax2skew(a)) = a
"""
import itertools
from fractions import Fraction

import numpy as np

from vp.core import alphabet as al

ID = "C01"
LEVEL = "model_checking"
RULE = (
    "P over the full integer grid {-2..3}^4 minus 0 (1295 letters, one case per (p0,p1,p2) prefix) plus 6 seed-rotated "
    "generic non-unit quaternions; per P: 6 scale factors, all Q in {-1,0,1}^4 minus 0 (quick) or the full grid (thorough), "
    "27 lattice + 3 generic angular velocities, 4+2 derivative directions; normalize=False only on the exactly-unit "
    "letters (grid points whose squared norm is a perfect square, divided by the integer norm); algebra helpers on the "
    "full product a,b in {-2..2}^3.  A case is non-trivial if at least one nonzero P (or pair a,b) was evaluated"
)
ASSUMPTIONS = [
    "grid completeness (Combinatorial Nullstellensatz) holds for implementations that are rational functions of per-variable degree <= 4 in P; other mutations are covered at the grid and generic letters only",
    "reference rotation = Euler-Rodrigues entries written out independently (vp.core.alphabet.quat_to_A and an exact Fraction/integer numerator)",
    "complex-step derivative of Exp_SO3_quat is exact to rounding (kernel is a rational expression in P without conjugation)",
    "normalize=False is specified for unit quaternions only, except that Exp_SO3_quat_P(.,False) must be the derivative of the polynomial map Exp_SO3_quat(.,False) at every P",
]
MIN_NONTRIVIAL = 100
TOL = 1e-9

GRID = list(range(-2, 4))
SCALES = [-3.0, -0.5, 1.0 / 3.0, 2.0, 1e-3, 1e3, 1e-9, -1e-12, 1e-30, 1e12]
TINY = [1e-9, 1e-12, 1e-30]  # 'any length': short but non-zero quaternions (seeded C01-f: tolerance on the squared length)
I3 = np.eye(3)


def _num(P):
    """numerator N(P) = |P|^2 R(P) of the Euler-Rodrigues matrix; works for int / Fraction / float entries"""
    a, b, c, d = P
    return [
        [a * a + b * b - c * c - d * d, 2 * (b * c - a * d), 2 * (b * d + a * c)],
        [2 * (b * c + a * d), a * a - b * b + c * c - d * d, 2 * (c * d - a * b)],
        [2 * (b * d - a * c), 2 * (c * d + a * b), a * a - b * b - c * c + d * d],
    ]


def ref_R_P(P, normalize=True):
    """exact (Fraction for integer P) derivative of R = N/|P|^2 by the quotient rule; dN/dP_k by central
    differences with step 1, exact for quadratics.  normalize=False: derivative of the polynomial
    I + 2 (p0 p~ + p~^2) = N(P) + (1 - |P|^2) I."""
    exact = all(float(x).is_integer() for x in P)
    Pq = [Fraction(int(x)) for x in P] if exact else [float(x) for x in P]
    n2 = sum(x * x for x in Pq)
    N = _num(Pq)
    out = np.zeros((3, 3, 4))
    for k in range(4):
        Pp = list(Pq)
        Pm = list(Pq)
        Pp[k] = Pp[k] + 1
        Pm[k] = Pm[k] - 1
        Np, Nm = _num(Pp), _num(Pm)
        for i in range(3):
            for j in range(3):
                dN = (Np[i][j] - Nm[i][j]) / 2
                if normalize:
                    val = dN / n2 - 2 * Pq[k] * N[i][j] / (n2 * n2)
                else:
                    val = dN - (2 * Pq[k] if i == j else 0)
                out[i, j, k] = float(val)
    return out


def unit_letters():
    """grid points with perfect-square squared norm, divided by the integer norm (exactly unit up to one rounding)"""
    out = []
    seen = set()
    for p in itertools.product(GRID, repeat=4):
        n2 = sum(x * x for x in p)
        if n2 == 0:
            continue
        r = int(round(n2 ** 0.5))
        if r * r != n2:
            continue
        key = tuple(Fraction(x, r) for x in p)
        if key in seen:
            continue
        seen.add(key)
        out.append([x / r for x in p])
    return out


def q_letters(tier):
    if tier == "quick":
        return [list(map(float, q)) for q in itertools.product((-1, 0, 1), repeat=4) if any(q)]
    return [list(map(float, q)) for q in itertools.product(GRID, repeat=4) if any(q)]


def omega_letters(seed):
    W = [np.array(w, float) for w in itertools.product((-1, 0, 1), repeat=3)]  # includes 0
    W += [al.generic_vec(seed, 40 + k, 3, 2.5) for k in range(3)]
    return W


def cases(tier, seed):
    out = []
    for p0, p1, p2 in itertools.product(GRID, repeat=3):
        out.append({"kind": "grid", "prefix": [p0, p1, p2], "tier": tier, "seed": seed})
    for k in range(6):
        out.append({"kind": "generic", "P": al.generic_quat(seed, k).tolist(), "tier": tier, "seed": seed})
    # nearly (but not exactly) unit quaternions and numerically normalised ones: no 'is unit' short-cut may apply to them
    # with a tolerance (seeded C01-h)
    for k in range(4):
        g = np.asarray(al.generic_quat(seed, 30 + k), float)
        g = g / np.sqrt(g @ g)
        for f in (1.0, 1 + 4e-6, 1 - 3e-6, 1 + 2e-9, 1 - 1e-12):
            out.append({"kind": "generic", "P": (f * g).tolist(), "tier": tier, "seed": seed, "near_unit_factor": f})
    U = unit_letters()
    nb = 24
    for b in range(nb):
        out.append({"kind": "unit", "block": b, "nblocks": nb, "tier": tier, "seed": seed})
    for a0, a1 in itertools.product(range(-2, 3), repeat=2):
        out.append({"kind": "algebra", "prefix": [a0, a1], "seed": seed})
    return out


class _Fails:
    def __init__(self):
        self.by_site = {}
        self.stats = {}

    def cmp(self, site, got, ref, tol, data, stat=None):
        got = np.asarray(got, float)
        ref = np.asarray(ref, float)
        if got.shape != ref.shape:
            e = float("inf")
        else:
            d = np.abs(got - ref)
            e = float("inf") if (d.size and not np.all(np.isfinite(d))) else (float(d.max()) if d.size else 0.0)
        if stat:
            k = "max_err_" + stat
            self.stats[k] = max(self.stats.get(k, 0.0), e if np.isfinite(e) else 1e300)
        if not (e <= tol):
            if site not in self.by_site:
                dd = dict(data)
                dd.update({"err": e, "tol": tol})
                self.by_site[site] = {"site": site, "msg": f"error {e:.3e} > {tol:.1e} at {data}", "data": dd}
            return False
        return True

    def list(self):
        return list(self.by_site.values())


def _check_P(P, normalize, Qs, Ws, dirs, F, tag, scales=True):
    """all identities for one quaternion letter; returns number of oracle evaluations"""
    from cardillo.math import (Exp_SO3_quat, Exp_SO3_quat_P, T_SO3_quat, T_SO3_inv_quat, quatprod)

    P = np.asarray(P, float)
    d = {"P": P.tolist(), "normalize": normalize}
    sfx = "" if normalize else " [normalize=False, unit P]"
    n = 0
    R = Exp_SO3_quat(P, normalize=normalize)
    F.cmp("Exp_SO3_quat: R^T R = I" + sfx, R.T @ R, I3, TOL, d, "orth")
    F.cmp("Exp_SO3_quat: det R = 1" + sfx, np.linalg.det(R), 1.0, TOL, d, "det")
    F.cmp("Exp_SO3_quat vs Euler-Rodrigues reference" + sfx, R, al.quat_to_A(P), TOL, d, "ref")
    n += 3
    if scales:
        for s in SCALES:
            F.cmp("Exp_SO3_quat: R(sP) = R(P)", Exp_SO3_quat(s * P), R, TOL, dict(d, s=s), "scale")
            n += 1
        for s in TINY:
            Ps = s * P
            F.cmp("T_SO3_quat T_SO3_inv_quat = I [tiny P]", T_SO3_quat(Ps) @ T_SO3_inv_quat(Ps), I3, TOL, dict(d, s=s), "TTinv_tiny")
            for Q in Qs[:3]:
                Qs_ = s * np.asarray(Q, float)
                F.cmp("Exp_SO3_quat(quatprod(P,Q)) = R(P) R(Q) [tiny P, Q]", Exp_SO3_quat(quatprod(Ps, Qs_)), R @ Exp_SO3_quat(np.asarray(Q, float)), TOL, dict(d, s=s, Q=list(map(float, Q))), "hom_tiny")
                n += 1
            n += 1
    # product homomorphism
    for Q in Qs:
        Q = np.asarray(Q, float)
        PQ = quatprod(P, Q)
        RQ = Exp_SO3_quat(Q, normalize=normalize)
        F.cmp("Exp_SO3_quat(quatprod(P,Q)) = R(P) R(Q)" + sfx, Exp_SO3_quat(PQ, normalize=normalize), R @ RQ, TOL, dict(d, Q=Q.tolist()), "hom")
        n += 1
    # the product itself against an independent Hamilton product, also with integer-dtype factors (either side)
    if normalize and np.all(P == np.round(P)):
        Qg = np.array([0.3, -1.2, 0.7, 2.1])
        for nm, a, b in (("int P, float Q", P.astype(np.int64), Qg), ("float P, int Q", Qg, P.astype(np.int64)), ("int P, int Q", P.astype(np.int64), P.astype(np.int64)[::-1].copy())):
            F.cmp("quatprod vs Hamilton product [" + nm + "]", np.asarray(quatprod(a, b), float), al.quat_mul(np.asarray(a, float), np.asarray(b, float)), TOL, dict(d, dtypes=nm), "quatprod_dtype")
            n += 1
    # tangent map and inverse
    T = T_SO3_quat(P, normalize=normalize)
    Ti = T_SO3_inv_quat(P, normalize=normalize)
    F.cmp("T_SO3_quat T_SO3_inv_quat = I" + sfx, T @ Ti, I3, TOL, d, "TTinv")
    n += 1
    if normalize:
        # the pairing used by the bodies' kinematic equation: the NORMALISING tangent map with the inverse evaluated with
        # normalize=False (q_dot = T_SO3_inv_quat(p, normalize=False) omega) is the identity for quaternions of any length
        F.cmp("T_SO3_quat(P) T_SO3_inv_quat(P, normalize=False) = I", T @ T_SO3_inv_quat(P, normalize=False), I3, TOL, d, "TTinv_mixed_flags")
        n += 1
    # derivative of the rotation matrix: implemented map (complex step) and exact rational reference
    R_P = Exp_SO3_quat_P(P, normalize=normalize)
    F.cmp("Exp_SO3_quat_P vs exact rational derivative" + sfx.replace(", unit P", ""), R_P, ref_R_P(P, normalize), TOL, d, "RP_rational")
    n += 1
    h = 1e-30
    for v in dirs:
        v = np.asarray(v, float)
        Rc = Exp_SO3_quat(P.astype(complex) + 1j * h * v, normalize=normalize)
        F.cmp("Exp_SO3_quat_P vs complex-step derivative of Exp_SO3_quat" + sfx.replace(", unit P", ""), R_P @ v, np.imag(Rc) / h, TOL * max(1.0, 1.0 / np.sqrt(P @ P)), dict(d, v=v.tolist()), "RP_cs")
        n += 1
    # kinematic identity
    for w in Ws:
        P_dot = Ti @ w
        R_dot = R_P @ P_dot
        W = R.T @ R_dot
        sc = max(1.0, float(np.max(np.abs(w))))
        F.cmp("body-fixed spin of P_dot = T_SO3_inv_quat(P) w" + sfx, 0.5 * np.array([W[2, 1] - W[1, 2], W[0, 2] - W[2, 0], W[1, 0] - W[0, 1]]), w, TOL * sc, dict(d, w=w.tolist()), "spin")
        F.cmp("R^T R_dot is skew" + sfx, W + W.T, np.zeros((3, 3)), TOL * sc, dict(d, w=w.tolist()), "spin_sym")
        F.cmp("T_SO3_quat(P) P_dot = w" + sfx, T @ P_dot, w, TOL * sc, dict(d, w=w.tolist()), "TPdot")
        n += 3
    return n


def _dirs(seed):
    return [np.eye(4)[k] for k in range(4)] + [al.weyl(seed, 60 + k, 4) for k in range(2)]


def check(case):
    from vp.scen import rotlib

    rotlib.math()  # cardillo.math from $VERIF_REPO without the (slow) package __init__
    F = _Fails()
    kind = case["kind"]
    seed = case.get("seed", 0)
    n = 0
    nP = 0
    if kind in ("grid", "generic"):
        Qs = q_letters(case["tier"]) + [al.generic_quat(seed, 20 + k).tolist() for k in range(2)]
        Ws = omega_letters(seed)
        dirs = _dirs(seed)
        if kind == "grid":
            Ps = [case["prefix"] + [p3] for p3 in GRID if any(case["prefix"]) or p3 != 0]
        else:
            Ps = [case["P"]]
        for P in Ps:
            n += _check_P(P, True, Qs, Ws, dirs, F, kind)
            # the non-normalising derivative routine is the derivative of the polynomial map at every P
            from cardillo.math import Exp_SO3_quat, Exp_SO3_quat_P

            Pa = np.asarray(P, float)
            R_P = Exp_SO3_quat_P(Pa, normalize=False)
            F.cmp("Exp_SO3_quat_P vs exact rational derivative [normalize=False]", R_P, ref_R_P(Pa, False), TOL * max(1.0, float(np.max(np.abs(Pa)))), {"P": list(P), "normalize": False}, "RP_rational_nonorm")
            for v in dirs[:4]:
                Rc = Exp_SO3_quat(Pa.astype(complex) + 1j * 1e-30 * v, normalize=False)
                F.cmp("Exp_SO3_quat_P vs complex-step derivative of Exp_SO3_quat [normalize=False]", R_P @ v, np.imag(Rc) / 1e-30, TOL * max(1.0, float(np.max(np.abs(Pa)))), {"P": list(P), "normalize": False, "v": v.tolist()}, "RP_cs_nonorm")
            n += 5
            nP += 1
    elif kind == "unit":
        U = unit_letters()
        mine = U[case["block"]:: case["nblocks"]]
        QU = [q for q in U if all(abs(abs(2 * x) - round(abs(2 * x))) < 1e-12 for x in q)]  # units with entries in {0,+-1/2,+-1}
        Ws = omega_letters(seed)
        dirs = _dirs(seed)
        for P in mine:
            n += _check_P(P, False, QU, Ws, dirs, F, kind, scales=False)
            nP += 1
    elif kind == "algebra":
        from cardillo.math import ax2skew, ax2skew_squared, skew2ax, cross3

        a0, a1 = case["prefix"]
        gen = [al.generic_vec(seed, 70 + k, 3, 2.0) for k in range(2)]
        As = [np.array([a0, a1, a2], float) for a2 in range(-2, 3)]
        if (a0, a1) == (0, 0):
            As += gen
        Bs = [np.array(b, float) for b in itertools.product(range(-2, 3), repeat=3)] + gen
        for a in As:
            S = ax2skew(a)
            d = {"a": a.tolist()}
            F.cmp("ax2skew is skew", S + S.T, np.zeros((3, 3)), 0.0, d)
            F.cmp("ax2skew_squared = ax2skew @ ax2skew", ax2skew_squared(a), S @ S, 1e-12, d, "skew2")
            F.cmp("skew2ax(ax2skew(a)) = a", skew2ax(S), a, 1e-15, d)
            n += 3
            for b in Bs:
                ref = np.array([a[1] * b[2] - a[2] * b[1], a[2] * b[0] - a[0] * b[2], a[0] * b[1] - a[1] * b[0]])
                db = dict(d, b=b.tolist())
                F.cmp("ax2skew(a) b = a x b", S @ b, ref, 1e-12, db, "cross")
                F.cmp("cross3(a,b) = a x b", cross3(a, b), ref, 1e-12, db, "cross3")
                n += 2
            nP += 1
    else:
        raise ValueError(kind)
    return {"fails": F.list(), "nontrivial": nP > 0, "evals": n, "stats": dict(F.stats, n_letters=nP)}
