"""C29  VTK export writes what was simulated.

E1: (A) frame selection: complete product solution length x horizon x fps x overwrite x write_ascii on hand-built
Solution objects; (B) geometry: every exportable contribution kind x solution letters x write_ascii; (C) a real 50-step
Moreau run; (D) System.export.  Every written .pvd is parsed (xml), every listed .vtu is read back with
vtkXMLUnstructuredGridReader and compared with geometry the harness evaluates itself from the ORIGINAL solution row that
belongs to the listed time.  All files live in a tempfile.mkdtemp() directory that is removed in a finally block.
"""
import math
import os
import re
import shutil
import tempfile
import xml.dom.minidom

import numpy as np

from vp.core.alphabet import axis_angle_quat, generic_unit, generic_vec, quat_to_A, weyl

ID = "C29"
LEVEL = "exploration"
RULE = (
    "A frames: point-mass export x len(t) in {1,2,7,50,101} x horizon in {0.05,1,2.5} x fps in {1,10,50,1000} x overwrite{T,F} x write_ascii{T,F}, each export done twice "
    "(second Export on the same folder, second export_contr of the same contribution); B geometry: 19 contribution kinds (RigidBody, PointMass, moving Frame, Box/Sphere bodies, "
    "Sphere2Plane with/without friction, FixedDistance line and wedge, spring on TwoPointInteraction, Force, B_Force, Moment, B_Moment, list of point masses, rod levels "
    "'centerline + directors' / 'NodalVolume' (circular wedge, circular quad, rectangular) / 'volume' (structure only)) x 4 solution letters (thorough: all 60) x write_ascii{T,F}; "
    "C: real Moreau run (50 steps, ball on plane) x fps{10,50,1000} x 3 contributions; D: System.export. Non-trivial = at least one .vtu was read back and compared"
)
ASSUMPTIONS = [
    "exported geometry is compared with values the harness computes from the original solution row whose time equals the listed time (rigid bodies: own quaternion->matrix; rods: nodal "
    "coordinates of the row; moving frame: analytic motion); mesh vertices of Sphere bodies are taken from the body's stored mesh, Box corners are computed by the harness",
    "the .pvd writes times with 6 decimals: listed time must be within 5.1e-7 of a time of the solution; points are float32 in the file: tolerance 2e-6*(1+|x|), other arrays 1e-9*(1+|x|)",
    "frame-rate contract checked (weakest reading): exported frames are distinct rows of the solution in increasing time order starting with the first row, at least "
    "min(len(t), max(1, floor(horizon*fps - 1e-9))) of them and at most len(t); the exact stride is not prescribed",
    "rod level 'volume' (L2 projection on Bezier cells) has no independent geometric oracle here: only file/frame structure and finiteness are checked",
    "requested data mode: write_ascii=False must give format='binary' DataArrays, True 'ascii'",
]
MIN_NONTRIVIAL = 50
CASE_TIMEOUT = 300

LENS = [1, 2, 7, 50, 101]
HORIZONS = [0.05, 1.0, 2.5]
FPS = [1, 10, 50, 1000]
KINDS = ["rb", "pm", "mframe", "rframe", "box", "ball", "contact", "contact_m", "contact0", "fd", "fd_wedge", "spring", "force", "bforce", "moment", "bmoment", "pmlist", "contactlist",
         "rod_cl", "rod_nv_wedge", "rod_nv_quad", "rod_nv_rect", "rod_volume"]
T0 = 0.3
VTK_VERTEX, VTK_LINE, VTK_TRIANGLE = 1, 3, 5


def cases(tier, seed):
    out = []
    for n in LENS:
        for T in HORIZONS:
            for fps in FPS:
                for ow in (True, False):
                    for asc in (False, True):
                        out.append({"part": "frames", "kind": "pm", "n": n, "T": T, "fps": fps, "overwrite": ow, "ascii": asc, "seed": seed})
    if tier == "thorough":
        letters = [(n, T, fps) for n in LENS for T in HORIZONS for fps in FPS]
    else:
        letters = [(1, 1.0, 50), (7, 2.5, 1), (50, 1.0, 10), (101, 0.05, 1000)]
    for kind in KINDS:
        for (n, T, fps) in letters:
            for asc in (False, True):
                out.append({"part": "geometry", "kind": kind, "n": n, "T": T, "fps": fps, "overwrite": True, "ascii": asc, "seed": seed})
    for fps in (10, 50, 1000):
        for kind in ("contact_run", "ball_run", "force_run"):
            out.append({"part": "run", "kind": kind, "fps": fps, "overwrite": True, "ascii": False, "seed": seed})
    for asc in (False,):
        out.append({"part": "system_export", "kind": "all", "n": 7, "T": 1.0, "fps": 10, "overwrite": True, "ascii": asc, "seed": seed})
    return out


# ------------------------------------------------------------------------------------------------
# scene
# ------------------------------------------------------------------------------------------------
def _Rx(a):
    c, s = math.cos(a), math.sin(a)
    return np.array([[1, 0, 0], [0, c, -s], [0, s, c]], float)


def _Ry(a):
    c, s = math.cos(a), math.sin(a)
    return np.array([[c, 0, s], [0, 1, 0], [-s, 0, c]], float)


def _Rz(a):
    c, s = math.cos(a), math.sin(a)
    return np.array([[c, -s, 0], [s, c, 0], [0, 0, 1]], float)


def _mf_r(t):
    return np.array([0.3 * t, math.sin(t), 0.1])


def _mf_v(t):
    return np.array([0.3, math.cos(t), 0.0])


def _mf_A(t):
    return _Rz(0.7 * t) @ _Rx(0.2)


def _mf_A_t(t):
    c, s = math.cos(0.7 * t), math.sin(0.7 * t)
    return 0.7 * np.array([[-s, -c, 0], [c, -s, 0], [0, 0, 0]], float) @ _Rx(0.2)


P = {
    "box_dim": np.array([0.3, 0.2, 0.5]), "box_off": np.array([0.1, -0.05, 0.2]), "box_ABM": _Rz(0.4) @ _Rx(-0.3),
    "rframe_r": np.array([0.4, -0.6, 0.9]), "ball_R": 0.25, "plane_r": np.array([0.0, 0.1, -0.2]), "plane_A": _Rx(0.2) @ _Ry(-0.1),
    "c0_r": 0.05, "fd_B2": np.array([0.1, 0.2, -0.1]), "fd_B1": np.array([0.0, 0.0, 0.0]), "tpi_B1": np.array([0.05, -0.1, 0.15]), "tpi_B2": np.array([-0.1, 0.1, 0.05]),
    "force_B": np.array([0.1, 0.0, 0.2]), "bforce_B": np.array([-0.1, 0.05, 0.0]), "wedge_radius": 0.03,
}


def _force_t(t):
    return np.array([t, 1.0, -2.0])


def _bforce_t(t):
    return np.array([0.5, -t, 0.3])


def _moment_t(t):
    return np.array([0.2, 0.1 * t, -0.4])


def _scene(seed):
    from cardillo import System
    from cardillo.solver import SolverOptions
    from cardillo.discrete import RigidBody, PointMass, Frame, Box, Sphere
    from cardillo.contacts import Sphere2Plane
    from cardillo.constraints import FixedDistance
    from cardillo.interactions import TwoPointInteraction
    from cardillo.force_laws import Spring
    from cardillo.forces import Force, B_Force, Moment, B_Moment
    from vp.core.quiet import quiet

    with quiet():
        system = System(t0=T0)
        th = np.diag([0.6, 0.9, 1.2])
        o = {}

        def q7(k, r):
            return np.concatenate([np.asarray(r, float), axis_angle_quat(generic_unit(seed, 200 + k), 0.5 + 0.3 * k)])

        o["rb"] = RigidBody(1.0, th, q7(0, [0.2, -0.3, 1.0]), np.zeros(6), name="rb")
        o["pm"] = PointMass(1.0, q0=np.array([1.0, 0.5, 0.8]), u0=np.zeros(3), name="pm")
        o["pm2"] = PointMass(1.0, q0=np.array([-1.0, 0.4, 1.2]), u0=np.zeros(3), name="pm2")
        o["mframe"] = Frame(r_OP=_mf_r, r_OP_t=_mf_v, A_IB=_mf_A, A_IB_t=_mf_A_t, name="mframe")
        # frame turning about its own FIXED origin: the exported point is bit-identical in every frame, the vector data are not
        # (a writer that re-uses the previous frame's grid when the points did not move writes stale data; seeded C29-h)
        o["rframe"] = Frame(r_OP=P["rframe_r"].copy(), A_IB=_mf_A, A_IB_t=_mf_A_t, name="rframe")
        o["box"] = Box(RigidBody)(dimensions=P["box_dim"].copy(), mass=2.0, B_Theta_C=th, q0=q7(1, [0.5, 1.0, 1.5]), u0=np.zeros(6), B_r_CP=P["box_off"].copy(),
                                  A_BM=P["box_ABM"].copy(), name="box")
        o["ball"] = Sphere(RigidBody)(radius=P["ball_R"], subdivisions=1, mass=1.5, B_Theta_C=th, q0=q7(2, [-0.5, -1.0, 1.1]), u0=np.zeros(6), name="ball")
        o["plane"] = Frame(r_OP=P["plane_r"].copy(), A_IB=P["plane_A"].copy(), name="plane")
        o["contact"] = Sphere2Plane(o["plane"], o["ball"], mu=0.3, r=P["ball_R"], e_N=0.0, e_F=0.0, name="contact")
        o["contact0"] = Sphere2Plane(system.origin, o["pm"], mu=0, r=P["c0_r"], e_N=0.0, name="contact0")
        o["contact2"] = Sphere2Plane(o["plane"], o["rb"], mu=0.5, r=0.4, e_N=0.0, e_F=0.0, name="contact2")
        # contact against the moving (translating, tilted, spinning) frame: plane-side data must follow the frame (seeded C29-f)
        o["contact_m"] = Sphere2Plane(o["mframe"], o["rb"], mu=0.5, r=0.4, e_N=0.0, e_F=0.0, name="contact_m")
        o["fd"] = FixedDistance(o["pm2"], o["rb"], B1_r_P1J1=P["fd_B1"].copy(), B2_r_P2J2=P["fd_B2"].copy())
        o["fd"].name = "fd"
        tpi = TwoPointInteraction(o["rb"], o["box"], B_r_CP1=P["tpi_B1"].copy(), B_r_CP2=P["tpi_B2"].copy())
        o["spring"] = Spring(tpi, 10.0, l_ref=1.0, compliance_form=False, name="spring")
        o["force"] = Force(_force_t, o["rb"], B_r_CP=P["force_B"].copy(), name="force")
        o["bforce"] = B_Force(_bforce_t, o["box"], B_r_CP=P["bforce_B"].copy(), name="bforce")
        o["moment"] = Moment(_moment_t, o["rb"], name="moment")
        o["bmoment"] = B_Moment(_moment_t, o["box"], name="bmoment")
        order = ["rb", "pm", "pm2", "mframe", "rframe", "box", "ball", "plane", "contact", "contact0", "contact2", "contact_m", "fd", "spring", "force", "bforce", "moment", "bmoment"]
        system.add(*[o[k] for k in order])
        system.assemble(options=SolverOptions(compute_consistent_initial_conditions=False))
    return system, o


def _rod_scene(kind, seed):
    from cardillo import System
    from cardillo.solver import SolverOptions
    from cardillo.rods import RectangularCrossSection, CircularCrossSection, Simo1986, CrossSectionInertias
    from cardillo.rods.cosseratRod import make_CosseratRod
    from vp.core.quiet import quiet

    with quiet():
        p, nel = (2, 2) if kind in ("rod_cl", "rod_nv_wedge", "rod_volume") else (1, 3)
        Rod = make_CosseratRod(interpolation="Quaternion", mixed=False, constraints=None, polynomial_degree=p, reduced_integration=True)
        if kind == "rod_nv_rect":
            cs = RectangularCrossSection(0.1, 0.2)
        elif kind == "rod_nv_quad":
            cs = CircularCrossSection(0.07, export_as_wedge=False)
        else:
            cs = CircularCrossSection(0.07)
        mat = Simo1986(np.array([5.0, 1.3, 2.1]), np.array([0.7, 2.0, 3.1]))
        A0 = quat_to_A(np.array([2.0, 1.0, -1.0, 0.5]))
        Q = np.asarray(Rod.straight_configuration(nel, 2.0, r_OP0=np.array([0.3, -0.2, 0.5]), A_IB0=A0), float)
        rod = Rod(cs, mat, nel, Q=Q.copy(), q0=Q.copy(), cross_section_inertias=CrossSectionInertias(A_rho0=1.3, B_I_rho0=np.diag([0.7, 1.1, 1.9])), name="rod")
        level = {"rod_cl": "centerline + directors", "rod_volume": "volume"}.get(kind, "NodalVolume")
        rod._export_dict["level"] = level
        # a second rod with ANOTHER discretisation and ANOTHER export level lives in the same system and is exported first with
        # the same Export object: export settings and the data derived from them belong to each rod
        Rod2 = make_CosseratRod(interpolation="Quaternion", mixed=False, constraints=None, polynomial_degree=1, reduced_integration=True)
        nel2 = nel + 2
        Q2 = np.asarray(Rod2.straight_configuration(nel2, 1.0, r_OP0=np.array([-1.0, 0.4, 0.0])), float)
        decoy = Rod2(RectangularCrossSection(0.05, 0.08), mat, nel2, Q=Q2.copy(), q0=Q2.copy(), name="decoy")
        decoy._export_dict["level"] = "volume" if level != "volume" else "centerline + directors"
        system = System(t0=T0)
        system.add(rod, decoy)
        system.assemble(options=SolverOptions(compute_consistent_initial_conditions=False))
    return system, {"rod": rod, "cs": cs, "p": p, "nel": nel, "decoy": decoy}


def _hand_solution(system, n, T, seed):
    """generic smooth rows: every coordinate moves; rigid-body quaternions have lengths 1, 1.7, 0.6 in turn"""
    from cardillo.solver import Solution

    t = T0 + (np.linspace(0.0, T, n) if n > 1 else np.zeros(1))
    q0 = np.array(system.q0, float)
    nq, nu = system.nq, system.nu
    q = np.zeros((n, nq))
    u = np.zeros((n, nu))
    dq = 0.3 * weyl(seed, 300, nq)
    bu = weyl(seed, 301, nu)
    for k in range(n):
        s = k / max(1, n - 1)
        q[k] = q0 + s * dq + 0.05 * np.sin(3.0 * s + np.arange(nq))
        u[k] = bu * (1.0 + 0.7 * s) + 0.1 * np.cos(2.0 * s + np.arange(nu))
    # rigid bodies: unit quaternions
    for c in system.contributions:
        if getattr(c, "nq", 0) == 7 and hasattr(c, "qDOF") and c.__class__.__name__ != "CosseratRod" and not hasattr(c, "nelement"):
            for k in range(n):
                Pq = q[k, c.qDOF[3:]]
                # every third frame unit, the others of length 1.7 / 0.6: a stored solution may hold non-unit quaternions (re-sampled or
                # hand-built solutions); the exported orientation data follow the library's any-length convention (seeded C29-j)
                q[k, c.qDOF[3:]] = Pq / np.linalg.norm(Pq) * (1.0, 1.7, 0.6)[k % 3]
    kw = {}
    if system.nla_N:
        kw["P_N"] = np.array([[0.5 + 0.1 * k + 0.01 * j for j in range(system.nla_N)] for k in range(n)])
        kw["la_N"] = kw["P_N"] * 3.0
    if system.nla_F:
        kw["P_F"] = np.array([[0.2 - 0.05 * k + 0.03 * j for j in range(system.nla_F)] for k in range(n)])
        kw["la_F"] = kw["P_F"] * 3.0
    la_g = np.array([[0.1 * k + j for j in range(system.nla_g)] for k in range(n)]).reshape(n, system.nla_g)
    la_c = np.zeros((n, system.nla_c))
    return Solution(system, t, q, u=u, la_g=la_g, la_c=la_c, **kw)


# ------------------------------------------------------------------------------------------------
# reading back
# ------------------------------------------------------------------------------------------------
def _read_vtu(path):
    import vtk
    from vtk.util.numpy_support import vtk_to_numpy

    r = vtk.vtkXMLUnstructuredGridReader()
    r.SetFileName(str(path))
    r.Update()
    ug = r.GetOutput()
    pts = ug.GetPoints()
    points = vtk_to_numpy(pts.GetData()).astype(float).reshape(-1, 3) if pts is not None and pts.GetNumberOfPoints() else np.zeros((0, 3))
    cells = []
    for i in range(ug.GetNumberOfCells()):
        c = ug.GetCell(i)
        cells.append((int(ug.GetCellType(i)), [int(c.GetPointId(j)) for j in range(c.GetNumberOfPoints())]))

    def arrays(d):
        out = {}
        for i in range(d.GetNumberOfArrays()):
            a = d.GetArray(i)
            if a is None:
                continue
            out[a.GetName()] = vtk_to_numpy(a).astype(float).reshape(a.GetNumberOfTuples(), -1)
        return out

    with open(path, "rb") as fh:
        head = fh.read(4000).decode("latin-1")
    fm = re.findall(r'<DataArray[^>]*format="(\w+)"', head)
    return {"points": points, "cells": cells, "point_data": arrays(ug.GetPointData()), "cell_data": arrays(ug.GetCellData()), "formats": sorted(set(fm))}


def _read_pvd(path):
    dom = xml.dom.minidom.parse(str(path))
    out = []
    for ds in dom.getElementsByTagName("DataSet"):
        out.append((float(ds.getAttribute("timestep")), ds.getAttribute("file")))
    return out


# ------------------------------------------------------------------------------------------------
# expectations (harness geometry from one solution row)
# ------------------------------------------------------------------------------------------------
def _rbs(o, name, q, u):
    b = o[name]
    qq, uu = q[b.qDOF], u[b.uDOF]
    A = quat_to_A(qq[3:7])
    return qq[:3], A, uu[:3], A @ uu[3:6]


def _expect(kind, o, row):
    t, q, u = row["t"], row["q"], row["u"]
    E = {"points": None, "cells": None, "point_data": {}, "cell_data": {}, "custom": None}
    if kind in ("rb", "ball_run"):
        name = "rb" if kind == "rb" else "ball"
        r, A, v, om = _rbs(o, name, q, u)
        E["points"] = [r]
        E["cells"] = [(VTK_VERTEX, [0])]
        E["cell_data"] = {"v": [v], "Omega": [om], "ex": [A[:, 0]], "ey": [A[:, 1]], "ez": [A[:, 2]]}
    elif kind == "pm":
        b = o["pm"]
        E["points"] = [q[b.qDOF]]
        E["cells"] = [(VTK_VERTEX, [0])]
        E["cell_data"] = {"v": [u[b.uDOF]]}
    elif kind == "pmlist":
        E["points"] = [q[o["pm"].qDOF], q[o["pm2"].qDOF]]
        E["cells"] = [(VTK_VERTEX, [0]), (VTK_VERTEX, [1])]
        E["cell_data"] = {"v": [u[o["pm"].uDOF], u[o["pm2"].uDOF]]}
    elif kind == "mframe":
        A = _mf_A(t)
        E["points"] = [_mf_r(t)]
        E["cells"] = [(VTK_VERTEX, [0])]
        E["cell_data"] = {"v": [_mf_v(t)], "Omega": [np.array([0.0, 0.0, 0.7])], "ex": [A[:, 0]], "ey": [A[:, 1]], "ez": [A[:, 2]]}
    elif kind == "rframe":
        A = _mf_A(t)
        E["points"] = [P["rframe_r"]]
        E["cells"] = [(VTK_VERTEX, [0])]
        E["cell_data"] = {"v": [np.zeros(3)], "Omega": [np.array([0.0, 0.0, 0.7])], "ex": [A[:, 0]], "ey": [A[:, 1]], "ez": [A[:, 2]]}
    elif kind == "box":
        r, A, v, om = _rbs(o, "box", q, u)
        d = P["box_dim"]
        corners = [np.array([sx * d[0], sy * d[1], sz * d[2]]) / 2 for sx in (-1, 1) for sy in (-1, 1) for sz in (-1, 1)]
        E["custom"] = ("box", r, A, [r + A @ (P["box_off"] + P["box_ABM"] @ c) for c in corners])
    elif kind == "ball":
        r, A, v, om = _rbs(o, "ball", q, u)
        V = np.asarray(o["ball"].B_visual_mesh.vertices, float)
        E["points"] = [r + A @ vv for vv in V]
        E["custom"] = ("sphere", r, P["ball_R"], len(o["ball"].B_visual_mesh.faces))
    elif kind == "contactlist":
        # a LIST of two frictional contacts (array-valued point data): entries must stay in list order
        Es = []
        for cname, bname, R in (("contact", "ball", P["ball_R"]), ("contact2", "rb", 0.4)):
            r, A, v, om = _rbs(o, bname, q, u)
            nrm, rQ, t1, t2 = P["plane_A"][:, 2], P["plane_r"], P["plane_A"][:, 0], P["plane_A"][:, 1]
            c = o[cname]
            d = nrm @ (r - rQ)
            vc = v + np.cross(om, -R * nrm)
            PN, PF = row["P_N"][c.la_NDOF], row["P_F"][c.la_FDOF]
            Es.append({"points": [r - R * nrm, r - d * nrm],
                       "point_data": {"v_Ci": [vc, np.zeros(3)], "Omega": [om, np.zeros(3)], "n": [-nrm, nrm], "t1": [-t1, t1], "t2": [-t2, t2], "P_N": [PN, PN], "P_F": [PF, PF]},
                       "cell_data": {"g_N": [[d - R]], "g_N_dot": [[nrm @ v]], "gamma_F": [[t1 @ vc, t2 @ vc]]}})
        E["points"] = Es[0]["points"] + Es[1]["points"]
        E["cells"] = [(VTK_LINE, [0, 1]), (VTK_LINE, [2, 3])]
        E["point_data"] = {k: list(Es[0]["point_data"][k]) + list(Es[1]["point_data"][k]) for k in Es[0]["point_data"]}
        E["cell_data"] = {k: list(Es[0]["cell_data"][k]) + list(Es[1]["cell_data"][k]) for k in Es[0]["cell_data"]}
    elif kind in ("contact", "contact_run"):
        r, A, v, om = _rbs(o, "ball", q, u)
        if kind == "contact":
            nrm, rQ, t1, t2, R = P["plane_A"][:, 2], P["plane_r"], P["plane_A"][:, 0], P["plane_A"][:, 1], P["ball_R"]
        else:
            nrm, rQ, t1, t2, R = np.array([0, 0, 1.0]), np.zeros(3), np.array([1.0, 0, 0]), np.array([0, 1.0, 0]), row["radius"]
        c = o["contact"]
        d = nrm @ (r - rQ)
        vc = v + np.cross(om, -R * nrm)
        E["points"] = [r - R * nrm, r - d * nrm]
        E["cells"] = [(VTK_LINE, [0, 1])]
        PN, PF = row["P_N"][c.la_NDOF], row["P_F"][c.la_FDOF]
        E["point_data"] = {"v_Ci": [vc, np.zeros(3)], "Omega": [om, np.zeros(3)], "n": [-nrm, nrm], "t1": [-t1, t1], "t2": [-t2, t2], "P_N": [PN, PN], "P_F": [PF, PF]}
        E["cell_data"] = {"g_N": [[d - R]], "g_N_dot": [[nrm @ v]], "gamma_F": [[t1 @ vc, t2 @ vc]]}
    elif kind == "contact_m":
        r, A, v, om = _rbs(o, "rb", q, u)
        Af, rQ, vQ, Om, R = _mf_A(t), _mf_r(t), _mf_v(t), np.array([0.0, 0.0, 0.7]), 0.4
        nrm, t1, t2 = Af[:, 2], Af[:, 0], Af[:, 1]
        c = o["contact_m"]
        d = nrm @ (r - rQ)
        vc = v + np.cross(om, -R * nrm)
        vc2 = vQ + np.cross(Om, r - d * nrm - rQ)   # velocity of the frame-fixed point under the sphere
        E["points"] = [r - R * nrm, r - d * nrm]
        E["cells"] = [(VTK_LINE, [0, 1])]
        PN, PF = row["P_N"][c.la_NDOF], row["P_F"][c.la_FDOF]
        E["point_data"] = {"v_Ci": [vc, vc2], "Omega": [om, Om], "n": [-nrm, nrm], "t1": [-t1, t1], "t2": [-t2, t2], "P_N": [PN, PN], "P_F": [PF, PF]}
        # rates from the contact's own kinematics (their correctness is C06's subject)
        E["cell_data"] = {"g_N": [[d - R]], "g_N_dot": [[float(np.ravel(c.g_N_dot(t, q[c.qDOF], u[c.uDOF]))[0])]], "gamma_F": [list(np.ravel(c.gamma_F(t, q[c.qDOF], u[c.uDOF])))]}
    elif kind == "contact0":
        b, c = o["pm"], o["contact0"]
        r, v = q[b.qDOF], u[b.uDOF]
        nrm, R = np.array([0, 0, 1.0]), P["c0_r"]
        d = nrm @ r
        PN = row["P_N"][c.la_NDOF]
        E["points"] = [r - R * nrm, r - d * nrm]
        E["cells"] = [(VTK_LINE, [0, 1])]
        E["point_data"] = {"v_Ci": [v, np.zeros(3)], "Omega": [np.zeros(3), np.zeros(3)], "n": [-nrm, nrm], "P_N": [PN, PN]}
        E["cell_data"] = {"g_N": [[d - R]], "g_N_dot": [[nrm @ v]]}
    elif kind in ("fd", "fd_wedge"):
        r, A, v, om = _rbs(o, "rb", q, u)
        p1, p2 = q[o["pm2"].qDOF] + P["fd_B1"], r + A @ P["fd_B2"]
        if kind == "fd":
            E["points"] = [p1, p2]
            E["cells"] = [(VTK_LINE, [0, 1])]
        else:
            E["custom"] = ("wedge", p1, p2, P["wedge_radius"])
    elif kind == "spring":
        r1, A1, _, _ = _rbs(o, "rb", q, u)
        r2, A2, _, _ = _rbs(o, "box", q, u)
        E["points"] = [r1 + A1 @ P["tpi_B1"], r2 + A2 @ P["tpi_B2"]]
        E["cells"] = [(VTK_LINE, [0, 1])]
    elif kind in ("force", "force_run"):
        if kind == "force":
            r, A, _, _ = _rbs(o, "rb", q, u)
            E["points"] = [r + A @ P["force_B"]]
            E["cell_data"] = {"F": [_force_t(t)]}
        else:
            r, A, _, _ = _rbs(o, "ball", q, u)
            E["points"] = [r]
            E["cell_data"] = {"F": [row["F"]]}
        E["cells"] = [(VTK_VERTEX, [0])]
    elif kind == "bforce":
        r, A, _, _ = _rbs(o, "box", q, u)
        E["points"] = [r + A @ P["bforce_B"]]
        E["cells"] = [(VTK_VERTEX, [0])]
        E["cell_data"] = {"F": [A @ _bforce_t(t)]}
    elif kind == "moment":
        r, A, _, _ = _rbs(o, "rb", q, u)
        E["points"] = [r]
        E["cells"] = [(VTK_VERTEX, [0])]
        E["cell_data"] = {"M": [_moment_t(t)]}
    elif kind == "bmoment":
        r, A, _, _ = _rbs(o, "box", q, u)
        E["points"] = [r]
        E["cells"] = [(VTK_VERTEX, [0])]
        E["cell_data"] = {"M": [A @ _moment_t(t)]}
    elif kind.startswith("rod"):
        rod = o["rod"]
        qb = q[rod.qDOF]
        rn = [qb[d] for d in rod.nodalDOF_r]
        An = [quat_to_A(qb[d]) for d in rod.nodalDOF_p]
        nn = o["p"] * o["nel"] + 1
        if len(rn) != nn or len(An) != nn:
            raise RuntimeError("harness: unexpected node count")
        if kind == "rod_cl":
            E["points"] = rn
            E["point_data"] = {"d1": [A[:, 0] for A in An], "d2": [A[:, 1] for A in An], "d3": [A[:, 2] for A in An]}
            p = o["p"]
            E["cells"] = [(68, [i * p, i * p + p] + [i * p + j for j in range(1, p)]) for i in range(o["nel"])]  # VTK_LAGRANGE_CURVE
        elif kind == "rod_volume":
            E["custom"] = ("finite",)
        else:
            E["custom"] = ("nodal_volume", kind, rn, An, o["cs"])
    else:
        raise KeyError(kind)
    return E


def _close(a, b, tol):
    a, b = np.asarray(a, float), np.asarray(b, float)
    if a.shape != b.shape:
        return False, float("inf")
    if a.size == 0:
        return True, 0.0
    if not (np.all(np.isfinite(a)) and np.all(np.isfinite(b))):
        return False, float("inf")
    e = float(np.max(np.abs(a - b) / (1.0 + np.abs(b))))
    return e <= tol, e


PT_TOL = 2e-6
DATA_TOL = 1e-9


def _compare(kind, E, F, stats):
    """-> list of (site suffix, message)"""
    bad = []
    pts = F["points"]
    if E["points"] is not None:
        ok, e = _close(pts, np.array(E["points"]), PT_TOL)
        if e != float("inf"):
            stats["max_err_points"] = max(stats["max_err_points"], e)
        if not ok:
            bad.append(("points vs harness geometry", f"shape {pts.shape} err {e:.3e}"))
    if E["cells"] is not None:
        exp = [(int(t), [int(i) for i in c]) for t, c in E["cells"]]
        if F["cells"] != exp:
            bad.append(("cells vs expected connectivity", f"{F['cells'][:3]} vs {exp[:3]}"))
    for where in ("point_data", "cell_data"):
        for name, val in E[where].items():
            if name not in F[where]:
                bad.append((f"{where} array missing", name))
                continue
            ok, e = _close(F[where][name], np.array(val, float).reshape(len(val), -1), DATA_TOL)
            if e != float("inf"):
                stats["max_err_data"] = max(stats["max_err_data"], e)
            if not ok:
                bad.append((f"{where} vs harness value", f"{name}: err {e:.3e} got {F[where][name].tolist()[:2]} want {np.array(val).tolist()[:2]}"))
    cu = E["custom"]
    if cu is not None:
        if cu[0] == "box":
            _, r, A, corners = cu
            if pts.shape != (8, 3):
                bad.append(("points vs harness geometry", f"box: {pts.shape}"))
            else:
                C = np.array(corners)
                used = set()
                worst = 0.0
                for p in pts:
                    d = np.max(np.abs(C - p) / (1 + np.abs(C)), axis=1)
                    j = int(np.argmin(d))
                    used.add(j)
                    worst = max(worst, float(d[j]))
                stats["max_err_points"] = max(stats["max_err_points"], worst)
                if worst > PT_TOL or len(used) != 8:
                    bad.append(("points vs harness geometry", f"box corners: err {worst:.3e}, {len(used)} distinct corners matched"))
                # every triangle lies in one face of the box
                M = (P["box_ABM"].T @ ((A.T @ (pts - r).T) - P["box_off"][:, None])).T  # mesh coordinates
                tri = [c for c in F["cells"] if c[0] == VTK_TRIANGLE]
                if len(tri) != 12 or len(F["cells"]) != 12:
                    bad.append(("cells vs expected connectivity", f"box: {len(tri)} triangles of {len(F['cells'])} cells"))
                else:
                    for _, ids in tri:
                        X = M[ids]
                        onface = any(np.all(np.abs(np.abs(X[:, a]) - P["box_dim"][a] / 2) < 1e-5) and abs(np.sum(np.sign(X[:, a]))) == 3 for a in range(3))
                        area = 0.5 * np.linalg.norm(np.cross(X[1] - X[0], X[2] - X[0]))
                        if not onface or area < 1e-4:
                            bad.append(("cells vs expected connectivity", f"box triangle {ids} not on a face"))
                            break
        elif cu[0] == "sphere":
            _, r, R, nfaces = cu
            if len(pts):
                d = np.linalg.norm(pts - r, axis=1)
                e = float(np.max(np.abs(d - R)))
                if e > 1e-5:
                    bad.append(("points vs harness geometry", f"sphere radius err {e:.3e}"))
            tri = [c for c in F["cells"] if c[0] == VTK_TRIANGLE and len(set(c[1])) == 3 and max(c[1]) < len(pts)]
            if len(tri) != nfaces or len(F["cells"]) != nfaces:
                bad.append(("cells vs expected connectivity", f"sphere: {len(tri)} valid triangles of {len(F['cells'])} cells, mesh has {nfaces}"))
        elif cu[0] == "wedge":
            _, p1, p2, R = cu
            n = (p2 - p1) / np.linalg.norm(p2 - p1)
            if pts.shape != (12, 3):
                bad.append(("points vs harness geometry", f"wedge: {pts.shape}"))
            else:
                worst = 0.0
                for k, c in enumerate((p1, p2)):
                    X = pts[6 * k:6 * k + 6] - c
                    worst = max(worst, float(np.max(np.abs(X @ n))))  # in the plane normal to the line
                    rad = np.sort(np.linalg.norm(X, axis=1))
                    worst = max(worst, float(np.max(np.abs(rad[:3] - R))), float(np.max(np.abs(rad[3:] - 2 * R))))  # Bezier triangle: 3 on the circle, 3 control points at 2R
                stats["max_err_points"] = max(stats["max_err_points"], worst)
                if worst > 1e-5:
                    bad.append(("points vs harness geometry", f"wedge err {worst:.3e}"))
        elif cu[0] == "finite":
            if not len(pts) or not np.all(np.isfinite(pts)) or not len(F["cells"]):
                bad.append(("points vs harness geometry", "rod volume: empty or non-finite"))
        elif cu[0] == "nodal_volume":
            _, k, rn, An, cs = cu
            ppl = {"rod_nv_wedge": 6, "rod_nv_quad": 9, "rod_nv_rect": 4}[k]
            if pts.shape != (ppl * len(rn), 3):
                bad.append(("points vs harness geometry", f"nodal volume: {pts.shape}, expected {(ppl * len(rn), 3)}"))
            else:
                worst = 0.0
                for i, (r, A) in enumerate(zip(rn, An)):
                    X = (A.T @ (pts[i * ppl:(i + 1) * ppl] - r).T).T  # cross-section coordinates
                    worst = max(worst, float(np.max(np.abs(X[:, 0]))))
                    if k == "rod_nv_rect":
                        worst = max(worst, float(np.max(np.abs(np.abs(X[:, 1]) - 0.05))), float(np.max(np.abs(np.abs(X[:, 2]) - 0.1))))
                        if len({(x[1] > 0, x[2] > 0) for x in X}) != 4:
                            worst = max(worst, 1.0)  # the four points are not the four distinct corners
                    else:
                        rad = np.sort(np.linalg.norm(X[:, 1:], axis=1))
                        ncenter = 1 if k == "rod_nv_quad" else 0
                        worst = max(worst, float(np.max(np.abs(rad[ncenter:] - 0.07))), float(np.max(np.abs(rad[:ncenter]))) if ncenter else 0.0)
                        ang = np.sort(np.arctan2(X[:, 2], X[:, 1])[np.linalg.norm(X[:, 1:], axis=1) > 0.035])
                        gaps = np.diff(np.concatenate([ang, [ang[0] + 2 * math.pi]]))
                        worst = max(worst, float(np.max(np.abs(gaps - 2 * math.pi / len(ang)))) * 0.07)
                stats["max_err_points"] = max(stats["max_err_points"], worst)
                if worst > 1e-5:
                    bad.append(("points vs harness geometry", f"nodal volume err {worst:.3e}"))
            if len(F["cells"]) != len(rn) // 1 and False:
                pass
    return bad


# ------------------------------------------------------------------------------------------------
# one export + all checks
# ------------------------------------------------------------------------------------------------
def _frames_contract(case, sol_t, listed, n_lower):
    """listed: [(time, file)]; returns (fails, row indices)"""
    bad, idx = [], []
    tt = np.asarray(sol_t, float)
    for (tl, f) in listed:
        j = int(np.argmin(np.abs(tt - tl)))
        if abs(tt[j] - tl) > 5.1e-7:
            bad.append(("pvd time vs a time of the solution", f"listed {tl}, nearest {tt[j]}"))
            j = None
        idx.append(j)
    good = [j for j in idx if j is not None]
    if any(b <= a for a, b in zip(good, good[1:])):
        bad.append(("pvd frames vs increasing time order", f"row indices {good[:12]}"))
    if good and good[0] != 0:
        bad.append(("pvd first frame vs first row of the solution", f"first listed row {good[0]}"))
    if len(listed) < n_lower or len(listed) > len(tt):
        bad.append(("number of exported frames vs requested frame rate", f"{len(listed)} frames listed, solution has {len(tt)}, fps*horizon asks for >= {n_lower}"))
    return bad, idx


def _n_lower(t, fps):
    T = float(t[-1] - t[0])
    return min(len(t), max(1, int(math.floor(T * fps - 1e-9))))


def _check_export(case, kind, o, sol, rows_extra, folder, export_obj, contr, kwargs, fails, stats, tag=""):
    """export_contr already done by caller? no: do it here, then verify everything"""
    before = set(os.listdir(folder)) if os.path.isdir(folder) else set()
    export_obj.export_contr(contr, **kwargs)
    after = set(os.listdir(folder))
    new = sorted(after - before)
    pvds = [f for f in new if f.endswith(".pvd")]
    data = {"kind": kind, "ascii": case["ascii"], "fps": case["fps"], "n": case.get("n"), "T": case.get("T"), "overwrite": case["overwrite"], "tag": tag}

    def fail(site, msg, **extra):
        d = dict(data)
        d.update(extra)
        fails.append({"site": f"{site}", "msg": f"[{kind}{tag}] {msg}", "data": d})

    if len(pvds) != 1:
        fail("one new .pvd per export_contr", f"new files: {new[:6]}")
        return 0
    listed = _read_pvd(os.path.join(folder, pvds[0]))
    stats["n_pvd"] += 1
    # one entry per frame of Export.solution, with that frame's time
    et = np.asarray(export_obj.solution.t, float)
    if len(listed) != len(et):
        fail("pvd entries vs frames of Export.solution", f"{len(listed)} entries, {len(et)} frames")
    elif len(et) and np.max(np.abs(np.array([a for a, _ in listed]) - et)) > 5.1e-7:
        fail("pvd times vs times of Export.solution", f"{[a for a, _ in listed][:5]} vs {et[:5]}")
    bad, idx = _frames_contract(case, sol.t, listed, _n_lower(sol.t, case["fps"]))
    for site, msg in bad:
        fail(site, msg)
    files = [f for _, f in listed]
    if len(set(files)) != len(files):
        fail("pvd lists distinct files", f"{files[:6]}")
    vtus = sorted(f for f in new if f.endswith(".vtu"))
    if sorted(files) != vtus:
        fail("pvd file list vs written .vtu files", f"listed {len(files)}, written {len(vtus)}: {sorted(set(vtus) ^ set(files))[:4]}")
    nread = 0
    want_fmt = "ascii" if case["ascii"] else "binary"
    fmt_reported = False
    sites_seen = set()
    for (tl, f), j in zip(listed, idx):
        path = os.path.join(folder, f)
        if not os.path.isfile(path):
            fail("pvd lists existing files", f"{f} missing")
            continue
        if j is None:
            continue
        F = _read_vtu(path)
        nread += 1
        stats["n_vtu"] += 1
        if F["formats"] and F["formats"] != [want_fmt] and not fmt_reported:
            fmt_reported = True
            fail("vtu data mode vs requested write_ascii", f"write_ascii={case['ascii']} but DataArray format={F['formats']}", formats=F["formats"])
        row = {"t": float(sol.t[j]), "q": np.asarray(sol.q[j], float), "u": np.asarray(sol.u[j], float)}
        for k in ("P_N", "P_F"):
            v = getattr(sol, k, None)
            row[k] = None if v is None else np.asarray(v[j], float)
        row.update(rows_extra)
        E = _expect(kind, o, row)
        for site, msg in _compare(kind, E, F, stats):
            if site not in sites_seen:
                sites_seen.add(site)
                fail(site, f"frame {j} (t={row['t']:.6f}): {msg}", frame=j)
    return nread


def check(case):
    from cardillo.visualization import Export
    from vp.core.quiet import quiet

    seed = case["seed"]
    fails = []
    stats = {"max_err_points": 0.0, "max_err_data": 0.0, "n_pvd": 0, "n_vtu": 0}
    nread = 0
    tmp = tempfile.mkdtemp(prefix="vp_c29_")
    try:
        part, kind = case["part"], case["kind"]
        if part == "run":
            from vp.scen import mech
            from cardillo.solver import Moreau

            radius = 0.1
            system = mech.ball_on_plane(t0=T0, mu=0.3, e_N=0.5, radius=radius, height=0.12, v=(0.4, 0.1, 0.0), om=(0.0, 2.0, 0.5))
            with quiet():
                sol = Moreau(system, T0 + 0.25, 0.005).solve()
            o = {"ball": system.contributions_map["ball"], "contact": system.contributions_map["floor"]}
            contr = {"contact_run": o["contact"], "ball_run": o["ball"], "force_run": system.contributions_map["grav"]}[kind]
            extra = {"radius": radius, "F": np.array([0.0, 0.0, -9.81])}
            with quiet():
                e = Export(tmp, "out", case["overwrite"], case["fps"], sol, write_ascii=case["ascii"])
                nread += _check_export(case, kind, o, sol, extra, str(e.path), e, contr, {}, fails, stats)
        elif part == "system_export":
            system, o = _scene(seed)
            sol = _hand_solution(system, case["n"], case["T"], seed)
            with quiet():
                e = system.export(tmp, "out", sol, overwrite=True, fps=case["fps"])
            folder = str(e.path)
            names = sorted(f[:-4] for f in os.listdir(folder) if f.endswith(".pvd"))
            want = sorted(c.name for c in system.contributions if hasattr(c, "export"))
            if names != want:
                fails.append({"site": "System.export: one collection per exportable contribution", "msg": f"{names} vs {want}", "data": {"kind": kind}})
            for nm in names:
                listed = _read_pvd(os.path.join(folder, nm + ".pvd"))
                stats["n_pvd"] += 1
                bad, idx = _frames_contract(case, sol.t, listed, _n_lower(sol.t, case["fps"]))
                for site, msg in bad:
                    fails.append({"site": site, "msg": f"[system_export {nm}] {msg}", "data": {"kind": kind, "name": nm}})
                for (tl, f), j in zip(listed, idx):
                    if not os.path.isfile(os.path.join(folder, f)):
                        fails.append({"site": "pvd lists existing files", "msg": f"[system_export {nm}] {f}", "data": {"kind": kind, "name": nm}})
                    elif j is not None and nm in KINDS:
                        F = _read_vtu(os.path.join(folder, f))
                        nread += 1
                        stats["n_vtu"] += 1
                        row = {"t": float(sol.t[j]), "q": sol.q[j], "u": sol.u[j], "P_N": sol.P_N[j], "P_F": sol.P_F[j]}
                        for site, msg in _compare(nm, _expect(nm, o, row), F, stats):
                            fails.append({"site": site, "msg": f"[system_export {nm}] frame {j}: {msg}", "data": {"kind": nm, "frame": j}})
                            break
        else:
            if kind.startswith("rod"):
                system, o = _rod_scene(kind, seed)
            else:
                system, o = _scene(seed)
            sol = _hand_solution(system, case["n"], case["T"], seed)
            kwargs = {}
            if kind == "pmlist":
                contr = [o["pm"], o["pm2"]]
            elif kind == "contactlist":
                contr = [o["contact"], o["contact2"]]
            elif kind == "fd_wedge":
                contr, kwargs = o["fd"], {"base_export": False, "radius": P["wedge_radius"]}
            elif kind.startswith("rod"):
                contr = o["rod"]
            else:
                contr = o[kind]
            with quiet():
                e = Export(tmp, "out", case["overwrite"], case["fps"], sol, write_ascii=case["ascii"])
                folder1 = str(e.path)
                if kind.startswith("rod"):
                    e.export_contr(o["decoy"], file_name="decoy")
                nread += _check_export(case, kind, o, sol, {}, folder1, e, contr, dict(kwargs), fails, stats)
                if part == "frames":
                    # the same contribution again into the same Export: a second collection with its own files
                    nread += _check_export(case, kind, o, sol, {}, folder1, e, contr, dict(kwargs), fails, stats, tag=":second export_contr")
                    # an explicit file name containing dots, used twice on the same Export object (each call gets its own collection and files)
                    kw_name = dict(kwargs, file_name="run_dt1.0e-02")
                    nread += _check_export(case, kind, o, sol, {}, folder1, e, contr, dict(kw_name), fails, stats, tag=":explicit dotted file_name")
                    nread += _check_export(case, kind, o, sol, {}, folder1, e, contr, dict(kw_name), fails, stats, tag=":explicit dotted file_name again")
                    keep = sorted(os.listdir(folder1))
                    try:
                        e2 = Export(tmp, "out", case["overwrite"], case["fps"], sol, write_ascii=case["ascii"])
                    except TypeError as ex:
                        # classified: a str path (as used by System.export and the test-suite) must be accepted; continue with a Path
                        fails.append({"site": "second Export into an existing folder with a str path raises", "msg": f"{type(ex).__name__}: {ex}",
                                      "data": {"kind": kind, "overwrite": case["overwrite"], "exc": type(ex).__name__, "path_type": "str"}})
                        from pathlib import Path

                        e2 = Export(Path(tmp), "out", case["overwrite"], case["fps"], sol, write_ascii=case["ascii"])
                    folder2 = str(e2.path)
                    d = {"kind": kind, "overwrite": case["overwrite"]}
                    if case["overwrite"]:
                        if os.path.abspath(folder2) != os.path.abspath(folder1) or os.listdir(folder2):
                            fails.append({"site": "overwrite=True reuses an emptied folder", "msg": f"{folder2} vs {folder1}: {os.listdir(folder2)[:4]}", "data": d})
                    else:
                        if os.path.abspath(folder2) == os.path.abspath(folder1) or sorted(os.listdir(folder1)) != keep:
                            fails.append({"site": "overwrite=False keeps the existing folder untouched", "msg": f"{folder2} vs {folder1}", "data": d})
                    nread += _check_export(case, kind, o, sol, {}, folder2, e2, contr, dict(kwargs), fails, stats, tag=":second Export")
    finally:
        shutil.rmtree(tmp, ignore_errors=True)
    seen, cnt = {}, {}
    for f in fails:
        cnt[f["site"]] = cnt.get(f["site"], 0) + 1
        seen.setdefault(f["site"], f)
    for k, f in seen.items():
        f["data"]["count_in_case"] = cnt[k]
    return {"fails": list(seen.values()), "nontrivial": nread > 0, "evals": max(1, nread), "stats": stats, "outcome": f"{case['part']}:{case['kind']}"}
