"""C12  Rod material laws are hyperelastic with exact tangents.

Engine E1 (exhaustive product of finite alphabets on the real material-law objects).

One case = (law, stiffness letter, B_Gamma0 letter, B_Kappa0 letter); inside the case the full product
B_Gamma x B_Kappa of the strain alphabets is evaluated.  For the quadratic law (Simo1986) one extra
case per stiffness letter evaluates a point set that is unisolvent for quadratic polynomials in the
12 strain coordinates, which makes the verdict a decision for that law (DESIGN 2.3).

Oracles (every one is a statement of the property text):
  * B_n = dW/dGamma, B_m = dW/dKappa                       (W = potential)
  * B_n_B_Gamma, B_n_B_Kappa, B_m_B_Gamma, B_m_B_Kappa      = derivatives of B_n / B_m
  * laws with complementary energy / compliance matrices:  W*(n,m) + W = n.(Gamma-Gamma0) + m.(Kappa-Kappa0)
    (Fenchel equality), dW*/dn = C_n_inv n = Gamma-Gamma0, dW*/dm = C_m_inv m = Kappa-Kappa0,
    C_n_inv C_n = I, C_m_inv C_m = I.
Derivatives: complex step (exact to rounding) where the routine is analytic at the letter, which is
*validated per evaluation* against the real 5-point stencil of vp.core.fd; if the two disagree the
complex step is discarded and the stencil with its measured error estimate decides (so a routine
that is correct but not complex-analytic can never raise an alarm).
"""
import itertools
import math
import numpy as np

# module-level import: done once in the runner before the workers are forked
import cardillo.rods._material_models  # noqa: F401  (resolved through PYTHONPATH = $VERIF_REPO)

from vp.core import fd
from vp.core.alphabet import generic_unit, generic_vec, weyl

ID = "C12"
LEVEL = "model_checking"
RULE = (
    "full product law{Simo1986,Harsch2021} x stiffness letters x B_Gamma0 letters x B_Kappa0 letters (one case each) "
    "x B_Gamma letters x B_Kappa letters (inside the case); B_Gamma0 letters have lengths 0, 1/2, 1, 1.7, 2 and generic "
    "(non-unit reference dilatation is the point of the property); plus, for the quadratic law, a 91-point set "
    "{0, +-e_i, e_i+e_j} in the 12 strain coordinates that is unisolvent for quadratics. A case is non-trivial if at "
    "least one evaluation has non-zero forces and a validated derivative oracle"
)
ASSUMPTIONS = [
    "derivative oracle: complex step (h=1e-30) validated per evaluation by the real 5-point stencil; stencil decides where they disagree",
    "B_Gamma = 0 is excluded for Harsch2021 (the strain energy is not differentiable there); B_Gamma0 = 0 is included",
    "Simo1986 completeness: assumes potential is a quadratic, forces are affine and tangents are constant functions of the strains",
    "tolerances: 1e-11 relative to the stiffness-weighted scale for complex-step comparisons; fd.verdict thresholds for stencil comparisons",
]
MIN_NONTRIVIAL = 100

LAWS = ["Simo1986", "Harsch2021"]
E1 = np.array([1.0, 0.0, 0.0])
E2 = np.array([0.0, 1.0, 0.0])

CS_RTOL = 1e-11


def stiffness_letters(seed):
    g = 0.3 + 2.7 * (0.5 * (weyl(seed, 40, 6) + 1.0))  # generic positive in (0.3, 3)
    return [
        ("ones", np.ones(3), np.ones(3)),
        ("aniso", np.array([5.0, 1.0, 1.0]), np.array([0.5, 2.0, 2.0])),
        ("generic", g[:3], g[3:]),
        ("steel_like", np.array([1.0e4, 4.0e3, 4.2e3]), np.array([2.0, 1.5, 1.1])),
        # integer-dtype stiffness arrays, as the library's own cantilever script passes them (np.array([5, 1, 1]))
        ("int_dtype", np.array([5, 1, 1]), np.array([2, 3, 4])),
        # thin wire in SI units (radius 0.1 mm steel): axial / shear stiffnesses 1e8..1e9 times the bending / torsion ones
        ("thin_wire", np.array([6.6e3, 2.5e3, 2.5e3]), np.array([1.2e-5, 1.6e-5, 1.6e-5])),
    ]


def gamma_letters(seed, tier="quick"):
    """(name, vector).  lengths: 0, 1, 2, 1/2, generic, 1.7, ~1 with shear, 1 in generic direction"""
    extra = []
    if tier == "thorough":
        extra = [("generic_b", generic_vec(seed, 6, 3, 0.8)), ("3.1_generic_unit", 3.1 * generic_unit(seed, 7)),
                 ("e3_small", np.array([0.0, 0.0, 0.05]))]
    return extra_first(extra, [
        ("e1", E1.copy()),
        ("2e1", 2.0 * E1),
        ("half_generic_unit", 0.5 * generic_unit(seed, 1)),
        ("generic", generic_vec(seed, 2, 3, 1.3)),
        ("1.7_generic_unit", 1.7 * generic_unit(seed, 3)),
        ("near_e1_sheared", np.array([1.02, 0.03, -0.01])),
        ("generic_unit", generic_unit(seed, 4)),
        ("minus_e1", -E1),
        ("zero", np.zeros(3)),
    ])


def kappa_letters(seed, tier="quick"):
    extra = []
    if tier == "thorough":
        extra = [("generic_b", generic_vec(seed, 8, 3, 0.4)), ("minus_5e1", -5.0 * E1)]
    return extra_first(extra, [
        ("zero", np.zeros(3)),
        ("e2", E2.copy()),
        ("generic", generic_vec(seed, 5, 3, 2.0)),
    ])


def extra_first(extra, base):
    """quick alphabet first (simplest first), thorough-only letters appended"""
    return base + extra


def cases(tier, seed):
    out = []
    nS = len(stiffness_letters(seed))
    nG = len(gamma_letters(seed, tier))
    nK = len(kappa_letters(seed, tier))
    # simplest first: unit stiffness, Gamma0 = e1, Kappa0 = 0
    for s, g0, k0 in itertools.product(range(nS), range(nG), range(nK)):
        for law in LAWS:
            out.append({"kind": "product", "law": law, "stiff": s, "gamma0": g0, "kappa0": k0,
                        "gamma0_name": gamma_letters(seed, tier)[g0][0], "seed": seed, "tier": tier})
    for s in range(nS):
        out.append({"kind": "quadratic_unisolvent", "law": "Simo1986", "stiff": s, "seed": seed, "tier": tier})
    return out


# ------------------------------------------------------------------------------------------------
# derivative oracle
# ------------------------------------------------------------------------------------------------
def _deriv(f, x, stats):
    """Jacobian of f (R^3 -> R^k or scalar) at x: returns (J, mode, est) with mode 'cs' (validated
    complex step), 'fd' (5-point stencil decides) ; J has shape f.shape + (3,)"""
    x = np.asarray(x, float)
    Jfd, est = fd.jac(f, x)
    Jcs = None
    try:
        cols = []
        for i in range(3):
            e = np.zeros(3)
            e[i] = 1.0
            cols.append(fd.cs(f, x, e))
        Jcs = np.stack(cols, axis=-1)
    except Exception:  # routine not usable with complex input -> stencil decides
        Jcs = None
    if Jcs is not None and Jcs.shape == Jfd.shape and np.all(np.isfinite(Jcs)):
        sc = fd.scale_of(Jfd, Jcs)
        if fd.err(Jcs, Jfd) <= 1e-8 + 1e-7 * sc + 4 * est:
            stats["max_cs_vs_fd"] = max(stats.get("max_cs_vs_fd", 0.0), fd.err(Jcs, Jfd) / sc)
            return Jcs, "cs", est
    stats["n_cs_discarded"] = stats.get("n_cs_discarded", 0) + 1
    return Jfd, "fd", est


def _judge(routine, reference, mode, est, scale):
    """-> ('ok'|'fail'|'illcond', err, thr)"""
    routine = np.asarray(routine, float)
    reference = np.asarray(reference, float)
    if routine.shape != reference.shape:
        return "fail", float("inf"), 0.0
    if mode == "cs":
        e = fd.err(routine, reference)
        thr = CS_RTOL * max(scale, fd.scale_of(routine, reference))
        return ("ok" if e <= thr else "fail"), e, thr
    return fd.verdict(routine, reference, est)


def _make(law, Ei, Fi):
    from cardillo.rods._material_models import Simo1986, Harsch2021

    # the stiffness arrays are handed over with the dtype of the letter (an integer letter stays integer)
    return {"Simo1986": Simo1986, "Harsch2021": Harsch2021}[law](np.array(Ei), np.array(Fi))


def _eval_point(mat, law, Ei, Fi, G, G0, K, K0, names, fails, stats):
    """all oracles at one strain state; returns (#oracle evaluations, nontrivial, n_illcond)"""
    n = 0
    ill = 0
    kmax = float(max(np.max(Ei), np.max(Fi)))
    smag = max(1.0, float(np.max(np.abs(np.concatenate([G, G0, K, K0])))))
    fscale = kmax * smag  # force scale
    wscale = kmax * smag * smag  # energy scale
    args = (G, G0, K, K0)
    base = {"law": law, "B_Gamma": G, "B_Gamma0": G0, "B_Kappa": K, "B_Kappa0": K0, "Ei": Ei, "Fi": Fi,
            "letters": names, "lambda": float(np.linalg.norm(G)), "lambda0": float(np.linalg.norm(G0)),
            "gamma0_unit": bool(abs(np.linalg.norm(G0) - 1.0) <= 1e-12)}

    def rec(site, key, scale, status, e, thr, extra=None):
        nonlocal ill
        key = "max_relerr_" + key
        if status == "illcond":
            ill += 1
            return
        if status == "ok":  # measured noise of passing comparisons only
            stats[key] = max(stats.get(key, 0.0), float(e) / scale)
        if status == "fail":
            stats["n_failing_comparisons"] = stats.get("n_failing_comparisons", 0) + 1
            d = dict(base)
            d.update({"err": e, "thr": thr})
            if extra:
                d.update(extra)
            fails.append({"site": site, "msg": f"{law} {names}: err={e:.3e} thr={thr:.3e}", "data": d})

    B_n = np.asarray(mat.B_n(*args), float)
    B_m = np.asarray(mat.B_m(*args), float)

    # --- forces are the gradients of the strain energy
    J, mode, est = _deriv(lambda g: mat.potential(g, G0, K, K0), G, stats)
    rec(f"{law}.B_n vs d(potential)/d(B_Gamma)", "B_n", fscale, *_judge(B_n, J, mode, est, fscale), extra={"routine": B_n, "reference": J, "mode": mode})
    J, mode, est = _deriv(lambda k: mat.potential(G, G0, k, K0), K, stats)
    rec(f"{law}.B_m vs d(potential)/d(B_Kappa)", "B_m", fscale, *_judge(B_m, J, mode, est, fscale), extra={"routine": B_m, "reference": J, "mode": mode})
    n += 2

    # --- tangents are the derivatives of the forces
    tang = [
        ("B_n_B_Gamma", "B_n", "B_Gamma", lambda g: mat.B_n(g, G0, K, K0), G),
        ("B_n_B_Kappa", "B_n", "B_Kappa", lambda k: mat.B_n(G, G0, k, K0), K),
        ("B_m_B_Gamma", "B_m", "B_Gamma", lambda g: mat.B_m(g, G0, K, K0), G),
        ("B_m_B_Kappa", "B_m", "B_Kappa", lambda k: mat.B_m(G, G0, k, K0), K),
    ]
    for tname, fname, aname, fun, x in tang:
        T = np.asarray(getattr(mat, tname)(*args), float)
        J, mode, est = _deriv(fun, x, stats)
        st, e, thr = _judge(T, J, mode, est, kmax)
        extra = {"routine": T, "reference": J, "mode": mode}
        if st == "fail" and law == "Harsch2021" and tname == "B_n_B_Gamma" and T.shape == (3, 3):
            # diagnostic used by the narrow known-finding predicate: is the whole discrepancy the
            # missing factor lambda0 on the dyadic term  E0 * Gamma Gamma^T / lambda^3 ?
            lam = np.linalg.norm(G)
            lam0 = np.linalg.norm(G0)
            corr = Ei[0] * (lam0 - 1.0) * np.outer(G, G) / lam**3
            st2, e2, _ = _judge(T + corr, J, mode, est, kmax)
            extra["explained_by_missing_lambda0_factor"] = bool(st2 == "ok")
            extra["err_after_lambda0_correction"] = e2
        rec(f"{law}.{tname} vs d({fname})/d({aname})", tname, kmax, st, e, thr, extra=extra)
        n += 1

    # --- Legendre duality, only for laws that provide the complementary energy / compliances
    if hasattr(mat, "complementary_potential"):
        W = float(mat.potential(*args))
        Wc = float(mat.complementary_potential(B_n, B_m))
        rhs = float(B_n @ (G - G0) + B_m @ (K - K0))
        e = abs(W + Wc - rhs)
        thr = 1e-12 * wscale
        stats["max_err_fenchel"] = max(stats.get("max_err_fenchel", 0.0), e / wscale)
        if e > thr:
            d = dict(base)
            d.update({"err": e, "thr": thr, "W": W, "Wc": Wc, "pairing": rhs})
            fails.append({"site": f"{law}.complementary_potential + potential vs B_n.(Gamma-Gamma0) + B_m.(Kappa-Kappa0)",
                          "msg": f"{names}: residual {e:.3e}", "data": d})
        n += 1
        # gradient of the complementary energy returns the strains (inverse constitutive law)
        cscale = smag
        J, mode, est = _deriv(lambda nn: mat.complementary_potential(nn, B_m), B_n, stats)
        st, e, thr = _judge(J, G - G0, mode, est, cscale)
        rec(f"{law}.d(complementary_potential)/d(B_n) vs B_Gamma - B_Gamma0", "dWc_dn", cscale, st, e, thr, extra={"routine": J, "reference": G - G0, "mode": mode})
        J, mode, est = _deriv(lambda mm: mat.complementary_potential(B_n, mm), B_m, stats)
        st, e, thr = _judge(J, K - K0, mode, est, cscale)
        rec(f"{law}.d(complementary_potential)/d(B_m) vs B_Kappa - B_Kappa0", "dWc_dm", cscale, st, e, thr, extra={"routine": J, "reference": K - K0, "mode": mode})
        n += 2
    if hasattr(mat, "C_n_inv"):
        for cname, iname, f, strain in (("C_n", "C_n_inv", B_n, G - G0), ("C_m", "C_m_inv", B_m, K - K0)):
            e = fd.err(getattr(mat, iname) @ f, strain)
            stats["max_err_compliance"] = max(stats.get("max_err_compliance", 0.0), e / smag)
            if e > 1e-12 * smag:
                d = dict(base)
                d.update({"err": e})
                fails.append({"site": f"{law}.{iname} @ force vs strain difference", "msg": f"{names}: {e:.3e}", "data": d})
            n += 1
    nontrivial = bool(np.any(B_n != 0) or np.any(B_m != 0))
    return n, nontrivial, ill


def _matrix_checks(mat, law, fails):
    n = 0
    if hasattr(mat, "C_n_inv"):
        for cname, iname in (("C_n", "C_n_inv"), ("C_m", "C_m_inv")):
            P = np.asarray(getattr(mat, iname)) @ np.asarray(getattr(mat, cname))
            e = fd.err(P, np.eye(3))
            if e > 1e-13:
                fails.append({"site": f"{law}.{iname} @ {cname} vs identity", "msg": f"{e:.3e}", "data": {"err": e, "product": P}})
            n += 1
    return n


def _dedup(fails, cap=4):
    cnt = {}
    out = []
    for f in fails:
        cnt[f["site"]] = cnt.get(f["site"], 0) + 1
        if cnt[f["site"]] <= cap:
            out.append(f)
    for f in out:
        f["data"]["n_failing_evaluations_this_site"] = cnt[f["site"]]
    return out


def check(case):
    seed = case["seed"]
    tier = case.get("tier", "quick")
    law = case["law"]
    sname, Ei, Fi = stiffness_letters(seed)[case["stiff"]]
    mat = _make(law, Ei, Fi)
    fails = []
    stats = {}
    evals = _matrix_checks(mat, law, fails)
    nontrivial = False
    illc = 0
    states = 0

    if case["kind"] == "product":
        g0name, G0 = gamma_letters(seed, tier)[case["gamma0"]]
        k0name, K0 = kappa_letters(seed, tier)[case["kappa0"]]
        for (gname, G), (kname, K) in itertools.product(gamma_letters(seed, tier), kappa_letters(seed, tier)):
            if law == "Harsch2021" and not np.any(G):
                stats["n_skipped_singular_gamma"] = stats.get("n_skipped_singular_gamma", 0) + 1
                continue
            names = {"stiff": sname, "gamma": gname, "gamma0": g0name, "kappa": kname, "kappa0": k0name}
            n, nt, ill = _eval_point(mat, law, Ei, Fi, G, G0, K, K0, names, fails, stats)
            evals += n
            illc += ill
            nontrivial |= nt
            states += 1
        # nearly (but not exactly) unstretched states |Gamma| = |Gamma0| (1 + eps), along Gamma0 and in a turned direction: no
        # 'unstretched' short-cut with a tolerance may apply (seeded C12-h)
        if np.any(G0):
            kname, K = kappa_letters(seed, tier)[1]
            c7, s7 = math.cos(0.7), math.sin(0.7)
            Rz = np.array([[c7, -s7, 0.0], [s7, c7, 0.0], [0.0, 0.0, 1.0]])
            for eps in (8e-6, -5e-6, 3e-7, 1e-9):
                for dname, Gd in (("along", (1 + eps) * G0), ("turned", (1 + eps) * (Rz @ G0))):
                    names = {"stiff": sname, "gamma": f"near_unstretched_{dname}_{eps:g}", "gamma0": g0name, "kappa": kname, "kappa0": k0name}
                    n, nt, ill = _eval_point(mat, law, Ei, Fi, Gd, G0, K, K0, names, fails, stats)
                    evals += n
                    illc += ill
                    nontrivial |= nt
                    states += 1
        # the same object evaluated with argument BUFFERS that are overwritten in place between calls (as an element loop
        # does): results must depend on the values handed over, not on the identity of the arrays or on earlier calls
        bufG, bufG0, bufK, bufK0 = (np.empty(3) for _ in range(4))
        bufK[:], bufK0[:] = kappa_letters(seed, tier)[1][1], K0
        G1 = next(G for _, G in gamma_letters(seed, tier) if np.any(G))
        for g0n, G0b in gamma_letters(seed, tier):
            bufG[:], bufG0[:] = G1, G0b
            for rname in ("potential", "B_n", "B_m", "B_n_B_Gamma", "B_m_B_Kappa"):
                got = np.asarray(getattr(mat, rname)(bufG, bufG0, bufK, bufK0), float)
                want = np.asarray(getattr(_make(law, Ei, Fi), rname)(G1.copy(), np.array(G0b, float), bufK.copy(), bufK0.copy()), float)
                evals += 1
                e = fd.err(got, want)
                if not e <= 1e-12 * (1.0 + float(np.max(np.abs(want)))):
                    fails.append({"site": f"{law}.{rname} with re-used argument buffers vs fresh object and fresh arrays",
                                  "msg": f"error {e:.3e} at Gamma0 letter {g0n}", "data": {"law": law, "stiff": sname, "gamma0": g0n, "err": e}})
    else:
        # unisolvent set for quadratics in x = (Gamma, Gamma0, Kappa, Kappa0) in R^12
        pts = [np.zeros(12)]
        for i in range(12):
            for s in (1.0, -1.0):
                p = np.zeros(12)
                p[i] = s
                pts.append(p)
        for i, j in itertools.combinations(range(12), 2):
            p = np.zeros(12)
            p[i] = 1.0
            p[j] = 1.0
            pts.append(p)
        for k, p in enumerate(pts):
            names = {"stiff": sname, "point": k}
            n, nt, ill = _eval_point(mat, law, Ei, Fi, p[0:3], p[3:6], p[6:9], p[9:12], names, fails, stats)
            evals += n
            illc += ill
            nontrivial |= nt
            states += 1

    stats["n_illconditioned_oracle"] = illc
    stats["n_strain_states"] = states
    return {"fails": _dedup(fails), "nontrivial": nontrivial and evals > 0, "evals": evals, "stats": stats,
            "outcome": "violates" if fails else "holds"}
