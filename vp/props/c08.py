"""C08  Force-element and actuator Jacobians are exact.

Engine E1 (exhaustive product of finite alphabets on the real code, evaluated through an assembled
System from which the carriers' own contributions are removed).  For every scene and every state
letter the assembled derivative matrices are compared with differentiation oracles of the assembled
functions (DESIGN 2.2):

  System.h_q      vs 5-point d/dq System.h                     System.h_u      vs exact affine d/du System.h
  System.c_q      vs 5-point d/dq System.c                     System.c_u      vs exact affine d/du System.c
  System.c_la_c   vs exact affine d/dla_c System.c             System.Wla_c_q  vs 5-point d/dq (System.W_c la_c)
  System.Wla_tau_q vs 5-point d/dq (System.W_tau System.la_tau)  System.Wla_tau_u vs exact affine d/du (W_tau la_tau)
  System.q_dot_q  vs 5-point d/dq System.q_dot                 System.q_dot_u  vs exact affine d/du System.q_dot
"""
import numpy as np

import cardillo  # noqa: F401  (imported before the workers fork)
import cardillo.rods.cosseratRod  # noqa: F401
import cardillo.force_laws, cardillo.forces, cardillo.interactions, cardillo.constraints, cardillo.actuators  # noqa: F401,E401

from vp.core import fd
from vp.core.alphabet import weyl
from vp.scen import forces as F
from vp.scen.forces import LibFail, lib, libfail_record as _libfail, Acc, check_manifold

ID = "C08"
LEVEL = "model_checking"
RULE = (
    "full product {Spring,KelvinVoigt} x {force,compliance form} + Maxwell, over {TwoPointInteraction pairings, "
    "Revolute pairings x 3 axes} x 3 parameter letters x {generic, axis-aligned} placement; {Force,B_Force,Moment,"
    "B_Moment} x {point mass, rigid body with offset, rod cross-sections} x {constant, time function}; "
    "{Motor,PD,PID} x Revolute pairings x 3 axes x {constant, time-function tau}; each case loops over all "
    "(time x configuration x joint angle x velocity x la_c) letters and differentiates in every coordinate "
    "direction.  A case is non-trivial if at least one compared Jacobian has a non-zero entry"
)
ASSUMPTIONS = [
    "oracle for q-derivatives: 5-point central differences at h and h/2 in every coordinate direction with measured "
    "error estimate (ill-conditioned letters excluded and counted); for u and la_c (affine arguments) exact differences",
    "carriers (bodies, rods) are removed from the System's h/h_q/h_u/q_dot/q_dot_q/q_dot_u contribution lists "
    "after assembly so that the assembled functions are the scatter of the element under test",
    "Revolute base states lie on the joint manifold (partial derivatives are taken in all coordinate directions, "
    "also off the manifold); the angle tracker is reset and primed at every base state",
    "force laws always get an explicit l_ref (independent of the C09 default path)",
    "h is affine in u for all elements of the alphabet (linear damper / PD terms)",
]
MIN_NONTRIVIAL = 60
CASE_TIMEOUT = 240


def cases(tier, seed):
    out = []
    thorough = tier == "thorough"
    tpi_pairs = F.TPI_PAIRS_QUICK + (F.TPI_PAIRS_MORE if thorough else [])
    rev_pairs = F.REV_PAIRS_QUICK + (F.REV_PAIRS_MORE if thorough else [])
    # external forces and moments
    for fk in ("const", "time"):
        out.append({"kind": "ext", "elem": "Force", "carrier": "pm", "fkind": fk, "xi": None})
        for elem in ("Force", "B_Force", "Moment", "B_Moment"):
            out.append({"kind": "ext", "elem": elem, "carrier": "rb", "fkind": fk, "xi": None})
    rods = [("rod:Quaternion:1", (0.0, 0.37, 1.0))]
    if thorough:
        rods += [("rod:Quaternion:2", (0.5, 0.81)), ("rod:SE3:1", (0.37, 1.0)), ("rod:R12:1", (0.37,))]
    for carrier, xis in rods:
        for xi in xis:
            for elem in ("Force", "B_Force", "Moment", "B_Moment"):
                out.append({"kind": "ext", "elem": elem, "carrier": carrier, "fkind": "time", "xi": xi})
    # actuators on revolute joints
    for special in (True, False):
        for act in ("motor", "pd", "pid"):
            for pair in rev_pairs:
                for axis in (0, 1, 2):
                    for tk in (("const",) if special else ("const", "time")):
                        out.append({"kind": "act", "act": act, "pair": pair, "axis": axis, "tau": tk, "special": special})
    # scalar force laws
    lawforms = [("spring", "force"), ("spring", "compliance"), ("kv", "force"), ("kv", "compliance"), ("maxwell", "force")]
    for special in (True, False):
        for par in ((0,) if special else (0, 1, 2)):
            for law, form in lawforms:
                for pair in tpi_pairs:
                    out.append({"kind": "law", "law": law, "form": form, "sub": "tpi", "pair": pair, "axis": None,
                                "par": par, "special": special})
                for pair in rev_pairs:
                    for axis in (0, 1, 2):
                        out.append({"kind": "law", "law": law, "form": form, "sub": "rev", "pair": pair, "axis": axis,
                                    "par": par, "special": special})
    for c in out:
        c["seed"] = seed
        c["tier"] = tier
    return out


# ------------------------------------------------------------------------------------------------
def compare(acc, site, routine, reference, est, data, split_col=None):
    """routine: assembled matrix, reference: oracle matrix.  split_col: judge the column of the element's
    internal coordinate and the remaining columns as two separate sites"""
    R = fd.dense(routine)
    ref = fd.dense(reference)
    if R.shape != ref.shape:
        acc.fail(site + " (shape)", f"shape {R.shape} vs oracle {ref.shape}", dict(data, shape=list(R.shape), oracle_shape=list(ref.shape)))
        return
    if split_col is not None and R.ndim == 2 and R.shape[1] > split_col:
        rest = [j for j in range(R.shape[1]) if j != split_col]
        _compare(acc, site + " [internal-coordinate column]", R[:, [split_col]], ref[:, [split_col]], est, data)
        _compare(acc, site + " [subsystem columns]", R[:, rest], ref[:, rest], est, data)
        return
    _compare(acc, site, R, ref, est, data)


def _compare(acc, site, R, ref, est, data):
    v, e, thr = fd.verdict(R, ref, est)
    if R.size and (np.max(np.abs(R)) > 1e-9 or np.max(np.abs(ref)) > 1e-9):
        acc.nontrivial = True
    if v == "illcond":
        acc.excluded += 1
        return
    sc = fd.scale_of(R, ref)
    key = "max_err_" + site.split(" vs ")[0].split(": ")[-1].replace("System.", "")
    if site.endswith("]"):
        key += "[" + site.rsplit("[", 1)[1].split("-")[0].split(" ")[0] + "]"
    acc.stat_max(key + "_rel", e / sc)
    acc.stat_max("max_est_rel", est / sc)
    if v == "fail":
        d = np.abs(R - ref)
        i = np.unravel_index(int(np.argmax(d)), d.shape)
        acc.fail(site, f"max |routine - oracle| = {e:.3g} (threshold {thr:.3g}) at entry {tuple(int(x) for x in i)}: "
                       f"{R[i]:.9g} vs {ref[i]:.9g}",
                 dict(data, err=e, thr=thr, est=est, entry=[int(x) for x in i], routine=float(R[i]), oracle=float(ref[i]),
                      ratio=(float(R[i] / ref[i]) if abs(ref[i]) > 1e-12 else None)))


def jac_q(acc, s, fun, q):
    """5-point Jacobian of fun(q) w.r.t. all coordinates, through lib()"""
    J, est = fd.jac(fun, q)
    acc.evals += 8 * q.size
    return J, est


def check_h(acc, name, s, t, q, u, data):
    Hq = lib("System.h_q", s.h_q, t, q, u)
    J, est = jac_q(acc, s, lambda x: lib("System.h", s.h, t, x, u), q)
    compare(acc, f"{name}: System.h_q vs d/dq System.h", Hq, J, est, data, split_col=data.get("internal_col"))
    Hu = lib("System.h_u", s.h_u, t, q, u)
    Ju = fd.affine_jac(lambda v: lib("System.h", s.h, t, q, v), s.nu, x0=u)
    acc.evals += s.nu + 3
    compare(acc, f"{name}: System.h_u vs d/du System.h", Hu, Ju, 0.0, data)
    if np.any(u != 0.0):
        # creeping motion: h is affine in u (as the line above already uses), hence so is h_q; the same generalised velocity
        # scaled down to 1e-9 and 3e-10 must give exactly the scaled velocity-dependent part (relative measure: an error of the
        # size of the velocity-dependent part itself is invisible to any absolute tolerance at these speeds)
        H0 = fd.dense(lib("System.h_q", s.h_q, t, q, np.zeros_like(u)))
        D1 = fd.dense(Hq) - H0
        for eps in (1e-9, 3e-10):
            De = fd.dense(lib("System.h_q", s.h_q, t, q, eps * u)) - H0
            acc.evals += 1
            err = float(np.max(np.abs(De - eps * D1))) if De.size else 0.0
            thr = 1e-5 * eps * float(np.max(np.abs(D1))) + 1e-14 * max(1.0, float(np.max(np.abs(H0)))) if De.size else 0.0
            acc.stat_max("max_err_h_q_creeping_rel", err / thr if thr > 0 else 0.0)
            if err > thr:
                acc.fail(f"{name}: System.h_q at a creeping velocity vs scaled velocity-dependent part (h affine in u)",
                         f"err {err:.3e} > {thr:.3e} at u scaled by {eps:g}", dict(data, err=err, thr=thr, eps=eps))


def check_c(acc, name, s, t, q, u, la, data):
    Cq = lib("System.c_q", s.c_q, t, q, u, la)
    J, est = jac_q(acc, s, lambda x: lib("System.c", s.c, t, x, u, la), q)
    compare(acc, f"{name}: System.c_q vs d/dq System.c", Cq, J, est, data)
    Cu = lib("System.c_u", s.c_u, t, q, u, la)
    Ju = fd.affine_jac(lambda v: lib("System.c", s.c, t, q, v, la), s.nu, x0=u)
    compare(acc, f"{name}: System.c_u vs d/du System.c", Cu, Ju, 0.0, data)
    Cl = lib("System.c_la_c", s.c_la_c)
    Jl = fd.affine_jac(lambda x: lib("System.c", s.c, t, q, u, x), s.nla_c, x0=la)
    compare(acc, f"{name}: System.c_la_c vs d/dla_c System.c", Cl, Jl, 0.0, data)
    Wq = lib("System.Wla_c_q", s.Wla_c_q, t, q, la)
    J, est = jac_q(acc, s, lambda x: fd.dense(lib("System.W_c", s.W_c, t, x)) @ la, q)
    compare(acc, f"{name}: System.Wla_c_q vs d/dq (System.W_c la_c)", Wq, J, est, data)
    acc.evals += 2 * s.nu + 8


def check_qdot(acc, name, s, t, q, u, data):
    Qq = lib("System.q_dot_q", s.q_dot_q, t, q, u)
    J, est = jac_q(acc, s, lambda x: lib("System.q_dot", s.q_dot, t, x, u), q)
    compare(acc, f"{name}: System.q_dot_q vs d/dq System.q_dot", Qq, J, est, data, split_col=data.get("internal_col"))
    Qu = lib("System.q_dot_u", s.q_dot_u, t, q)
    Ju = fd.affine_jac(lambda v: lib("System.q_dot", s.q_dot, t, q, v), s.nu, x0=u)
    acc.evals += s.nu + 3
    compare(acc, f"{name}: System.q_dot_u vs d/du System.q_dot", Qu, Ju, 0.0, data)


def check_tau(acc, name, s, t, q, u, data):
    def Wla(x, v):
        return fd.dense(lib("System.W_tau", s.W_tau, t, x)) @ lib("System.la_tau", s.la_tau, t, x, v)

    Tq = lib("System.Wla_tau_q", s.Wla_tau_q, t, q, u)
    J, est = jac_q(acc, s, lambda x: Wla(x, u), q)
    compare(acc, f"{name}: System.Wla_tau_q vs d/dq (System.W_tau System.la_tau)", Tq, J, est, data, split_col=data.get("internal_col"))
    Tu = lib("System.Wla_tau_u", s.Wla_tau_u, t, q, u)
    Ju = fd.affine_jac(lambda v: Wla(q, v), s.nu, x0=u)
    acc.evals += s.nu + 3
    compare(acc, f"{name}: System.Wla_tau_u vs d/du (System.W_tau System.la_tau)", Tu, Ju, 0.0, data)


# ------------------------------------------------------------------------------------------------
def _base_states(case, sc):
    seed = case["seed"]
    thorough = case["tier"] == "thorough"
    moving = "mframe" in case["pair"]
    times = F.TIMES if (moving or thorough or case.get("tau") == "time") else F.TIMES[:1]
    for t in times:
        if case.get("sub", "rev") == "tpi":
            for letter in ((0, 1, 2, 3) if thorough else (0, 1, 2)):
                yield {"t": t, "state": letter}, t, F.tpi_state(sc, letter, seed, t)
        else:
            for ia, ang in enumerate(F.REV_ANGLES):
                for letter in (0, 1):
                    if not thorough and (ia + letter) % 2 and ia > 1:
                        continue
                    yield {"t": t, "state": letter, "angle": ang}, t, F.rev_state(sc, letter, ang, seed, t)
            # states that VIOLATE the joint (the property quantifies over all states): the second body tilted about
            # each in-plane axis of the joint frame
            axis = case.get("axis", 0)
            for ib, tax in enumerate(((axis + 1) % 3, (axis + 2) % 3)):
                ang = F.REV_ANGLES[1 + ib]
                yield {"t": t, "state": 1, "angle": ang, "offmanifold": True, "tilt_axis": tax}, t, F.rev_state(sc, 1, ang, seed, t, tilt=(tax, 0.35 - 0.6 * ib))


def _u_letters(s, seed):
    return [("zero", np.zeros(s.nu)), ("gen", weyl(seed, 50, s.nu))]


NAMES = {"spring": "Spring", "kv": "KelvinVoigt", "maxwell": "Maxwell"}


def check_law(case):
    acc = Acc()
    seed = case["seed"]
    law, form = case["law"], case["form"]
    name = f"{NAMES[law]}[{form}]"
    if case["sub"] == "tpi":
        sc = F.scene_tpi(case["pair"], seed, special=case["special"], law=law, form=form, par=case["par"],
                         l_ref=1.1 if not case["special"] else 1.5)
    else:
        sc = F.scene_rev(case["pair"], case["axis"], seed, special=case["special"], law=law, form=form, par=case["par"],
                         l_ref=0.2, angle0=0.0 if case["special"] else 0.3)
    F.isolate(sc)
    s = sc.system
    internal_col = int(sc.element.my_qDOF[0]) if law == "maxwell" else None
    nstates = 0
    for lab, t, parts in _base_states(case, sc):
        q = sc.q_from(parts, internal=(0.15 if law == "maxwell" else None))
        if case["sub"] == "rev" and not lab.get("offmanifold"):
            check_manifold(sc, t, q)
        sc.reset()
        lib("System.E_pot", s.E_pot, t, q)  # primes the revolute angle tracker at the base state
        nstates += 1
        for uname, u in _u_letters(s, seed):
            data = dict(lab, u=uname, internal_col=internal_col)
            if form == "force":
                check_h(acc, name, s, t, q, u, data)
                if law == "maxwell":
                    check_qdot(acc, name, s, t, q, u, data)
            else:
                for lname, la in (("gen", np.array([-3.7])), ("zero", np.zeros(1))):
                    if lname == "zero" and uname == "zero":
                        continue
                    check_c(acc, name, s, t, q, u, la, dict(data, la_c=lname))
    acc.stats["n_base_states"] = nstates
    return acc.result(outcome=f"law:{law}:{form}:{case['sub']}")


def check_act(case):
    acc = Acc()
    seed = case["seed"]
    act = case["act"]
    name = {"motor": "Motor", "pd": "PDcontroller", "pid": "PIDcontroller"}[act]
    sc = F.scene_rev(case["pair"], case["axis"], seed, special=case["special"], act=act, tau_kind=case["tau"],
                     angle0=0.0 if case["special"] else 0.3)
    F.isolate(sc)
    s = sc.system
    internal_col = int(sc.element.my_qDOF[0]) if act == "pid" else None
    nstates = 0
    for lab, t, parts in _base_states(case, sc):
        q = sc.q_from(parts, internal=(0.35 if act == "pid" else None))
        if not lab.get("offmanifold"):
            check_manifold(sc, t, q)
        sc.reset()
        nstates += 1
        for uname, u in _u_letters(s, seed):
            lib("System.la_tau", s.la_tau, t, q, u)  # primes the tracker
            data = dict(lab, u=uname, internal_col=internal_col)
            check_tau(acc, name, s, t, q, u, data)
            if act == "pid":
                check_qdot(acc, name, s, t, q, u, data)
    acc.stats["n_base_states"] = nstates
    return acc.result(outcome=f"act:{act}")


def check_ext(case):
    acc = Acc()
    seed = case["seed"]
    sc = F.scene_force(case["elem"], case["carrier"], case["fkind"], seed, xi=case["xi"])
    F.isolate(sc)
    s = sc.system
    name = case["elem"]
    for t in F.TIMES:
        for letter in (0, 1, 2):
            q = F.scene_state(sc, letter, seed, t)
            u = weyl(seed, 50, s.nu)
            check_h(acc, name, s, t, q, u, {"t": t, "state": letter})
    return acc.result(outcome=f"ext:{name}:{case['carrier'].split(':')[0]}")


def check(case):
    kind = case["kind"]
    try:
        if kind == "law":
            return check_law(case)
        if kind == "act":
            return check_act(case)
        if kind == "ext":
            return check_ext(case)
    except LibFail as e:
        return {"fails": [_libfail(e)], "nontrivial": True, "evals": 1, "outcome": f"{kind}:raises"}
    raise ValueError(kind)
