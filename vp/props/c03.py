"""C03  SO(3)/SE(3) derivative routines are the derivatives of their maps.

Engine E1: complete product  direction x log-uniform magnitude ladder  of rotation vectors (incl.
psi = 0, 1e-12 and 1e-10 .. 1e-1 decade by decade), per psi 4 rates psi_dot and 3 translations r, and the
complete integer grid {-2..3}^4 minus 0 for the quaternion tangent maps.

Oracle: central differences (step 1e-25) of the 60-digit mpmath reference maps of vp/scen/refrot.py
(own error < 1e-30), which C02 binds to the implemented maps (conformance) and which are re-bound in
every case to mp.expm / the body-fixed spin of Exp (harness self-check).  The logarithm
derivatives are only specified tangentially to the group, so Log_SO3_A / Log_SE3_H are contracted
with tangent vectors A a~ resp. H [[a~ b],[0 0]] and compared with d/ds Log(A Exp(s a)).
Quaternion tangent maps: complex step on the implemented map + exact rational quotient rule.

fail.data carries psi_norm (and r_norm) so that known findings can be limited to tiny angles.
"""
import itertools
import math
from fractions import Fraction

import numpy as np

from vp.core import alphabet as al

ID = "C03"
LEVEL = "model_checking"
RULE = (
    "psi = m*d over the full product of 26 lattice + 3 (thorough: 12) seed-rotated generic directions d and m in {0,1e-12,1e-10,1e-9,1e-8,...,1e-1,.5,1,2,3,pi-1e-2} plus two branch letters near 1e-10 and 1e-12 at which x*(1/tan x) rounds below 1; "
    "per psi: all 27 entries of Exp_SO3_psi, T_SO3_psi, T_SO3_inv_psi, T_SO3_dot for 4 rates, Log_SO3_A along 3 tangent directions, "
    "Exp_SE3_h (all 96 entries) and Log_SE3_H (6 tangent twists) for 3 translations; T_SO3_quat_P / T_SO3_inv_quat_P (both "
    "normalize flags) on the full grid {-2..3}^4 minus 0 plus 6 generic quaternions.  A case is non-trivial if every routine "
    "returned an array that was compared with the reference derivative"
)
ASSUMPTIONS = [
    "reference = central difference (h=1e-25) of 60-digit mpmath closed forms of Exp, T, inv(T), Log, Exp_SE3, Log_SE3 (power series for |psi|<1e-4); conformance of these maps with the implemented maps is established by C02 on a superset ladder",
    "absolute tolerance 1e-6 * max(1,|r|,|psi_dot|): measured rounding noise of the non-defective routines is <= 2e-8 (cancellation in (alpha-beta)/angle^2 type quotients peaks at |psi| ~ 1e-8), a wrong term is O(1e-2..1) for |psi| >= 0.1",
    "Log_SO3_A / Log_SE3_H are judged on tangent directions of SO(3)/SE(3) only; rotation angles above pi-1e-2 are outside (conditioning of the logarithm)",
    "T_SO3_dot(psi, psi_dot) is specified as d/ds T_SO3(psi + s psi_dot) (its docstring: 'derivative of tangent map w.r.t. scalar argument of rotation vector')",
]
MIN_NONTRIVIAL = 300
CASE_TIMEOUT = 120
TOL = 1e-6
PI = math.pi


def _gamma_rounds_down(base):
    """special letter: the first magnitude m = base*(1+k/1000) for which the float expression of
    T_SO3_inv_psi, gamma = x*(1/tan x) with x = m/2, rounds to 1 - 2^-53 instead of 1 (about 15 % of all
    tiny x); there (1-gamma)/angle^2 = 1.1e-16/m^2 instead of 1/12."""
    for k in range(1000):
        m = base * (1 + k / 1000.0)
        x = 0.5 * m
        if x * (1.0 / math.tan(x)) != 1.0:
            return m
    return base


MAGS = [1.0, 0.5, 2.0, 3.0, 0.1, 0.0] + [10.0 ** (-k) for k in range(2, 11)] + [1e-12, _gamma_rounds_down(1e-10), _gamma_rounds_down(1e-12), PI - 1e-2]
GRID = list(range(-2, 4))


def directions(seed, tier="quick"):
    return al.lattice_dirs() + [al.generic_unit(seed, k) for k in range(3 if tier == "quick" else 12)]


def psi_dots(seed):
    return [np.array([1.0, 0, 0]), np.array([0, 0, -1.0]), np.array([0.3, -1.2, 2.0]), al.generic_vec(seed, 11, 3, 1.5)]


def translations(seed):
    return [np.zeros(3), np.array([0.0, 1.0, 0]), al.generic_vec(seed, 5, 3, 2.0)]


def cases(tier, seed):
    out = []
    D = directions(seed, tier)
    for mi, m in enumerate(MAGS if tier == "quick" else MAGS + [0.25, 1.5, 2.5, 3.1, 3e-2, 3e-4, 3e-6, 3e-8]):
        for di in range(len(D)):
            out.append({"kind": "psi", "tier": tier, "dir": di, "m": m, "seed": seed})
    for p0, p1 in itertools.product(GRID, repeat=2):
        out.append({"kind": "quat", "prefix": [p0, p1], "seed": seed})
    out.append({"kind": "quat_generic", "seed": seed})
    return out


class _F:
    def __init__(self):
        self.by_site = {}
        self.stats = {}
        self.n = 0

    def cmp(self, site, got, ref, tol, data, stat=None):
        self.n += 1
        got = np.asarray(got, float)
        ref = np.asarray(ref, float)
        if got.shape != ref.shape:
            e = float("inf")
        else:
            d = np.abs(got - ref)
            e = float("inf") if (d.size and not np.all(np.isfinite(d))) else (float(d.max()) if d.size else 0.0)
        if stat:
            k = "max_err_" + stat
            self.stats[k] = max(self.stats.get(k, 0.0), e if np.isfinite(e) else 1e300)
        if not (e <= tol):
            # keep, per site and case, the failure with the largest error
            if site not in self.by_site or e > self.by_site[site][0]:
                dd = dict(data)
                dd.update({"err": e, "tol": tol})
                self.by_site[site] = (e, {"site": site, "msg": f"error {e:.3e} > {tol:.1e} at {data}", "data": dd})
            return False
        return True

    def list(self):
        return [v[1] for v in self.by_site.values()]


def _band(a):
    return "psi=0" if a == 0 else ("tiny(<=1e-5)" if a <= 2e-5 else ("small(<=1e-2)" if a <= 2e-2 else "moderate"))


# ------------------------------------------------------------------------------------------------
# exact reference for the quaternion tangent maps
# ------------------------------------------------------------------------------------------------
def _M(P):
    """numerator of T_SO3_quat: 2 [-p, p0 I - p~]  (linear in P), entries written out"""
    a, b, c, d = P
    return [[-2 * b, 2 * a, 2 * d, -2 * c],
            [-2 * c, -2 * d, 2 * a, 2 * b],
            [-2 * d, 2 * c, -2 * b, 2 * a]]


def _Minv(P):
    """T_SO3_inv_quat: 1/2 [[-p^T],[p0 I + p~]] (linear in P)"""
    a, b, c, d = P
    h = Fraction(1, 2) if isinstance(a, Fraction) else 0.5
    return [[-h * b, -h * c, -h * d],
            [h * a, -h * d, h * c],
            [h * d, h * a, -h * b],
            [-h * c, h * b, h * a]]


def ref_T_P(P, normalize):
    exact = all(float(x).is_integer() for x in P)
    Pq = [Fraction(int(x)) for x in P] if exact else [float(x) for x in P]
    one = Fraction(1) if exact else 1.0
    zero = one * 0
    n2 = sum(x * x for x in Pq)
    M = _M(Pq)
    out = np.zeros((3, 4, 4))
    for k in range(4):
        ek = [one if j == k else zero for j in range(4)]
        Mk = _M(ek)  # exact derivative of a linear map
        for i in range(3):
            for j in range(4):
                out[i, j, k] = float(Mk[i][j] / n2 - 2 * Pq[k] * M[i][j] / (n2 * n2)) if normalize else float(Mk[i][j])
    return out


def ref_Tinv_P():
    out = np.zeros((4, 3, 4))
    for k in range(4):
        ek = [Fraction(1) if j == k else Fraction(0) for j in range(4)]
        Mk = _Minv(ek)
        for i in range(4):
            for j in range(3):
                out[i, j, k] = float(Mk[i][j])
    return out


def _quat_checks(P, F, dirs):
    from cardillo.math import T_SO3_quat, T_SO3_quat_P, T_SO3_inv_quat, T_SO3_inv_quat_P, Exp_SO3_quat, Exp_SO3_quat_P
    from vp.props.c01 import ref_R_P

    P = np.asarray(P, float)
    h = 1e-30
    sc = max(1.0, 1.0 / float(P @ P))
    # derivative of the rotation matrix itself w.r.t. the (any-length) quaternion, all four components (radial one included)
    R_P = Exp_SO3_quat_P(P, normalize=True)
    dR = {"P": P.tolist(), "normalize": True, "P2_minus_1": float(P @ P - 1.0)}
    F.cmp("Exp_SO3_quat_P vs exact rational derivative", R_P, ref_R_P(P, True), 1e-9 * max(1.0, 1.0 / float(np.sqrt(P @ P))), dR, "RquatP_rational")
    for v in dirs:
        Pc = P.astype(complex) + 1j * h * v
        F.cmp("Exp_SO3_quat_P vs complex-step derivative of Exp_SO3_quat", R_P @ v, np.imag(Exp_SO3_quat(Pc, normalize=True)) / h,
              1e-9 * max(1.0, 1.0 / float(np.sqrt(P @ P))), dict(dR, v=v.tolist()), "RquatP_cs")
    for normalize in (True, False):
        sfx = "" if normalize else " [normalize=False]"
        d = {"P": P.tolist(), "normalize": normalize}
        T_P = T_SO3_quat_P(P, normalize=normalize)
        F.cmp("T_SO3_quat_P vs exact rational derivative" + sfx, T_P, ref_T_P(P, normalize), 1e-9 * sc, d, "TquatP_rational")
        Ti_P = T_SO3_inv_quat_P(P, normalize=normalize)
        F.cmp("T_SO3_inv_quat_P vs exact derivative" + sfx, Ti_P, ref_Tinv_P(), 1e-9, d, "TinvquatP_exact")
        for v in dirs:
            Pc = P.astype(complex) + 1j * h * v
            F.cmp("T_SO3_quat_P vs complex-step derivative of T_SO3_quat" + sfx, T_P @ v, np.imag(T_SO3_quat(Pc, normalize=normalize)) / h, 1e-9 * sc, dict(d, v=v.tolist()), "TquatP_cs")
            F.cmp("T_SO3_inv_quat_P vs complex-step derivative of T_SO3_inv_quat" + sfx, Ti_P @ v, np.imag(T_SO3_inv_quat(Pc, normalize=normalize)) / h, 1e-9, dict(d, v=v.tolist()), "TinvquatP_cs")


def check(case):
    from vp.scen import rotlib

    rotlib.math()  # cardillo.math from $VERIF_REPO without the (slow) package __init__
    from cardillo.math import (Exp_SO3_psi, T_SO3_psi, T_SO3_dot, T_SO3_inv_psi, Log_SO3_A, Exp_SE3_h, Log_SE3_H)
    from vp.scen import refrot as rr
    import mpmath as mp

    F = _F()
    seed = case.get("seed", 0)
    kind = case["kind"]

    if kind in ("quat", "quat_generic"):
        dirs = [np.eye(4)[k] for k in range(4)] + [al.weyl(seed, 60, 4)]
        n = 0
        if kind == "quat":
            Ps = [case["prefix"] + [p2, p3] for p2, p3 in itertools.product(GRID, repeat=2) if any(case["prefix"]) or p2 or p3]
        else:
            Ps = [al.generic_quat(seed, k).tolist() for k in range(6)]
            # numerically normalised generic quaternions (|P|^2 = 1 up to one rounding) and nearly-unit ones
            for k in range(6):
                g = np.asarray(al.generic_quat(seed, 10 + k), float)
                g = g / np.sqrt(g @ g)
                Ps += [g.tolist(), (g * (1 + 4e-6)).tolist(), (g * (1 - 3e-9)).tolist()]
        for P in Ps:
            _quat_checks(P, F, dirs)
            n += 1
        return {"fails": F.list(), "nontrivial": n > 0, "evals": F.n, "outcome": "quaternion tangent maps", "stats": dict(F.stats, n_quat_letters=n)}

    d = directions(seed, case.get("tier", "quick"))[case["dir"]]
    m = case["m"]
    psi = m * d
    a = float(np.sqrt(psi @ psi))
    data = {"psi": psi.tolist(), "psi_norm": a, "dir": d.tolist(), "m": m}
    band = _band(a)
    sb = "_" + band.split("(")[0].replace("=", "")
    w = rr.selfcheck([psi], translations(seed)[2:3])
    if not (w < 1e-30):
        raise AssertionError(f"reference maps inconsistent ({w}) at psi={psi.tolist()}")
    E3 = np.eye(3)

    def jac_ref(f, x, n):
        cols = [rr.to_np(rr.fd(f, x, [1.0 if j == k else 0.0 for j in range(n)])) for k in range(n)]
        return np.stack(cols, axis=-1)

    # ---- 1. Exp_SO3_psi
    F.cmp("Exp_SO3_psi vs d/dpsi of mpmath Exp", Exp_SO3_psi(psi), jac_ref(rr.Exp, psi, 3), TOL, data, "Exp_SO3_psi" + sb)
    # ---- 2. T_SO3_psi
    Tpsi_ref = jac_ref(rr.T, psi, 3)
    F.cmp("T_SO3_psi vs d/dpsi of mpmath T", T_SO3_psi(psi), Tpsi_ref, TOL, data, "T_SO3_psi" + sb)
    # ---- 3. T_SO3_inv_psi
    F.cmp("T_SO3_inv_psi vs d/dpsi of mpmath inverse of T", T_SO3_inv_psi(psi), jac_ref(rr.Tinv, psi, 3), TOL, data, "T_SO3_inv_psi" + sb)
    # ---- 4. T_SO3_dot = d/ds T(psi + s psi_dot)  (the derivative is linear in psi_dot)
    for pd in psi_dots(seed):
        F.cmp("T_SO3_dot vs d/ds mpmath T(psi + s psi_dot)", T_SO3_dot(psi, pd), Tpsi_ref @ pd, TOL * max(1.0, float(np.max(np.abs(pd)))), dict(data, psi_dot=pd.tolist()), "T_SO3_dot" + sb)
    # ---- 5. Log_SO3_A, tangentially
    A_mp = rr.Exp(psi)
    A = rr.to_np(A_mp)  # correctly rounded rotation matrix
    A_fl = [[mp.mpf(float(x)) for x in row] for row in A_mp]
    psi_A = Log_SO3_A(A)
    for k in range(3):
        av = E3[k]
        ref = rr.to_np(rr.fd(lambda s: rr.Log(rr.mm(A_fl, rr.Exp([s[0] * av[0], s[0] * av[1], s[0] * av[2]]))), [0.0], [1.0]))
        got = np.einsum("ijk,jk->i", psi_A, A @ al.skew(av))
        F.cmp("Log_SO3_A (tangential) vs d/ds mpmath Log(A Exp(s a))", got, ref, TOL, dict(data, a=av.tolist()), "Log_SO3_A" + sb)
    # ---- 6./7. SE(3)
    for r in translations(seed):
        h = np.concatenate([r, psi])
        rn = float(np.sqrt(r @ r))
        sc = max(1.0, float(np.max(np.abs(r))))
        dr = dict(data, r=r.tolist(), r_norm=rn)
        H_h = Exp_SE3_h(h)
        ref = jac_ref(rr.ExpSE3, h, 6)
        F.cmp("Exp_SE3_h [rotation block d/dpsi] vs mpmath", H_h[:3, :3, 3:], ref[:3, :3, 3:], TOL, dr, "Exp_SE3_h_rot" + sb)
        F.cmp("Exp_SE3_h [translation d/dr] vs mpmath", H_h[:3, 3, :3], ref[:3, 3, :3], TOL, dr, "Exp_SE3_h_tr_r" + sb)
        F.cmp("Exp_SE3_h [translation d/dpsi] vs mpmath", H_h[:3, 3, 3:], ref[:3, 3, 3:], TOL * sc, dr, "Exp_SE3_h_tr_psi" + sb)
        rest = H_h.copy()
        rest[:3, :3, 3:] = 0
        rest[:3, 3, :] = 0
        refrest = ref.copy()
        refrest[:3, :3, 3:] = 0
        refrest[:3, 3, :] = 0
        F.cmp("Exp_SE3_h [remaining entries] vs mpmath", rest, refrest, TOL, dr, "Exp_SE3_h_rest")
        # logarithm at the correctly rounded H
        H_mp = rr.ExpSE3(h)
        H = rr.to_np(H_mp)
        H_fl = [[mp.mpf(float(x)) for x in row] for row in H_mp]
        h_H = Log_SE3_H(H)
        for k in range(6):
            xi = np.zeros(6)
            xi[k] = 1.0
            ref = rr.to_np(rr.fd(lambda s: rr.LogSE3(rr.mm(H_fl, rr.ExpSE3([s[0] * x for x in xi]))), [0.0], [1.0]))
            dH = np.zeros((4, 4))
            dH[:3, :3] = al.skew(xi[3:])
            dH[:3, 3] = xi[:3]
            got = np.einsum("ijk,jk->i", h_H, H @ dH)
            dk = dict(dr, twist=xi.tolist())
            F.cmp("Log_SE3_H [psi rows] (tangential) vs mpmath", got[3:], ref[3:], TOL, dk, "Log_SE3_H_psi" + sb)
            F.cmp("Log_SE3_H [r rows] (tangential) vs mpmath", got[:3], ref[:3], TOL * sc, dk, "Log_SE3_H_r" + sb)
    return {"fails": F.list(), "nontrivial": True, "evals": F.n, "outcome": band, "stats": F.stats}
