"""C11  Rod discretization derivatives and nodal interpolation are consistent.

Engine E1.  One case = one rod formulation (as in C10), built fresh and put alone into a System.  Per case a
small complete product  base x motion  of states is visited (reference / deformed with unit nodal quaternions /
deformed with per-node rescaled, non-unit quaternions; identity, generic rotation+translation, exact quarter
and half turns given by integer quaternions).  At every state

  * every Jacobian reported through System (h_q, h_u, c_q, c_la_c, Wla_c_q, g_q, Wla_g_q, q_dot_q, q_dot_u,
    g_S_q) is compared, column by column, with 5-point central differences of the function it claims to
    differentiate (all single-coordinate deviations q +- h e_i, q +- 2h e_i; two step sizes give the measured
    error estimate) or with exact differences where the argument enters affinely (u in q_dot, la_c in c);
  * for every cross-section parameter xi of the alphabet and a generic body-fixed offset the element-level
    routines r_OP_q, A_IB_q, v_P_q, J_P (affine in ue), J_P_q are compared in the same way;
  * at every nodal parameter r_OP, A_IB, v_P equal the nodal position, Exp(nodal quaternion) (independent
    reference) and nodal velocity (also with offset: r + A b, v + A (omega x b));
  * quaternion and SE(3) interpolations give A^T A = I, det A = 1 at every xi of the alphabet;
  * M is symmetric, eigenvalues >= -1e-12 trace, E_kin(u) = 1/2 u^T M u for generic u, all e_i (thorough: all
    e_i + e_j), and the gyroscopic part of h is power-free.

Rods are Petrov-Galerkin: only partial derivatives are compared at non-nodal xi; "velocity equals nodal value"
only at nodal xi (DESIGN 2.2 / AUTHORING trap list).
"""
import numpy as np

from vp.core import alphabet as ab
from vp.core import fd
from vp.scen import rods as R

ID = "C11"
LEVEL = "model_checking"
RULE = (
    "complete product of rod formulations (as C10; thorough: nel=3 only on two references) x states (quick: 3 = reference, deformed-unit o generic motion, "
    "deformed-nonunit o half turn; thorough: 8 = reference x {id, quarter turn}, deformed-unit x {id, generic motion, half turn}, deformed-nonunit x {id, generic motion, quarter turn}) x all coordinate directions for every System-level "
    "Jacobian; x cross-section parameters xi in {0,.1,.25,1/3,.5,.77,1} U all nodal parameters x offset for the "
    "element-level Jacobians; nodal-value, rotation, mass-matrix, kinetic-energy and gyroscopic-power oracles at all "
    "of these.  A case is non-trivial if at least 5 compared Jacobian blocks have a non-zero reference derivative"
)
ASSUMPTIONS = [
    "5-point stencils with h=1e-3 and h/2: accepted iff |routine - D(h/2)| <= 1e-8 + 1e-7 scale + 4 est; blocks with est > 1e-6 scale are counted as ill-conditioned and excluded",
    "the rod is the only contribution of the System (offset 0), so System-level Jacobians are the rod's own scattered element Jacobians",
    "time-derivative relations are not checked at non-nodal xi (Petrov-Galerkin); acceleration-level routines (a_P*) are outside the property",
    "independent references: quaternion -> rotation matrix of the normalised quaternion (vp.core.alphabet.quat_to_A)",
]
MIN_NONTRIVIAL = 100
MIN_OUTCOMES = 5
CASE_TIMEOUT = 900

XIS = [0.0, 0.1, 0.25, 1.0 / 3.0, 0.5, 0.77, 1.0]
SITE_QDOTU_NONUNIT = "System.q_dot_u vs exact affine d q_dot/du [rows of non-unit nodal quaternions]"
SITE_QDOTU_UNIT = "System.q_dot_u vs exact affine d q_dot/du [centerline rows and rows of unit nodal quaternions]"


def cases(tier, seed):
    out = []
    for f in R.formulations(tier, harsch=True):
        c = dict(f)
        c["tier"] = tier
        c["seed"] = seed
        out.append(c)
    # rods with many elements: nodal interpolation at every node, with every float spelling of the nodal parameter
    # (element look-up at interior element boundaries; seeded C11-e)
    for interp, p in R.INTERPS:
        for nel in (5, 7, 10):
            out.append({"kind": "many_elements", "interp": interp, "p": p, "mixed": False, "cons": None, "nel": nel, "ref": "helix",
                        "mat": "Simo1986", "full_int": False, "tier": tier, "seed": seed})
    return out


def check_many(case):
    seed = case.get("seed", 0)
    rod, s, Q = R.build(case, seed)
    q = R.base_states(rod, Q, seed)[1][1]
    u = 0.7 * ab.weyl(seed, 31, s.nu)
    b = np.array([0.05, -0.08, 0.03])
    t = 0.0
    n = rod.nnodes_r - 1
    fails = {}
    evals = 0
    worst = 0.0
    nspell = 0
    for k in range(rod.nnodes_r):
        spell = {float(np.linspace(0.0, 1.0, n + 1)[k]), k / n, k * (1.0 / n), 1.0 - (n - k) / n, float(np.float32(k) / np.float32(n)) if k in (0, n) else k / n}
        r_k = q[rod.qDOF[rod.nodalDOF_r[k]]]
        A_k = ab.quat_to_A(q[rod.qDOF[rod.nodalDOF_p[k]]])
        v_k = u[rod.uDOF[rod.nodalDOF_r_u[k]]]
        om_k = u[rod.uDOF[rod.nodalDOF_p_u[k]]]
        for xk in sorted(spell):
            nspell += 1
            qe = q[rod.qDOF[rod.local_qDOF_P(xk)]]
            ue = u[rod.uDOF[rod.local_uDOF_P(xk)]]
            obs = [
                ("r_OP at nodal xi vs nodal position [many elements]", rod.r_OP(t, qe, xk), r_k),
                ("A_IB at nodal xi vs Exp(nodal quaternion) [many elements]", rod.A_IB(t, qe, xk), A_k),
                ("v_P at nodal xi vs nodal velocity [many elements]", rod.v_P(t, qe, ue, xk), v_k),
                ("r_OP with offset at nodal xi vs r + A b [many elements]", rod.r_OP(t, qe, xk, b), r_k + A_k @ b),
                ("v_P with offset at nodal xi vs v + A (omega x b) [many elements]", rod.v_P(t, qe, ue, xk, b), v_k + A_k @ np.cross(om_k, b)),
                ("J_P u at nodal xi vs nodal velocity [many elements]", np.asarray(rod.J_P(t, qe, xk), float) @ ue, v_k),
            ]
            evals += len(obs)
            for site, got_, ref_ in obs:
                e = _maxabs(np.asarray(got_, float) - ref_) / max(1.0, _maxabs(ref_))
                worst = max(worst, e)
                if not e <= 1e-11 and site not in fails:
                    fails[site] = {"site": site, "msg": f"error {e:.3e} at node {k} (xi={xk!r}) of a rod with {case['nel']} elements",
                                   "data": {"node": k, "xi": xk, "err": e, "nel": case["nel"], "interp": case["interp"], "p": case["p"]}}
    return {"fails": list(fails.values()), "nontrivial": nspell > rod.nnodes_r, "evals": evals, "outcome": "many_elements:" + str(case["interp"]),
            "stats": {"max_err_nodal_many": worst, "n_xi_spellings": nspell}}


def _states(rod, Q, tier, seed):
    bases = R.base_states(rod, Q, seed)
    gm = ("generic_rot_trans", ab.generic_vec(seed, 4, 3, 1.5), ab.generic_quat(seed, 2, unit=True))  # unit: keeps unit states unit
    ht = ("halfturn_x", np.array([0.0, 1.0, 0.0]), np.array([0.0, 1.0, 0.0, 0.0]))
    qt = ("rot90z_intquat", None, np.array([1.0, 0.0, 0.0, 1.0]))
    if tier == "quick":
        return [
            ("reference", "id", bases[0][1]),
            ("deformed_unit", gm[0], R.rigid_motion(rod, bases[1][1], gm[1], gm[2])),
            ("deformed_nonunit", ht[0], R.rigid_motion(rod, bases[2][1], ht[1], ht[2])),
        ]
    plan = {"reference": (None, qt), "deformed_unit": (None, gm, ht), "deformed_nonunit": (None, gm, qt)}
    out = []
    for bname, q in bases:
        for m in plan[bname]:
            if m is None:
                out.append((bname, "id", q))
            else:
                out.append((bname, m[0], R.rigid_motion(rod, q, m[1], m[2])))
    return out


def _maxabs(a):
    a = np.asarray(a, float)
    if a.size == 0:
        return 0.0
    m = float(np.max(np.abs(a)))
    return m if m == m else float("inf")


def check(case):
    if case.get("kind") == "many_elements":
        return check_many(case)
    seed = case.get("seed", 0)
    tier = case.get("tier", "quick")
    rod, s, Q = R.build(case, seed)
    fails = {}
    stats = {"max_err_sys_jac": 0.0, "max_est_sys_jac": 0.0, "max_err_el_jac": 0.0, "max_est_el_jac": 0.0,
             "max_err_affine": 0.0, "max_err_nodal": 0.0, "max_err_rotation": 0.0, "max_err_M_sym_rel": 0.0,
             "max_err_Ekin_rel": 0.0, "max_gyr_power_rel": 0.0, "min_eig_M_over_trace": 1.0,
             "n_illcond_blocks": 0, "n_blocks": 0, "n_blocks_nonzero": 0, "n_blocks_failed": 0, "max_err_over_thr": 0.0}
    evals = [0]

    def fail(site, msg, data):
        if site not in fails:
            fails[site] = {"site": site, "msg": msg, "data": data}

    def judge(site, routine, ref, est, ctx, kind):
        """compare one Jacobian block"""
        routine = fd.dense(routine)
        stats["n_blocks"] += 1
        if routine.shape != ref.shape:
            fail(site + " [shape]", f"shape {routine.shape} != {ref.shape}", dict(ctx))
            return
        if _maxabs(ref) > 1e-9:
            stats["n_blocks_nonzero"] += 1
        v, e, thr = fd.verdict(routine, ref, est)
        if v == "illcond":
            stats["n_illcond_blocks"] += 1
            return
        stats["max_est_" + kind] = max(stats["max_est_" + kind], est)
        if v == "ok":  # measured noise of accepted blocks only
            stats["max_err_" + kind] = max(stats["max_err_" + kind], e)
            stats["max_err_over_thr"] = max(stats["max_err_over_thr"], e / thr)
        if v == "fail":
            stats["n_blocks_failed"] += 1
            d = np.abs(routine - ref)
            idx = np.unravel_index(int(np.argmax(d)), d.shape)
            data = dict(ctx)
            data.update({"err": e, "thr": thr, "est": est, "ref_maxabs": _maxabs(ref), "worst_index": [int(i) for i in idx],
                         "routine_value": float(routine[idx]), "reference_value": float(ref[idx])})
            fail(site, f"max |routine - FD| = {e:.3e} > {thr:.1e} at index {list(map(int, idx))} "
                       f"(routine {routine[idx]:.6g}, FD {ref[idx]:.6g}); {ctx}", data)

    nq, nu, nlc, nlg = s.nq, s.nu, s.nla_c, s.nla_g
    u = 0.7 * ab.weyl(seed, 23, nu)
    la_c = 0.8 * ab.weyl(seed, 21, nlc) if nlc else np.zeros(0)
    la_g = 0.9 * ab.weyl(seed, 27, nlg) if nlg else np.zeros(0)
    b = ab.generic_vec(seed, 31, 3, 0.4)
    zero3 = np.zeros(3)
    t = 0.0

    # ------------------------------------------------------------------ mass matrix, kinetic energy
    Mx = np.asarray(s.M(t, s.q0).toarray(), float)
    sym = _maxabs(Mx - Mx.T) / max(_maxabs(Mx), 1e-300)
    stats["max_err_M_sym_rel"] = sym
    if not sym <= 1e-13:
        fail("System.M vs its transpose", f"|M - M^T| / |M| = {sym:.3e}", {"err": sym})
    ev = np.linalg.eigvalsh(0.5 * (Mx + Mx.T))
    tr = float(np.trace(Mx))
    stats["min_eig_M_over_trace"] = float(ev[0] / tr) if tr > 0 else -1.0
    if not (tr > 0 and ev[0] >= -1e-12 * tr):
        fail("System.M eigenvalues vs >= 0", f"min eigenvalue {ev[0]:.3e}, trace {tr:.3e}", {"min_eig": float(ev[0]), "trace": tr})
    ulist = [("generic0", u), ("generic1", 1.3 * ab.weyl(seed, 41, nu))]
    for i in range(nu):
        e = np.zeros(nu)
        e[i] = 1.0
        ulist.append((f"e{i}", e))
    if tier != "quick":
        for i in range(nu):
            for j in range(i + 1, nu):
                e = np.zeros(nu)
                e[i] = 1.0
                e[j] = 1.0
                ulist.append((f"e{i}+e{j}", e))
    for uname, uu in ulist:
        Ek = float(s.E_kin(t, s.q0, uu))
        ref = 0.5 * float(uu @ Mx @ uu)
        evals[0] += 1
        e = abs(Ek - ref) / max(1.0, abs(ref))
        stats["max_err_Ekin_rel"] = max(stats["max_err_Ekin_rel"], e)
        if not e <= 1e-12:
            fail("System.E_kin vs 1/2 u^T M u", f"E_kin = {Ek:.12g}, 1/2 u^T M u = {ref:.12g} for u = {uname}", {"u": uname, "E_kin": Ek, "ref": ref})

    # ------------------------------------------------------------------ states
    nodal = R.nodal_xis(rod)
    xis_all = list(XIS) + [x for x in nodal if all(abs(x - y) > 1e-12 for y in XIS)]
    if tier == "quick":
        xis_fd = [0.0, 0.25, 1.0 / 3.0, 0.5, 0.77, 1.0]
    else:
        xis_fd = xis_all
    is_rot_interp = case["interp"] in ("Quaternion", "SE3")

    for bname, mname, q in _states(rod, Q, tier, seed):
        ctx0 = {"state": bname, "motion": mname, "quat_norm_dev": R.quat_norm_dev(rod, q)}

        # ---------------- System-level Jacobians w.r.t. q : one stacked function, judged block by block
        blocks = []

        def F(qq):
            out = [np.asarray(s.h(t, qq, u), float)]
            if nlc:
                out.append(np.asarray(s.c(t, qq, u, la_c), float))
                out.append(np.asarray(s.W_c(t, qq, format="csr") @ la_c, float))
            if nlg:
                out.append(np.asarray(s.g(t, qq), float))
                out.append(np.asarray(s.W_g(t, qq, format="csr") @ la_g, float))
            out.append(np.asarray(s.q_dot(t, qq, u), float))
            out.append(np.asarray(s.g_S(t, qq), float))
            return np.concatenate(out)

        names = [("System.h_q vs d h/dq (5-point FD)", lambda: s.h_q(t, q, u), nu)]
        if nlc:
            names.append(("System.c_q vs d c/dq (5-point FD)", lambda: s.c_q(t, q, u, la_c), nlc))
            names.append(("System.Wla_c_q vs d (W_c la_c)/dq (5-point FD)", lambda: s.Wla_c_q(t, q, la_c), nu))
        if nlg:
            names.append(("System.g_q vs d g/dq (5-point FD)", lambda: s.g_q(t, q), nlg))
            names.append(("System.Wla_g_q vs d (W_g la_g)/dq (5-point FD)", lambda: s.Wla_g_q(t, q, la_g), nu))
        names.append(("System.q_dot_q vs d q_dot/dq (5-point FD)", lambda: s.q_dot_q(t, q, u), nq))
        names.append(("System.g_S_q vs d g_S/dq (5-point FD)", lambda: s.g_S_q(t, q), s.nla_S))
        J2, J1, nev = _fd_jac2(F, q)
        evals[0] += nev
        r0 = 0
        for site, routine, nrow in names:
            ref = J2[r0:r0 + nrow]
            est = _maxabs(J1[r0:r0 + nrow] - ref)
            r0 += nrow
            judge(site, routine(), ref, est, ctx0, "sys_jac")

        # h_u (h is quadratic in u: the stencil is exact up to rounding)
        J2, J1, nev = _fd_jac2(lambda uu: np.asarray(s.h(t, q, uu), float), u)
        evals[0] += nev
        judge("System.h_u vs d h/du (5-point FD)", s.h_u(t, q, u), J2, _maxabs(J1 - J2), ctx0, "sys_jac")

        # affine arguments: exact differences
        if nlc:
            ref = fd.affine_jac(lambda x: s.c(t, q, u, x), nlc, x0=la_c)
            evals[0] += nlc + 1
            e = fd.err(s.c_la_c(), ref)
            stats["max_err_affine"] = max(stats["max_err_affine"], e)
            if not e <= 1e-11 * fd.scale_of(ref):
                fail("System.c_la_c vs exact affine d c/d la_c", f"max error {e:.3e}; {ctx0}", dict(ctx0, err=e))
        ref = fd.affine_jac(lambda x: s.q_dot(t, q, x), nu, x0=np.zeros(nu))
        evals[0] += nu + 1
        got = fd.dense(s.q_dot_u(t, q))
        unit_rows = np.ones(nq, bool)
        worst_node = None
        for k in range(rod.nnodes_p):
            d = rod.qDOF[rod.nodalDOF_p[k]]
            if abs(np.linalg.norm(q[d]) - 1.0) > 1e-9:
                unit_rows[d] = False
        if got.shape != ref.shape:
            fail("System.q_dot_u vs exact affine d q_dot/du [shape]", f"shape {got.shape} != {ref.shape}", dict(ctx0))
        else:
            e_unit = _maxabs((got - ref)[unit_rows])
            e_non = _maxabs((got - ref)[~unit_rows])
            stats["max_err_affine"] = max(stats["max_err_affine"], e_unit)
            if not e_unit <= 1e-12 * fd.scale_of(ref):
                fail(SITE_QDOTU_UNIT, f"max error {e_unit:.3e}; {ctx0}", dict(ctx0, err=e_unit))
            if not e_non <= 1e-12 * fd.scale_of(ref):
                fail(SITE_QDOTU_NONUNIT, f"max error {e_non:.3e} on the rows of nodes with |p| != 1; {ctx0}",
                     dict(ctx0, err=e_non, err_unit_rows=e_unit))

        # gyroscopic forces are power-free
        for uname, uu in ulist[:2] + [("node0_spin", _node_spin(rod, nu, 0, seed)), ("last_node_spin", _node_spin(rod, nu, rod.nnodes_p - 1, seed))]:
            fg = np.asarray(s.h(t, q, np.zeros(nu)), float) - np.asarray(s.h(t, q, uu), float)
            evals[0] += 2
            P = float(fg @ uu)
            sc = max(1.0, _maxabs(fg) * _maxabs(uu))
            stats["max_gyr_power_rel"] = max(stats["max_gyr_power_rel"], abs(P) / sc)
            if not abs(P) <= 1e-12 * sc:
                fail("gyroscopic part of System.h times u vs 0", f"power {P:.3e} for u = {uname}; {ctx0}", dict(ctx0, u=uname, power=P))

        # ---------------- nodal values
        for k, xk in enumerate(nodal):
            qd = rod.local_qDOF_P(xk)
            ud = rod.local_uDOF_P(xk)
            qe = q[rod.qDOF[qd]]
            ue = u[rod.uDOF[ud]]
            r_k = q[rod.qDOF[rod.nodalDOF_r[k]]]
            A_k = ab.quat_to_A(q[rod.qDOF[rod.nodalDOF_p[k]]])
            v_k = u[rod.uDOF[rod.nodalDOF_r_u[k]]]
            om_k = u[rod.uDOF[rod.nodalDOF_p_u[k]]]
            evals[0] += 5
            obs = [
                ("r_OP at nodal xi vs nodal position", rod.r_OP(t, qe, xk), r_k),
                ("A_IB at nodal xi vs Exp(nodal quaternion)", rod.A_IB(t, qe, xk), A_k),
                ("v_P at nodal xi vs nodal velocity", rod.v_P(t, qe, ue, xk), v_k),
                ("r_OP with offset at nodal xi vs r + A b", rod.r_OP(t, qe, xk, b), r_k + A_k @ b),
                ("v_P with offset at nodal xi vs v + A (omega x b)", rod.v_P(t, qe, ue, xk, b), v_k + A_k @ np.cross(om_k, b)),
            ]
            for site, got_, ref_ in obs:
                e = _maxabs(np.asarray(got_, float) - ref_) / max(1.0, _maxabs(ref_))
                stats["max_err_nodal"] = max(stats["max_err_nodal"], e)
                if not e <= 1e-12:
                    fail(site, f"error {e:.3e} at node {k} (xi={xk:.6g}); {ctx0}", dict(ctx0, node=k, xi=xk, err=e))

        # ---------------- rotations
        if is_rot_interp:
            for xi in xis_all:
                qe = q[rod.qDOF[rod.local_qDOF_P(xi)]]
                A = np.asarray(rod.A_IB(t, qe, xi), float)
                evals[0] += 1
                e = max(_maxabs(A.T @ A - np.eye(3)), abs(float(np.linalg.det(A)) - 1.0))
                stats["max_err_rotation"] = max(stats["max_err_rotation"], e)
                if not e <= 1e-12:
                    fail("A_IB^T A_IB, det A_IB vs I, 1", f"error {e:.3e} at xi={xi:.6g}; {ctx0}", dict(ctx0, xi=xi, err=e))

        # ---------------- element-level cross-section Jacobians
        for xi in xis_fd:
            qe = q[rod.qDOF[rod.local_qDOF_P(xi)]].copy()
            ue = u[rod.uDOF[rod.local_uDOF_P(xi)]].copy()
            nqe, nue = qe.size, ue.size
            ctx = dict(ctx0, xi=float(xi), nodal_xi=bool(any(abs(xi - x) < 1e-12 for x in nodal)))

            def G(x):
                return np.concatenate([
                    np.asarray(rod.r_OP(t, x, xi, b), float),
                    np.asarray(rod.A_IB(t, x, xi), float).ravel(),
                    np.asarray(rod.v_P(t, x, ue, xi, b), float),
                    np.asarray(rod.J_P(t, x, xi, b), float).ravel(),
                ])

            J2, J1, nev = _fd_jac2(G, qe)
            evals[0] += nev
            parts = [
                ("r_OP_q vs d r_OP/dqe (5-point FD)", lambda: rod.r_OP_q(t, qe, xi, b), (3,)),
                ("A_IB_q vs d A_IB/dqe (5-point FD)", lambda: rod.A_IB_q(t, qe, xi), (3, 3)),
                ("v_P_q vs d v_P/dqe (5-point FD)", lambda: rod.v_P_q(t, qe, ue, xi, b), (3,)),
                ("J_P_q vs d J_P/dqe (5-point FD)", lambda: rod.J_P_q(t, qe, xi, b), (3, nue)),
            ]
            r0 = 0
            for site, routine, shp in parts:
                n = int(np.prod(shp))
                ref = J2[r0:r0 + n].reshape(shp + (nqe,))
                est = _maxabs(J1[r0:r0 + n] - J2[r0:r0 + n])
                r0 += n
                judge(site, np.asarray(routine(), float), ref, est, ctx, "el_jac")
            ref = fd.affine_jac(lambda x: rod.v_P(t, qe, x, xi, b), nue, x0=np.zeros(nue))
            evals[0] += nue + 1
            got = np.asarray(rod.J_P(t, qe, xi, b), float)
            e = fd.err(got, ref)
            stats["max_err_affine"] = max(stats["max_err_affine"], e)
            if not e <= 1e-12 * fd.scale_of(ref):
                fail("J_P vs exact affine d v_P/due", f"max error {e:.3e}; {ctx}", dict(ctx, err=e))
            ref = fd.affine_jac(lambda x: rod.B_Omega(t, qe, x, xi), nue, x0=np.zeros(nue))
            evals[0] += nue + 1
            e = fd.err(np.asarray(rod.B_J_R(t, qe, xi), float), ref)
            stats["max_err_affine"] = max(stats["max_err_affine"], e)
            if not e <= 1e-12 * fd.scale_of(ref):
                fail("B_J_R vs exact affine d B_Omega/due", f"max error {e:.3e}; {ctx}", dict(ctx, err=e))

    return {
        "fails": list(fails.values()),
        "nontrivial": stats["n_blocks_nonzero"] >= 5,
        "evals": evals[0],
        "outcome": R.form_class(case),
        "stats": stats,
    }


def _node_spin(rod, nu, k, seed):
    uu = np.zeros(nu)
    uu[rod.uDOF[rod.nodalDOF_p_u[k]]] = ab.generic_vec(seed, 43 + k, 3, 1.5)
    return uu


def _fd_jac2(f, x, h=None):
    """5-point FD Jacobians at h/2 (J2) and h (J1) with shared stencil points; rows = flattened f"""
    x = np.asarray(x, float)
    n = x.size
    if h is None:
        h = 1e-3 * max(1.0, float(np.max(np.abs(x))) if n else 1.0)
    c2, c1 = [], []
    for i in range(n):
        def at(sv):
            y = x.copy()
            y[i] += sv
            return np.array(f(y), float).ravel()
        fm2, fm1, fmh, fph, fp1, fp2 = at(-2 * h), at(-h), at(-h / 2), at(h / 2), at(h), at(2 * h)
        c1.append((fm2 - 8 * fm1 + 8 * fp1 - fp2) / (12 * h))
        c2.append((fm1 - 8 * fmh + 8 * fph - fp1) / (6 * h))
    return np.stack(c2, axis=-1), np.stack(c1, axis=-1), 6 * n
