"""C15  Sparse COO assembly accumulates exactly.

Engine E2 (explicit-state exploration of write histories on the real CooMatrix).  Every history
over the write alphabet up to the stated depth is executed on a fresh real container; after every
write every conversion must equal the dense reference model  ref[rows][:, cols] += block.
"""
import itertools
import numpy as np
from scipy.sparse import csr_array, csc_array, coo_array

ID = "C15"
LEVEL = "model_checking"
RULE = (
    "all write histories over the per-shape write alphabet (index kinds x value kinds, incl. None, empty, "
    "duplicates, nested containers and 6 inconsistent-shape writes) up to the stated depth, one case per "
    "(shape, depth, first letter); for shapes (2,3) and (4,4) additionally depth 2 with every value scaled by 2^-70; plus one deterministic chain using the whole alphabet twice (>= 40 writes). "
    "A case is non-trivial if at least one of its histories contains an accepted write that changes the matrix"
)
ASSUMPTIONS = [
    "values are small dyadic rationals so that floating-point accumulation is exact in any order",
    "negative integer indices and out-of-range indices are outside the alphabet (not block-shape errors)",
    "oracle = dense numpy reference np.add.at(ref, (rows[:,None], cols[None,:]), block)",
]
MIN_NONTRIVIAL = 5
SHAPES = [(0, 0), (1, 1), (2, 3), (3, 2), (4, 4)]


def _vals(m, n, k=0, dtype=float):
    """deterministic dyadic block of shape (m,n)"""
    a = (np.arange(m * n).reshape(m, n) * 0.5 + 0.25 + k) * (1 if (k % 2 == 0) else -1)
    return a.astype(dtype)


def letters(shape):
    """list of (name, make) ; make() -> (key, value, expect) with expect = ('add', rows, cols, block) |
    ('noop',) | ('reject',)"""
    M, N = shape
    from cardillo.utility.coo_matrix import CooMatrix

    L = []

    def add(name, key, value, rows, cols, block):
        L.append((name, lambda: (key() if callable(key) else key, value(), ("add", np.asarray(rows, int), np.asarray(cols, int), np.atleast_2d(np.asarray(block, float))))))

    def noop(name, key, value):
        L.append((name, lambda: (key, value(), ("noop",))))

    def reject(name, key, value):
        L.append((name, lambda: (key, value(), ("reject",))))

    allr, allc = list(range(M)), list(range(N))
    full = (slice(None), slice(None))
    noop("None@full", full, lambda: None)
    noop("None@int", (0, 0), lambda: None)
    if M == 0 or N == 0:
        add("empty2d@full", full, lambda: np.zeros((M, N)), allr, allc, np.zeros((M, N)))
        add("emptycsr@full", full, lambda: csr_array((M, N)), allr, allc, np.zeros((M, N)))
        add("emptycoo_nested@full", full, lambda: CooMatrix((M, N)), allr, allc, np.zeros((M, N)))
        add("empty@emptylists", ([], []), lambda: np.zeros((0, 0)), [], [], np.zeros((0, 0)))
        reject("bad:1x1@full", full, lambda: np.ones((1, 1)))
        reject("bad:scalar@full", full, lambda: 2.0)
        return L

    r_last, c_last = M - 1, N - 1
    # ---- scalar / int keys
    add("scalar@int,int", (0, 0), lambda: 1.5, [0], [0], [[1.5]])
    add("scalar@last,last", (r_last, c_last), lambda: -2.0, [r_last], [c_last], [[-2.0]])
    add("npscalar_int@int,int", (np.int64(0), np.int64(c_last)), lambda: np.int32(3), [0], [c_last], [[3.0]])
    # ---- row vector: int row, all columns (1-D value is a 1 x n block)
    add("1d@int,slice", (r_last, slice(None)), lambda: _vals(1, N, 1)[0], [r_last], allc, _vals(1, N, 1))
    add("1d@int,list", (0, allc), lambda: _vals(1, N, 2)[0], [0], allc, _vals(1, N, 2))
    # ---- column block needs a 2-D value
    add("col2d@slice,int", (slice(None), 0), lambda: _vals(M, 1, 3), allr, [0], _vals(M, 1, 3))
    # ---- dense blocks
    add("2d@full", full, lambda: _vals(M, N, 4), allr, allc, _vals(M, N, 4))
    add("2d_int@full", full, lambda: _vals(M, N, 5, dtype=int) * 2, allr, allc, (_vals(M, N, 5, dtype=int) * 2).astype(float))
    add("2d@lists", (allr, allc), lambda: _vals(M, N, 6), allr, allc, _vals(M, N, 6))
    add("2d@ndarray_rev", (np.array(allr[::-1]), np.array(allc[::-1])), lambda: _vals(M, N, 7), allr[::-1], allc[::-1], _vals(M, N, 7))
    add("2d@negstep_slices", (slice(None, None, -1), slice(None, None, -1)), lambda: _vals(M, N, 8), allr[::-1], allc[::-1], _vals(M, N, 8))
    add("2d_fortran@full", full, lambda: np.asfortranarray(_vals(M, N, 9)), allr, allc, _vals(M, N, 9))
    add("2d_view@full", full, lambda: _vals(N, M, 10).T, allr, allc, _vals(N, M, 10).T)
    # duplicate indices in the index arrays: both entries accumulate
    dup_r = [0, 0]
    add("2d@duprows", (dup_r, allc), lambda: _vals(2, N, 11), dup_r, allc, _vals(2, N, 11))
    dup_c = [c_last, c_last, 0]
    add("2d@dupcols", (allr, np.array(dup_c)), lambda: _vals(M, 3, 12), allr, dup_c, _vals(M, 3, 12))
    # partial / empty slices
    if M > 1 and N > 1:
        add("2d@partial", (slice(1, None), slice(0, N - 1)), lambda: _vals(M - 1, N - 1, 13), allr[1:], allc[: N - 1], _vals(M - 1, N - 1, 13))
        add("2d@step2", (slice(0, None, 2), slice(1, None, 2)), lambda: _vals(len(allr[0::2]), len(allc[1::2]), 14), allr[0::2], allc[1::2], _vals(len(allr[0::2]), len(allc[1::2]), 14))
        add("2d@mixed_int_slice", (slice(0, 2), c_last), lambda: _vals(2, 1, 15), [0, 1], [c_last], _vals(2, 1, 15))
    add("empty@emptyslice", (slice(0, 0), slice(None)), lambda: np.zeros((0, N)), [], allc, np.zeros((0, N)))
    add("empty@emptylists", ([], []), lambda: np.zeros((0, 0)), [], [], np.zeros((0, 0)))
    # ---- scipy sparse arrays with duplicate entries and explicit zeros
    def sp_dup(fmt):
        r = np.array([0, 0, r_last, r_last])
        c = np.array([0, 0, c_last, 0])
        d = np.array([1.0, 2.5, -4.0, 0.0])
        coo = coo_array((d, (r, c)), shape=(M, N))
        dense = np.zeros((M, N))
        np.add.at(dense, (r, c), d)
        if fmt == "coo":
            return coo, dense
        return (csr_array(coo) if fmt == "csr" else csc_array(coo)), dense

    for fmt in ("coo", "csr", "csc"):
        add(f"sp{fmt}_dup@full", full, (lambda fmt=fmt: sp_dup(fmt)[0]), allr, allc, sp_dup(fmt)[1])
    add("spcsr@rev", (np.array(allr[::-1]), allc[::-1]), lambda: sp_dup("csr")[0], allr[::-1], allc[::-1], sp_dup("csr")[1])
    add("spcoo_row@int,slice", (0, slice(None)), lambda: coo_array(_vals(1, N, 16)), [0], allc, _vals(1, N, 16))

    # ---- nested CooMatrix already holding duplicates
    def nested(m, n, k):
        # built lazily (inside the explored execution), with index-array writes only, so that the
        # alphabet itself never depends on the code under test
        c = CooMatrix((m, n))
        c[0, 0] = 1.0
        c[list(range(m)), list(range(n))] = _vals(m, n, k)
        c[0, 0] = -0.5
        c[m - 1, list(range(n))] = _vals(1, n, k + 1)[0]
        return c

    def nested_dense(m, n, k):
        dense = np.zeros((m, n))
        dense[0, 0] += 0.5
        dense += _vals(m, n, k)
        dense[m - 1] += _vals(1, n, k + 1)[0]
        return dense

    add("nested_dup@full", full, lambda: nested(M, N, 17), allr, allc, nested_dense(M, N, 17))
    add("nested_dup@rev_lists", (allr[::-1], np.array(allc[::-1])), lambda: nested(M, N, 19), allr[::-1], allc[::-1], nested_dense(M, N, 19))
    add("nested_empty@full", full, lambda: CooMatrix((M, N)), allr, allc, np.zeros((M, N)))
    add("nested_1x1@int,int", (r_last, 0), lambda: nested(1, 1, 21), [r_last], [0], nested_dense(1, 1, 21))
    # ---- a write while a converted matrix that shares the container's buffers is still alive (tocoo / tocsr / tocsc default copy=False):
    # the write either goes through or fails loudly; in both cases the container stays consistent (seeded C15-m)
    L.append(("held_tocoo:dense@full", lambda: (full, 0.5 * np.ones((M, N)), ("held", np.asarray(allr, int), np.asarray(allc, int), 0.5 * np.ones((M, N))))))
    # ---- inconsistent block shapes: must be rejected and change nothing
    reject("bad:dense_too_wide", full, lambda: np.ones((M, N + 1)))
    reject("bad:dense_transposed_or_tall", full, lambda: np.ones((M + 1, N)))
    reject("bad:1d_for_column", (allr + [0], 0), lambda: np.ones(M + 1))  # 1-D is a row block, (M+1,1) expected
    reject("bad:sparse_shape", (0, slice(None)), lambda: csr_array(np.ones((2, N))))
    reject("bad:nested_shape", full, lambda: CooMatrix((M + 1, N)))
    reject("bad:vector_into_scalar_slot", (0, 0), lambda: np.ones(2))
    return L


CONVERSIONS = [
    ("toarray", lambda c: c.toarray()),
    ("tocsr", lambda c: c.tocsr().toarray()),
    ("tocsc", lambda c: c.tocsc().toarray()),
    ("tocoo", lambda c: c.tocoo().toarray()),
    ("asformat_csr", lambda c: c.asformat("csr").toarray()),
    ("asformat_csc", lambda c: c.asformat("csc").toarray()),
    ("asformat_coo_copy", lambda c: c.asformat("coo", copy=True).toarray()),
    ("asformat_array", lambda c: np.asarray(c.asformat("array"))),
]


def cases(tier, seed):
    out = []
    for shape in SHAPES:
        nl = len(letters(shape))
        if tier == "quick":
            depth = 3 if shape in ((0, 0), (2, 3)) else 2
        else:
            depth = 4 if shape in ((0, 0), (1, 1), (2, 3)) else 3
        for first in range(nl):
            out.append({"kind": "tree", "shape": list(shape), "depth": depth, "first": first})
        if shape in ((2, 3), (4, 4)):
            # the same alphabet with every value scaled by 2**-70 (about 8.5e-22: legitimate entries far below machine epsilon in
            # absolute terms; a power of two keeps all sums exact)
            for first in range(nl):
                out.append({"kind": "tree", "shape": list(shape), "depth": 2, "first": first, "scale_exp": -70})
        # seed rotates the starting letter of the long chain (still the whole alphabet, twice)
        out.append({"kind": "chain", "shape": list(shape), "start": seed % nl, "rounds": max(2, -(-40 // nl))})
    return out


def _apply(coo, ref, make, fails, hist_names):
    """one transition on the real container + reference model; returns True if the matrix changed"""
    try:
        key, value, expect = make()
    except Exception as e:  # building a nested container uses the container itself
        fails.append({"site": "building a nested container from consistent writes raises", "msg": f"{type(e).__name__}: {e}; history {hist_names}", "data": {"history": list(hist_names)}})
        return False
    if expect[0] == "held":
        keep = coo.tocoo()
        try:
            coo[key] = value
            ok = True
        except BufferError:
            ok = False      # loud refusal: nothing may have been appended
        except Exception as e:  # noqa
            fails.append({"site": "write while a converted matrix is alive raises something else than BufferError", "msg": f"{type(e).__name__}: {e}; history {hist_names}", "data": {"history": list(hist_names)}})
            ok = False
        del keep
        if not (len(coo.data) == len(coo.row) == len(coo.col)):
            fails.append({"site": "refused write left the container inconsistent", "msg": f"lengths data/row/col = {len(coo.data)}/{len(coo.row)}/{len(coo.col)}; history {hist_names}",
                          "data": {"history": list(hist_names)}})
        if ok:
            _, rows, cols, block = expect
            np.add.at(ref, (rows[:, None], cols[None, :]), block)
        return ok
    before = None
    if expect[0] == "reject":
        before = coo.toarray().copy() if coo.shape[0] * coo.shape[1] >= 0 else None
        nd = (len(coo.data), len(coo.row), len(coo.col))
    try:
        coo[key] = value
        raised = None
    except Exception as e:  # noqa
        raised = e
    if expect[0] == "reject":
        if raised is None:
            fails.append({"site": "inconsistent write accepted", "msg": f"history {hist_names}", "data": {"history": list(hist_names)}})
        if (len(coo.data), len(coo.row), len(coo.col)) != nd:
            fails.append({"site": "rejected write changed the container", "msg": f"history {hist_names}", "data": {"history": list(hist_names)}})
        return False
    if raised is not None:
        fails.append({"site": "consistent write rejected", "msg": f"{type(raised).__name__}: {raised}; history {hist_names}", "data": {"history": list(hist_names)}})
        return False
    if type(value) is type(coo):
        # a container used as VALUE stays an object of its own: remember what it holds
        _KIDS.setdefault(id(coo), []).append([value, value.toarray().copy(), coo])
    if expect[0] == "noop":
        return False
    _, rows, cols, block = expect
    if rows.size and cols.size:
        np.add.at(ref, (rows[:, None], cols[None, :]), block)
        return bool(np.any(block != 0))
    return False


def _scaled(make, sfac):
    def m():
        from cardillo.utility.coo_matrix import CooMatrix

        key, value, expect = make()
        if value is None:
            pass
        elif type(value) is CooMatrix:
            v2 = CooMatrix(value.shape)
            if value.shape[0] and value.shape[1]:
                v2[:, :] = value.toarray() * sfac
            value = v2
        else:
            value = value * sfac
        if expect[0] in ("add", "held"):
            expect = (expect[0], expect[1], expect[2], expect[3] * sfac)
        return key, value, expect
    return m


_KIDS = {}


def _compare(coo, ref, fails, hist_names):
    n = 0
    # containers that were nested into this one: later writes into the parent must not show up in them, and a write into
    # them must not show up in the parent (no shared buffers; seeded C15-l)
    for rec in _KIDS.get(id(coo), []):
        kid, snap, parent = rec
        if parent is not coo:
            continue
        n += 1
        try:
            got = kid.toarray()
            if got.shape != snap.shape or not np.array_equal(got, snap):
                fails.append({"site": "a container used as value is changed by later writes into its parent", "msg": f"history {hist_names}", "data": {"history": list(hist_names)}})
            if kid.shape[0] and kid.shape[1]:
                kid[0, 0] = 2.5
                snap[0, 0] += 2.5
        except Exception as e:  # noqa
            fails.append({"site": "a container used as value cannot be used any more", "msg": f"{type(e).__name__}: {e}; history {hist_names}", "data": {"history": list(hist_names)}})
    for name, conv in CONVERSIONS:
        n += 1
        try:
            got = conv(coo)
        except Exception as e:  # noqa
            fails.append({"site": f"conversion {name} raises", "msg": f"{type(e).__name__}: {e}; history {hist_names}", "data": {"history": list(hist_names)}})
            continue
        if got.shape != ref.shape or not np.array_equal(got, ref):
            fails.append({"site": f"conversion {name} != dense reference", "msg": f"history {hist_names}", "data": {"history": list(hist_names), "got": got, "ref": ref}})
    return n


def check(case):
    from cardillo.utility.coo_matrix import CooMatrix

    shape = tuple(case["shape"])
    L = letters(shape)
    if case.get("scale_exp"):
        L = [(name + f"*2^{case['scale_exp']}", _scaled(make, 2.0 ** case["scale_exp"])) for name, make in L]
    fails = []
    evals = 0
    states = 0
    transitions = 0
    changed_any = False
    canon = set()
    if case["kind"] == "chain":
        _KIDS.clear()
        coo = CooMatrix(shape)
        ref = np.zeros(shape)
        names = []
        order = list(range(len(L)))
        order = order[case["start"]:] + order[: case["start"]]
        for rnd in range(case["rounds"]):
            for i in order:
                names.append(L[i][0])
                changed_any |= _apply(coo, ref, L[i][1], fails, names[-3:])
                transitions += 1
                evals += _compare(coo, ref, fails, names[-3:] + [f"(chain position {len(names)})"])
                states += 1
                canon.add(ref.tobytes())
                if len(fails) > 5:
                    break
        return {"fails": _dedup(fails), "nontrivial": changed_any, "evals": evals, "states": states, "transitions": transitions,
                "stats": {"chain_writes": len(names), "max_chain_len": len(names)}}

    depth = case["depth"]
    first = case["first"]
    for d in range(1, depth + 1):
        for tail in itertools.product(range(len(L)), repeat=d - 1):
            hist = (first,) + tail
            _KIDS.clear()
            coo = CooMatrix(shape)
            ref = np.zeros(shape)
            names = [L[i][0] for i in hist]
            local = []
            for j, i in enumerate(hist):
                ch = _apply(coo, ref, L[i][1], local if j == len(hist) - 1 else [], names[: j + 1])
                changed_any |= ch
            transitions += 1
            states += 1
            evals += _compare(coo, ref, local, names)
            canon.add(ref.tobytes())
            fails.extend(local)
            if len(fails) > 50:
                return {"fails": _dedup(fails), "nontrivial": True, "evals": evals, "states": states, "transitions": transitions}
    return {"fails": _dedup(fails), "nontrivial": changed_any, "evals": evals, "states": states, "transitions": transitions,
            "stats": {"canonical_dense_states": len(canon), "max_depth": depth}}


def _dedup(fails):
    seen = {}
    for f in fails:
        seen.setdefault(f["site"], f)  # first (= shortest) history per site
    return list(seen.values())
