"""C28  URDF import builds systems consistent with the described robot.

E1: every rooted tree with <= 4 links x every assignment of the six joint types to its edges x
origin / axis / inertial-origin / root letters; one URDF file per case (written into a per-case
temporary directory that is removed afterwards); inside a case the configuration / velocity letters
are looped.  The oracle is the harness's own forward kinematics (4x4 homogeneous matrices, rotation
from elementary Rz*Ry*Rx and from quaternions, twists propagated in the inertial frame and
cross-checked against a 5-point derivative of the harness FK along the requested joint rates).
"""
import itertools
import math
import os
import shutil
import tempfile

import numpy as np

from vp.core.alphabet import axis_angle_quat, generic_unit, generic_vec, quat_to_A, skew, unskew

ID = "C28"
LEVEL = "exploration"
RULE = (
    "all 7 rooted trees with 2..4 links x all 6^n joint-type assignments (fixed, revolute, continuous, prismatic, floating, planar); "
    "trees with <= 3 links: full product root{fixed@identity, fixed@generic pose, floating generic pose+twist} x joint origin{absent, generic (thorough: +explicit zero, "
    "+pitch=pi/2)} x axis{x, -x, z, generic (thorough: +y, non-unit, absent)} x inertial origin{absent, generic}; 4-link trees: generic letters x root{fixed@generic, floating} "
    "(thorough: x origin{absent,generic} x axis{x,generic} x 3 roots); inside each case 6 configuration/velocity states (absent/absent, 0/0, 0.7/-2.5, -2.5/0.7, 0.7/absent, absent/0.7; "
    "floating: 6-vector xyz+rpy and 7-vector xyz+quaternion; planar: (x,y)); plus special cases (massless fixed leaf). "
    "A case is non-trivial if at least one state was imported and compared with the harness forward kinematics"
)
ASSUMPTIONS = [
    "URDF semantics: child link frame = parent link frame * origin(xyz, R=Rz(yaw)Ry(pitch)Rx(roll)) * joint motion (rotation about / translation along the normalised axis given in the joint frame); "
    "link body frame = link frame * inertial origin; inertia matrix given in the inertial frame; omitted axis = (1,0,0), omitted origin = identity (URDF specification)",
    "importer-specific conventions taken from its docstrings: floating configuration = xyz + rpy (6) or xyz + quaternion (7) of the child frame relative to the joint frame; floating velocity = "
    "(J_v, J_omega) both in joint-frame components; planar configuration/velocity = (x, y) in the joint frame's xy-plane (planar joints are always written with axis 0 0 1)",
    "floating velocity letters never combine a non-zero relative angular velocity with a non-zero relative displacement: there the importer's 'J_v_JRc' is the velocity of the child-fixed point coinciding with "
    "the joint origin (spatial-twist convention), which differs from d/dt of the requested xyz by omega x r; the property does not fix that convention, so the combination is outside the verdict",
    "joint velocities are the time derivatives of the joint coordinates (angle, displacement, planar x/y); absent entries mean zero",
    "tolerance 1e-9 absolute on poses, twists, constraints, angles (measured noise <= 1e-14, a wrong term is O(0.1)); the harness twist oracle is itself cross-checked against a 5-point derivative of the harness FK (1e-6)",
    "visual geometry (Meshed bodies) is not part of the alphabet",
]
MIN_NONTRIVIAL = 100
CASE_TIMEOUT = 120

TYPES = ["fixed", "revolute", "continuous", "prismatic", "floating", "planar"]
# parents[k] = index of the parent link of link k+1 (joint j{k+1} connects them); all rooted trees with <= 4 nodes
SHAPES = {
    "chain1": [0],
    "chain2": [0, 1],
    "fork2": [0, 0],
    "chain3": [0, 1, 2],
    "star3": [0, 0, 0],
    "fork_long": [0, 0, 1],
    "chain_fork": [0, 1, 1],
}
ROOTS = ["fixed_id", "fixed_generic", "floating"]
STATES = ["absent", "zero", "a", "b", "cfg_only", "vel_only"]
NLA = {"fixed": 6, "revolute": 5, "continuous": 5, "prismatic": 5, "planar": 3}
TOL = 1e-9
DELTA = 0.4


# ------------------------------------------------------------------------------------------------
# enumeration
# ------------------------------------------------------------------------------------------------
def cases(tier, seed):
    out = []
    thorough = tier == "thorough"
    origins = ["absent", "generic"] + (["zero", "pitch90"] if thorough else [])
    axes = ["x", "-x", "z", "generic"] + (["y", "nonunit", "absent"] if thorough else [])
    inertials = ["absent", "generic"]
    small = [s for s in SHAPES if len(SHAPES[s]) <= 2]
    big = [s for s in SHAPES if len(SHAPES[s]) == 3]

    def mk(shape, jt, root, origin, axis, inertial, special=None):
        c = {"shape": shape, "joint_types": list(jt), "root": root, "origin": origin, "axis": axis, "inertial": inertial, "seed": seed}
        if special:
            c["special"] = special
        return c

    for shape in small:
        n = len(SHAPES[shape])
        for jt in itertools.product(TYPES, repeat=n):
            for root in ROOTS:
                for origin in origins:
                    for axis in axes:
                        for inertial in inertials:
                            out.append(mk(shape, jt, root, origin, axis, inertial))
    # special letters: a massless leaf behind a fixed joint is legal and is skipped by the importer; axis element omitted (URDF default 1 0 0)
    for shape in ("chain1", "chain2", "fork2"):
        n = len(SHAPES[shape])
        for jt in itertools.product(["revolute", "fixed", "floating"], repeat=n):
            if jt[-1] != "fixed":
                continue
            for root in ("fixed_generic", "floating"):
                out.append(mk(shape, jt, root, "generic", "generic", "generic", special="massless_leaf"))
    # ... and the same massless frame (imu / tool frame) declared BEFORE its siblings
    for shape in ("fork2", "star3"):
        n = len(SHAPES[shape])
        for jt in itertools.product(["revolute", "prismatic", "floating", "fixed"], repeat=n - 1):
            for root in ("fixed_generic", "floating"):
                out.append(mk(shape, ("fixed",) + jt, root, "generic", "generic", "generic", special="massless_first_child"))
    # links WITH an inertial origin followed by links WITHOUT one (values of the previous link must not be inherited; seeded C28-m)
    for shape in ("chain1", "chain2", "fork2", "star3"):
        n = len(SHAPES[shape])
        for jt in itertools.product(["revolute", "prismatic", "fixed"], repeat=n):
            for root in ("fixed_generic", "floating"):
                out.append(mk(shape, jt, root, "generic", "generic", "mixed"))
    # fixed root link without <inertial> element (the usual 'world' / 'base' link)
    for shape in ("chain1", "chain2"):
        n = len(SHAPES[shape])
        for jt in itertools.product(["revolute", "prismatic"], repeat=n):
            out.append(mk(shape, jt, "fixed_generic", "generic", "generic", "generic", special="root_no_inertial"))
    # a joint that carries the name of a link declared later (different name spaces in URDF)
    for shape in ("chain2", "fork2"):
        n = len(SHAPES[shape])
        for jt in itertools.product(["revolute", "prismatic", "fixed"], repeat=n):
            for root in ("fixed_generic", "floating"):
                out.append(mk(shape, jt, root, "generic", "generic", "generic", special="name_clash"))
    if not thorough:
        for jt in (("revolute",), ("continuous",), ("prismatic",), ("revolute", "revolute")):
            out.append(mk("chain%d" % len(jt), jt, "fixed_generic", "generic", "absent", "generic"))
    for shape in big:
        for jt in itertools.product(TYPES, repeat=3):
            if thorough:
                for root in ROOTS:
                    for origin in ("absent", "generic"):
                        for axis in ("x", "generic"):
                            out.append(mk(shape, jt, root, origin, axis, "generic"))
            else:
                for root in ("fixed_generic", "floating"):
                    out.append(mk(shape, jt, root, "generic", "generic", "generic"))
    return out


# ------------------------------------------------------------------------------------------------
# reference kinematics (independent of cardillo)
# ------------------------------------------------------------------------------------------------
def _Rx(a):
    c, s = math.cos(a), math.sin(a)
    return np.array([[1, 0, 0], [0, c, -s], [0, s, c]], float)


def _Ry(a):
    c, s = math.cos(a), math.sin(a)
    return np.array([[c, 0, s], [0, 1, 0], [-s, 0, c]], float)


def _Rz(a):
    c, s = math.cos(a), math.sin(a)
    return np.array([[c, -s, 0], [s, c, 0], [0, 0, 1]], float)


def _rpy(rpy):
    return _Rz(rpy[2]) @ _Ry(rpy[1]) @ _Rx(rpy[0])


def _T(r=None, A=None):
    T = np.eye(4)
    if A is not None:
        T[:3, :3] = A
    if r is not None:
        T[:3, 3] = r
    return T


def _rot(axis, angle):
    if angle == 0.0:
        return np.eye(3)
    return quat_to_A(axis_angle_quat(axis, angle))


def _expm_so3(w):
    th = float(np.linalg.norm(w))
    if th == 0.0:
        return np.eye(3)
    return quat_to_A(axis_angle_quat(np.asarray(w) / th, th))


def _A_to_quat(A):
    """rotation matrix -> unit quaternion (Shepperd, largest pivot)"""
    tr = np.trace(A)
    cand = [tr, A[0, 0], A[1, 1], A[2, 2]]
    i = int(np.argmax(cand))
    if i == 0:
        p0 = math.sqrt(1 + tr) / 2
        p = np.array([A[2, 1] - A[1, 2], A[0, 2] - A[2, 0], A[1, 0] - A[0, 1]]) / (4 * p0)
        return np.concatenate([[p0], p])
    k = i - 1
    l, m = (k + 1) % 3, (k + 2) % 3
    pk = math.sqrt(1 + 2 * A[k, k] - tr) / 2
    p = np.zeros(3)
    p[k] = pk
    p[l] = (A[l, k] + A[k, l]) / (4 * pk)
    p[m] = (A[m, k] + A[k, m]) / (4 * pk)
    p0 = (A[m, l] - A[l, m]) / (4 * pk)
    return np.concatenate([[p0], p])


def _f(x):
    return repr(float(x))


def _vec(v):
    return " ".join(_f(x) for x in v)


# ------------------------------------------------------------------------------------------------
# model = the numbers of one case
# ------------------------------------------------------------------------------------------------
def _model(case):
    seed = case["seed"]
    parents = SHAPES[case["shape"]]
    n = len(parents)
    m = {"parents": parents, "types": case["joint_types"], "n": n}
    # joints
    m["o_xyz"], m["o_rpy"], m["o_present"], m["axis_raw"], m["axis"] = [], [], [], [], []
    for k in range(n):
        o = case["origin"]
        if o == "absent":
            xyz, rpy, present = np.zeros(3), np.zeros(3), False
        elif o == "zero":
            xyz, rpy, present = np.zeros(3), np.zeros(3), True
        elif o == "pitch90":
            xyz, rpy, present = 0.5 * generic_vec(seed, 10 + k), np.array([0.3 + 0.2 * k, math.pi / 2, -0.4]), True
        else:
            xyz, rpy, present = 0.5 * generic_vec(seed, 10 + k), 1.2 * generic_vec(seed, 20 + k), True
        m["o_xyz"].append(xyz)
        m["o_rpy"].append(rpy)
        m["o_present"].append(present)
        a = case["axis"]
        if case["joint_types"][k] == "planar":
            raw = np.array([0.0, 0.0, 1.0])
        elif a == "x":
            raw = np.array([1.0, 0.0, 0.0])
        elif a == "-x":
            raw = np.array([-1.0, 0.0, 0.0])
        elif a == "y":
            raw = np.array([0.0, 1.0, 0.0])
        elif a == "z":
            raw = np.array([0.0, 0.0, 1.0])
        elif a == "nonunit":
            raw = 2.5 * generic_unit(seed, 30 + k)
        elif a == "absent":
            raw = None
        else:
            raw = generic_unit(seed, 30 + k)
        m["axis_raw"].append(raw)
        ax = np.array([1.0, 0.0, 0.0]) if raw is None else raw / np.linalg.norm(raw)
        m["axis"].append(ax)
    # links
    m["mass"], m["theta"], m["i_xyz"], m["i_rpy"], m["i_present"] = [], [], [], [], []
    for i in range(n + 1):
        m["mass"].append(0.5 + 0.3 * i)
        th = 0.01 * np.array([[2.0 + i, 0.3, -0.2], [0.3, 3.0, 0.4], [-0.2, 0.4, 2.5 + 0.5 * i]])
        m["theta"].append(th)
        if case["inertial"] == "absent" or (case["inertial"] == "mixed" and i % 2 == 1):
            m["i_xyz"].append(np.zeros(3))
            m["i_rpy"].append(np.zeros(3))
            m["i_present"].append(False)
        else:
            m["i_xyz"].append(0.3 * generic_vec(seed, 50 + i))
            m["i_rpy"].append(1.1 * generic_vec(seed, 60 + i))
            m["i_present"].append(True)
    m["massless"] = []
    if case.get("special") == "massless_leaf":
        m["massless"] = [n]  # the last link hangs on the last joint, which is fixed in these cases
    if case.get("special") == "root_no_inertial":
        m["root_no_inertial"] = True
        m["i_present"][0] = False
        m["i_xyz"][0], m["i_rpy"][0] = np.zeros(3), np.zeros(3)
    if case.get("special") == "name_clash":
        # the first joint carries the name of the LAST link (legal in URDF: links and joints live in different name spaces)
        m["jnames"] = {0: f"L{n}"}
    if case.get("special") == "massless_first_child":
        m["massless"] = [1]  # first child of the root (a leaf in fork2 / star3), its joint j1 is fixed and listed first
    # root
    root = case["root"]
    m["root_floating"] = root == "floating"
    if root == "fixed_id":
        m["r_OR"], m["A_IR"], m["v_R"], m["R_om"] = np.zeros(3), np.eye(3), np.zeros(3), np.zeros(3)
    else:
        m["r_OR"] = generic_vec(seed, 40)
        m["A_IR"] = _rpy(1.3 * generic_vec(seed, 41))
        if root == "floating":
            m["v_R"], m["R_om"] = generic_vec(seed, 42), 1.5 * generic_vec(seed, 43)
        else:
            m["v_R"], m["R_om"] = np.zeros(3), np.zeros(3)
    m["grav"] = np.array([0.3, -0.2, -9.81])
    return m


def _urdf_text(m):
    L = ['<?xml version="1.0"?>', '<robot name="vp_c28">']
    for i in range(m["n"] + 1):
        L.append(f' <link name="L{i}">')
        if i == 0 and m.get("root_no_inertial"):
            L.append(" </link>")
            continue
        L.append("  <inertial>")
        if m["i_present"][i]:
            L.append(f'   <origin xyz="{_vec(m["i_xyz"][i])}" rpy="{_vec(m["i_rpy"][i])}"/>')
        th = m["theta"][i]
        if i in m["massless"]:
            L.append('   <mass value="0.0"/>')
            L.append('   <inertia ixx="0.0" ixy="0.0" ixz="0.0" iyy="0.0" iyz="0.0" izz="0.0"/>')
        else:
            L.append(f'   <mass value="{_f(m["mass"][i])}"/>')
            L.append(f'   <inertia ixx="{_f(th[0, 0])}" ixy="{_f(th[0, 1])}" ixz="{_f(th[0, 2])}" iyy="{_f(th[1, 1])}" iyz="{_f(th[1, 2])}" izz="{_f(th[2, 2])}"/>')
        L.append("  </inertial>")
        L.append(" </link>")
    for k in range(m["n"]):
        L.append(f' <joint name="{_jname(m, k)}" type="{m["types"][k]}">')
        if m["o_present"][k]:
            L.append(f'  <origin xyz="{_vec(m["o_xyz"][k])}" rpy="{_vec(m["o_rpy"][k])}"/>')
        L.append(f'  <parent link="L{m["parents"][k]}"/>')
        L.append(f'  <child link="L{k + 1}"/>')
        if m["axis_raw"][k] is not None and m["types"][k] not in ("fixed", "floating"):
            L.append(f'  <axis xyz="{_vec(m["axis_raw"][k])}"/>')
        if m["types"][k] in ("revolute", "prismatic"):
            L.append('  <limit lower="-10" upper="10" effort="1" velocity="1"/>')
        L.append(" </joint>")
    L.append("</robot>")
    return "\n".join(L) + "\n"


SC = [1.0, 0.6, -1.4]


def _state(m, s, seed):
    """requested configuration / velocity dictionaries (as a user would pass them) and the reference joint coordinates:
    per joint (r_rel, A_rel, v_rel, w_rel) in joint-frame components + requested scalar values"""
    cfg, vel, ref, kinds = {}, {}, [], {}
    for k in range(m["n"]):
        t = m["types"][k]
        name = _jname(m, k)
        ax = m["axis"][k]
        cval = {"absent": None, "zero": 0.0, "a": 0.7 * SC[k], "b": -2.5 * SC[k], "cfg_only": 0.7 * SC[k], "vel_only": None}[s]
        vval = {"absent": None, "zero": 0.0, "a": -2.5 * SC[k], "b": 0.7 * SC[k], "cfg_only": None, "vel_only": 0.7 * SC[k]}[s]
        r, A, v, w = np.zeros(3), np.eye(3), np.zeros(3), np.zeros(3)
        rec = {"type": t, "q": 0.0, "qd": 0.0}
        if t == "fixed":
            pass
        elif t in ("revolute", "continuous", "prismatic"):
            if cval is not None:
                cfg[name] = cval
                rec["q"] = cval
            if vval is not None:
                vel[name] = vval
                rec["qd"] = vval
            if t == "prismatic":
                r, v = rec["q"] * ax, rec["qd"] * ax
            else:
                A, w = _rot(ax, rec["q"]), rec["qd"] * ax
        elif t == "planar":
            if cval is not None:
                xy = np.array([cval, -0.6 * cval + (0.2 if cval else 0.0)])
                cfg[name] = xy.copy()
                r = np.array([xy[0], xy[1], 0.0])
            if vval is not None:
                vxy = np.array([vval, 0.5 * vval - (0.3 if vval else 0.0)])
                vel[name] = vxy.copy()
                v = np.array([vxy[0], vxy[1], 0.0])
            rec["q"], rec["qd"] = r[:2].copy(), v[:2].copy()
        elif t == "floating":
            # a: xyz + rpy (6), linear velocity only;  b: quaternion (7) pure rotation, full twist;  cfg_only: 6-vector
            if s == "zero":
                cfg[name] = np.zeros(6)
                vel[name] = np.zeros(6)
                kinds[name] = "rpy6"
            elif s == "a":
                xyz, rpy = 0.4 * generic_vec(seed, 70 + k), 1.1 * generic_vec(seed, 75 + k)
                cfg[name] = np.concatenate([xyz, rpy])
                r, A = xyz, _rpy(rpy)
                v = generic_vec(seed, 80 + k)
                vel[name] = np.concatenate([v, np.zeros(3)])
                kinds[name] = "rpy6"
            elif s == "b":
                P = axis_angle_quat(generic_unit(seed, 85 + k), 0.9 + 0.5 * k)
                cfg[name] = np.concatenate([np.zeros(3), P])
                A = quat_to_A(P)
                v, w = generic_vec(seed, 90 + k), 1.3 * generic_vec(seed, 95 + k)
                vel[name] = np.concatenate([v, w])
                kinds[name] = "quat7"
            elif s == "cfg_only":
                P = axis_angle_quat(generic_unit(seed, 86 + k), -1.2)
                xyz = 0.4 * generic_vec(seed, 71 + k)
                # non-unit quaternion (the importer normalises it; seeded C28-f)
                cfg[name] = np.concatenate([xyz, (2.0 if k % 2 == 0 else 0.5) * P])
                r, A = xyz, quat_to_A(P)
                kinds[name] = "quat7"
            elif s == "vel_only":
                v, w = generic_vec(seed, 91 + k), 1.3 * generic_vec(seed, 96 + k)
                vel[name] = np.concatenate([v, w])
                kinds[name] = "none"
            else:
                kinds[name] = "none"
        rec.update(r=r, A=A, v=v, w=w)
        ref.append(rec)
    return cfg, vel, ref, kinds


def _fk(m, ref, s=0.0):
    """poses (and, for s == 0, twists) of all link frames and body frames; s moves along the requested rates"""
    n = m["n"]
    T = [None] * (n + 1)
    v = [None] * (n + 1)
    w = [None] * (n + 1)
    T[0] = _T(m["r_OR"] + s * m["v_R"], m["A_IR"] @ _expm_so3(s * m["R_om"]))
    v[0] = m["v_R"].copy()
    w[0] = m["A_IR"] @ m["R_om"]
    for k in range(n):  # parents precede children by construction
        p = m["parents"][k]
        c = k + 1
        TJ = T[p] @ _T(m["o_xyz"][k], _rpy(m["o_rpy"][k]))
        rel = _T(ref[k]["r"] + s * ref[k]["v"], _expm_so3(s * ref[k]["w"]) @ ref[k]["A"])
        T[c] = TJ @ rel
        A_IJ = TJ[:3, :3]
        w[c] = w[p] + A_IJ @ ref[k]["w"]
        v[c] = v[p] + np.cross(w[p], T[c][:3, 3] - T[p][:3, 3]) + A_IJ @ ref[k]["v"]
    bodies = []
    for i in range(n + 1):
        TB = T[i] @ _T(m["i_xyz"][i], _rpy(m["i_rpy"][i]))
        vC = v[i] + np.cross(w[i], TB[:3, 3] - T[i][:3, 3])
        bodies.append({"r": TB[:3, 3].copy(), "A": TB[:3, :3].copy(), "v": vC, "B_Om": TB[:3, :3].T @ w[i]})
    return T, bodies


def _selfcheck_twist(m, ref, bodies):
    """the analytic twist propagation of the harness against a 5-point derivative of the harness FK"""
    h = 1e-3
    P = {k: _fk(m, ref, k * h)[1] for k in (-2, -1, 1, 2)}
    worst = 0.0
    for i, b in enumerate(bodies):
        dr = (P[-2][i]["r"] - 8 * P[-1][i]["r"] + 8 * P[1][i]["r"] - P[2][i]["r"]) / (12 * h)
        dA = (P[-2][i]["A"] - 8 * P[-1][i]["A"] + 8 * P[1][i]["A"] - P[2][i]["A"]) / (12 * h)
        om = unskew(b["A"].T @ dA)
        worst = max(worst, float(np.max(np.abs(dr - b["v"]))), float(np.max(np.abs(om - b["B_Om"]))))
    if worst > 1e-6:
        raise RuntimeError(f"harness twist oracle inconsistent with its own FK: {worst:.3e}")
    return worst


# ------------------------------------------------------------------------------------------------
# the check
# ------------------------------------------------------------------------------------------------
def _norm_msg(e):
    import re

    msg = re.sub(r"(?<![A-Za-z_0-9])[0-9]+(\.[0-9]+)?(e[-+]?[0-9]+)?(?![A-Za-z_])", "#", str(e))
    msg = re.sub(r"/[^ '\"]*", "<path>", msg)
    return f"{type(e).__name__}: {msg[:110]}"


def _by_name(system, name, body):
    """contribution registered under `name` (or under the unique name System.add derived from it when the name was taken:
    '<name>_contr<N>'), restricted to bodies/frames (body=True) or to everything else (body=False)"""
    from cardillo.discrete import RigidBody, Frame

    for c in system.contributions:
        nm = getattr(c, "name", None)
        if nm is None or not (nm == name or nm.startswith(name + "_contr")):
            continue
        if isinstance(c, (RigidBody, Frame)) == body:
            return c
    return None


def _jname(m, k):
    return m.get("jnames", {}).get(k, f"j{k + 1}")


def _q_from_fk(system, m, bodies):
    q = np.array(system.q0, float).copy()
    for i in range(m["n"] + 1):
        b = _by_name(system, f"L{i}", True)
        if b is None or not hasattr(b, "qDOF") or len(getattr(b, "qDOF", [])) != 7:
            continue
        q[b.qDOF] = np.concatenate([bodies[i]["r"], _A_to_quat(bodies[i]["A"])])
    return q


def check(case):
    from cardillo.urdf import system_from_urdf
    from cardillo.discrete import RigidBody, Frame
    from vp.core.quiet import quiet

    seed = case["seed"]
    m = _model(case)
    fails, evals, imported = [], 0, 0
    outcomes = set()
    stats = {"max_err_pose": 0.0, "max_err_twist": 0.0, "max_err_g": 0.0, "max_err_gdot": 0.0, "max_err_angle": 0.0, "max_err_moved_g": 0.0,
             "max_err_harness_twist_selfcheck": 0.0, "max_err_gravity": 0.0, "n_imports": 0, "n_import_raises": 0, "n_links_compared": 0, "n_joint_motions": 0}

    def fail(site, msg, **data):
        d = {"joint_types": case["joint_types"], "shape": case["shape"]}
        d.update(data)
        fails.append({"site": site, "msg": msg, "data": d})

    tmp = tempfile.mkdtemp(prefix="vp_c28_")
    try:
        path = os.path.join(tmp, "robot.urdf")
        with open(path, "w") as fh:
            fh.write(_urdf_text(m))
        for s in STATES:
            cfg, vel, ref, kinds = _state(m, s, seed)
            evals += 1
            fl_kinds = sorted(set(kinds.values()))
            try:
                cfg_in = {k: (v.copy() if hasattr(v, "copy") else v) for k, v in cfg.items()}
                vel_in = {k: (v.copy() if hasattr(v, "copy") else v) for k, v in vel.items()}
                r_in, A_in = m["r_OR"].copy(), m["A_IR"].copy()
                with quiet():
                    if s in ("a", "cfg_only"):
                        # the documented parameter order used positionally
                        system = system_from_urdf(path, r_in, A_in, m["v_R"].copy(), m["R_om"].copy(), cfg_in, vel_in, m["root_floating"], m["grav"].copy())
                    else:
                        system = system_from_urdf(
                            path, r_OR=r_in, A_IR=A_in, v_R=m["v_R"].copy(), R_omega_IR=m["R_om"].copy(),
                            configuration=cfg_in, velocities=vel_in,
                            root_is_floating=m["root_floating"], gravitational_acceleration=m["grav"].copy())
                # the caller re-uses its pose buffers afterwards (e.g. for the next robot): the imported system keeps its own values
                r_in += 1.7
                A_in[:] = A_in @ np.array([[0.0, -1.0, 0.0], [1.0, 0.0, 0.0], [0.0, 0.0, 1.0]])
                # the caller's dictionaries are inputs: an import must leave them as they were (they are reused for the next import)
                for nm_, d_in, d_ref in (("configuration", cfg_in, cfg), ("velocities", vel_in, vel)):
                    same = sorted(d_in) == sorted(d_ref) and all(np.array_equal(np.asarray(d_in[k]), np.asarray(d_ref[k])) for k in d_ref)
                    if not same:
                        fail("import modifies the caller's " + nm_ + " dictionary", f"state={s}: keys {sorted(d_in)} vs {sorted(d_ref)}", state=s, which=nm_)
            except Exception as e:  # classified: a valid URDF of the alphabet must import
                stats["n_import_raises"] += 1
                outcomes.add("raises:" + type(e).__name__)
                fail("import raises " + _norm_msg(e), f"state={s} cfg={sorted(cfg)}: {type(e).__name__}: {e}", state=s, floating_cfg=fl_kinds, exc=type(e).__name__)
                continue
            imported += 1
            stats["n_imports"] += 1
            outcomes.add("imported")
            T, bodies = _fk(m, ref)
            stats["max_err_harness_twist_selfcheck"] = max(stats["max_err_harness_twist_selfcheck"], _selfcheck_twist(m, ref, bodies))
            t0 = system.t0
            q0 = np.array(system.q0, float)
            u0 = np.array(system.u0, float)
            # ---- links
            for i in range(m["n"] + 1):
                name = f"L{i}"
                b = _by_name(system, name, True)
                if i in m["massless"]:
                    if b is not None:
                        fail("massless fixed leaf was added as a body", f"state={s} link {name}", state=s, link=i)
                    continue
                if b is None:
                    fail("link missing from the imported system", f"state={s} link {name}", state=s, link=i)
                    continue
                is_root_frame = i == 0 and not m["root_floating"]
                if is_root_frame:
                    if not isinstance(b, Frame):
                        fail("fixed root is not a Frame", f"{type(b).__name__}", state=s)
                        continue
                    r, A = np.asarray(b.r_OP(t0)), np.asarray(b.A_IB(t0))
                    vC, BOm = np.zeros(3), np.zeros(3)
                else:
                    if not isinstance(b, RigidBody):
                        fail("link with mass is not a RigidBody", f"{name}: {type(b).__name__}", state=s, link=i)
                        continue
                    q, u = q0[b.qDOF], u0[b.uDOF]
                    r, A = np.asarray(b.r_OP(t0, q)), np.asarray(b.A_IB(t0, q))
                    vC, BOm = np.asarray(b.v_P(t0, q, u)), np.asarray(b.B_Omega(t0, q, u))
                    if abs(b.mass - m["mass"][i]) > 1e-12 or np.max(np.abs(np.asarray(b.B_Theta_C) - m["theta"][i])) > 1e-12:
                        fail("link mass/inertia vs URDF", f"state={s} link {name}: mass {b.mass} vs {m['mass'][i]}", state=s, link=i)
                stats["n_links_compared"] += 1
                ep = max(float(np.max(np.abs(r - bodies[i]["r"]))), float(np.max(np.abs(A - bodies[i]["A"]))))
                stats["max_err_pose"] = max(stats["max_err_pose"], ep)
                if not ep <= TOL:
                    fail("link pose (r_OC, A_IB) vs harness forward kinematics", f"state={s} link {name}: err {ep:.3e}", state=s, link=i, err=ep,
                         floating_cfg=fl_kinds, types_on_path=_path_types(m, i))
                et = max(float(np.max(np.abs(vC - bodies[i]["v"]))), float(np.max(np.abs(BOm - bodies[i]["B_Om"]))))
                stats["max_err_twist"] = max(stats["max_err_twist"], et)
                if not et <= TOL:
                    fail("link twist (v_C, B_Omega) vs harness forward kinematics", f"state={s} link {name}: err {et:.3e}", state=s, link=i, err=et,
                         floating_cfg=fl_kinds, types_on_path=_path_types(m, i))
            # ---- constraints of the assembled system at the initial state
            if system.nla_g:
                eg = float(np.max(np.abs(system.g(t0, q0))))
                egd = float(np.max(np.abs(system.g_dot(t0, q0, u0))))
            else:
                eg = egd = 0.0
            egS = float(np.max(np.abs(system.g_S(t0, q0)))) if system.nla_S else 0.0
            stats["max_err_g"] = max(stats["max_err_g"], eg, egS)
            stats["max_err_gdot"] = max(stats["max_err_gdot"], egd)
            if not eg <= TOL:
                fail("g(t0,q0) vs 0", f"state={s}: max|g| = {eg:.3e}", state=s, err=eg)
            if not egd <= TOL:
                fail("g_dot(t0,q0,u0) vs 0", f"state={s}: max|g_dot| = {egd:.3e}", state=s, err=egd)
            if not egS <= TOL:
                fail("g_S(t0,q0) vs 0", f"state={s}: max|g_S| = {egS:.3e}", state=s, err=egS)
            n_expected = sum(NLA.get(t, 0) for k, t in enumerate(m["types"]) if (k + 1) not in m["massless"])
            if system.nla_g != n_expected:
                fail("number of bilateral constraints vs joint types", f"state={s}: nla_g={system.nla_g}, expected {n_expected}", state=s, nla_g=int(system.nla_g), expected=n_expected)
            # ---- gravity: translational generalized force of every body = m * g
            h = np.asarray(system.h(t0, q0, u0))
            for i in range(m["n"] + 1):
                b = _by_name(system, f"L{i}", True)
                if isinstance(b, RigidBody):
                    e = float(np.max(np.abs(h[b.uDOF[:3]] - m["mass"][i] * m["grav"])))
                    stats["max_err_gravity"] = max(stats["max_err_gravity"], e)
                    if not e <= 1e-9:
                        fail("gravity force on link vs mass * g", f"state={s} link L{i}: err {e:.3e}", state=s, link=i, err=e)
            # ---- joints: reported coordinates and admissible motion
            for k in range(m["n"]):
                t = m["types"][k]
                name = _jname(m, k)
                J = _by_name(system, name, False)
                if (k + 1) in m["massless"]:
                    continue
                if t == "floating":
                    if J is not None:
                        fail("floating joint produced a constraint", f"state={s} {name}: {type(J).__name__}", state=s, joint=k)
                    continue
                if J is None:
                    fail("joint missing from the imported system", f"state={s} {name}", state=s, joint=k, joint_type=t)
                    continue
                if J.nla_g != NLA[t]:
                    fail("joint constraint count vs joint type", f"state={s} {name} ({t}): nla_g={J.nla_g}", state=s, joint=k, joint_type=t)
                if t in ("revolute", "continuous"):
                    ang = float(J.angle(t0, q0[J.qDOF]))
                    angd = float(J.angle_dot(t0, q0[J.qDOF], u0[J.uDOF]))
                    e = max(abs(ang - ref[k]["q"]), abs(angd - ref[k]["qd"]))
                    stats["max_err_angle"] = max(stats["max_err_angle"], e)
                    if not abs(ang - ref[k]["q"]) <= TOL:
                        fail("revolute angle(t0,q0) vs requested", f"state={s} {name}: {ang} vs {ref[k]['q']}", state=s, joint=k, joint_type=t, got=ang, want=ref[k]["q"])
                    if not abs(angd - ref[k]["qd"]) <= TOL:
                        fail("revolute angle_dot(t0,q0,u0) vs requested", f"state={s} {name}: {angd} vs {ref[k]['qd']}", state=s, joint=k, joint_type=t, got=angd, want=ref[k]["qd"])
                if t == "fixed":
                    continue
                # move the joint by DELTA along its URDF freedom (harness FK), the constraint must stay satisfied and the angle must follow
                ref2 = [dict(r) for r in ref]
                ax = m["axis"][k]
                if t == "prismatic":
                    ref2[k]["r"] = ref[k]["r"] + DELTA * ax
                elif t == "planar":
                    ref2[k]["r"] = ref[k]["r"] + np.array([DELTA, -0.7 * DELTA, 0.0])
                else:
                    ref2[k]["A"] = _rot(ax, DELTA) @ ref[k]["A"]
                _, bodies2 = _fk(m, ref2)
                q2 = _q_from_fk(system, m, bodies2)
                stats["n_joint_motions"] += 1
                e = float(np.max(np.abs(J.g(t0, q2[J.qDOF]))))
                stats["max_err_moved_g"] = max(stats["max_err_moved_g"], e)
                if not e <= TOL:
                    fail("joint constraint after a motion along the URDF axis vs 0", f"state={s} {name} ({t}): max|g| = {e:.3e}", state=s, joint=k, joint_type=t, err=e)
                if t in ("revolute", "continuous"):
                    ang2 = float(J.angle(t0, q2[J.qDOF]))
                    e = abs(ang2 - (ref[k]["q"] + DELTA))
                    stats["max_err_angle"] = max(stats["max_err_angle"], e)
                    if not e <= TOL:
                        fail("revolute angle after a rotation about the URDF axis vs requested + rotation", f"state={s} {name}: {ang2} vs {ref[k]['q'] + DELTA}", state=s, joint=k,
                             joint_type=t, got=ang2, want=ref[k]["q"] + DELTA)
    finally:
        shutil.rmtree(tmp, ignore_errors=True)

    seen, cnt = {}, {}
    for f in fails:
        cnt[f["site"]] = cnt.get(f["site"], 0) + 1
        seen.setdefault(f["site"], f)
    for k, f in seen.items():
        f["data"]["count_in_case"] = cnt[k]
        f["data"]["states"] = sorted({g["data"].get("state") for g in fails if g["site"] == k and g["data"].get("state")})
    return {"fails": list(seen.values()), "nontrivial": imported > 0, "evals": evals, "outcome": sorted(outcomes), "stats": stats}


def _path_types(m, i):
    out = []
    while i > 0:
        out.append(m["types"][i - 1])
        i = m["parents"][i - 1]
    return sorted(set(out))
