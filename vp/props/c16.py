"""C16  Consistent initial conditions solve the initial equations of motion.

Engine E1: the full product mechanisms x attachments x contact scenarios x initial states (plus an
alphabet of deliberately inconsistent variants) is assembled with the default System.assemble(); the
returned u_dot0 / la_*0 are inserted into the equations of motion, the acceleration-level constraints
and the acceleration-level Signorini / Coulomb conditions, all recomputed from the System evaluation
methods (whose scatter is the subject of C14).
"""
import itertools

import numpy as np

import cardillo  # noqa: F401
import cardillo.constraints, cardillo.forces, cardillo.force_laws, cardillo.actuators, cardillo.contacts, cardillo.interactions  # noqa
from vp.scen import systems as sc

ID = "C16"
LEVEL = "exploration"
RULE = (
    "full product of 9 mechanisms (block on a belt = friction element with constant force reservoir and no normal contact, clamped pre-strained mixed rod on a non-arc-length reference, free body, revolute pendulum, double pendulum, prismatic slider, point mass on "
    "FixedDistance, two bodies with RigidConnection, synthetic contribution with g/gamma/c/tau blocks) x attachments "
    "(none, gravity, spring force form, spring compliance form, Kelvin-Voigt compliance, Maxwell, Motor/PD/PID on the "
    "mechanism's revolute joint) x contact scenarios on an extra ball (none, resting mu=0, sticking mu=.3 with "
    "tangential load, sliding mu=.3 in a generic direction and exactly along either tangent axis, open, closed contact of the mechanism's own tip body on a support (mu=0, .3; from rest), two stacked spheres, plane accelerating from rest, spinning body with off-centre contact sphere) x initial state (rest, generic consistent spin); plus "
    "inconsistent variants (joint velocity violation, position-level constraint violation (synthetic constraint with fixed reference), joint offset by moving a body between two assemblies (trivial if the joint re-anchors itself at the new q0), penetration, closed contact "
    "approaching, sphere-sphere penetration) x mechanisms x {rest, spin}. A consistent case is non-trivial if assemble "
    "returned and the residuals were evaluated; an inconsistent one if the inconsistency was really present"
)
ASSUMPTIONS = [
    "System evaluation methods (M, h, W_*, la_c, la_tau, g_ddot, gamma_dot, g_N_ddot, gamma_F, gamma_F_dot) are trusted here (C14 / C04-C08 check them)",
    "equation of motion residual r = M u_dot0 - h - W_g la_g0 - W_gamma la_gamma0 - W_c la_c0 - W_tau la_tau(t0,q0,u0) - W_N la_N0 - W_F la_F0",
    "tolerances: 1e-8*scale without active contact (direct linear solve), 1e-5*scale with active contacts (fixed point stops at |delta u_dot| < 1e-6); contact inequalities with 1e-6 slack",
    "contacts act on an extra ball that is dynamically decoupled from the mechanism (the linear system is shared), except the tip_plane scenarios where the contact loads the mechanism's joints",
    "rejection = System.assemble raises any exception (the code uses assert)",
]
MIN_NONTRIVIAL = 100
MIN_OUTCOMES = 4


def cases(tier, seed):
    out = []
    for mech, att, con, init in itertools.product(sc.MECHS, sc.ATTACH, sc.CONTACTS, sc.INITS):
        if att in ("motor", "pd", "pid") and mech not in ("pendulum", "double_pendulum"):
            continue
        if mech == "synth" and (att != "none" or init == "spin"):
            continue
        if mech == "mixed_rod" and (att != "none" or con not in ("none", "slide_mu")):
            continue
        if mech == "belt" and (att != "none" or con not in ("none", "slide_mu", "stick_mu")):
            continue
        if con.startswith("tip_plane") and (init == "spin" or mech in ("synth", "slider")):
            # spin would drive the tip into the support (inconsistent); the slider's prismatic joint makes the normal force indeterminate
            continue
        out.append({"kind": "consistent", "mech": mech, "attach": att, "contact": con, "init": init, "seed": seed})
    for bad in sc.INCONSISTENT:
        for mech in sc.MECHS:
            if mech in ("synth", "mixed_rod", "belt"):
                continue
            if bad in ("joint_velocity", "joint_offset") and mech == "free":
                continue
            for init in sc.INITS:
                for att in ("none", "gravity"):
                    out.append({"kind": "inconsistent", "bad": bad, "mech": mech, "attach": att, "contact": "none", "init": init, "seed": seed})
    return out


def _exc(e):
    return f"{type(e).__name__}: {str(e)[:200]}"


def _d(A):
    return A.toarray() if hasattr(A, "toarray") else np.asarray(A)


def check(case):
    fails = []
    stats = {}
    B = sc.build_c16(case)
    system = B["system"]
    if case["kind"] == "inconsistent":
        return check_inconsistent(case, B)
    try:
        system.assemble()
    except Exception as e:  # noqa
        fails.append({"site": "assemble rejects a consistent initial state", "msg": _exc(e), "data": {"exc": _exc(e)}})
        return {"fails": fails, "nontrivial": True, "evals": 1, "outcome": "consistent:rejected"}

    t, q, u = system.t0, system.q0, system.u0
    a = system.u_dot0
    la_g, la_gamma, la_c, la_N, la_F = system.la_g0, system.la_gamma0, system.la_c0, system.la_N0, system.la_F0
    M = _d(system.M(t, q))
    h = system.h(t, q, u)
    terms = {
        "M u_dot": M @ a,
        "h": h,
        "W_g la_g": _d(system.W_g(t, q)) @ la_g,
        "W_gamma la_gamma": _d(system.W_gamma(t, q)) @ la_gamma,
        "W_c la_c": _d(system.W_c(t, q)) @ la_c,
        "W_tau la_tau": _d(system.W_tau(t, q)) @ system.la_tau(t, q, u),
        "W_N la_N": _d(system.W_N(t, q)) @ la_N,
        "W_F la_F": _d(system.W_F(t, q)) @ la_F,
    }
    r = terms["M u_dot"] - sum(v for k, v in terms.items() if k != "M u_dot")
    scale = max([1.0] + [float(np.max(np.abs(v))) for v in terms.values() if v.size])
    g_N = system.g_N(t, q)
    g_N_dot = system.g_N_dot(t, q, u)
    active = np.isclose(g_N, 0, atol=1e-8) & np.isclose(g_N_dot, 0, atol=1e-8)
    tol = (1e-5 if np.any(active) else 1e-8) * scale
    res = float(np.max(np.abs(r))) if r.size else 0.0
    evals = 1
    key = "max_err_eom_contact" if np.any(active) else "max_err_eom"
    nontrivial_terms = sorted(k for k, v in terms.items() if v.size and np.max(np.abs(v)) > 1e-9)
    data = {"residual": res, "scale": scale, "tol": tol, "nonzero_terms": nontrivial_terms}
    if not res <= tol:
        # which single term explains the residual?
        missing = None
        for k, v in terms.items():
            if k != "M u_dot" and v.size and np.max(np.abs(r + v)) <= tol:
                missing = k
        data["missing_term"] = missing
        fails.append({"site": "equations of motion not satisfied by (u_dot0, la_*0)", "msg": f"residual {res:.3e} > {tol:.1e}; missing term: {missing}; non-zero terms {nontrivial_terms}", "data": data})
        stats["max_err_eom_failed"] = res / scale
    else:
        stats[key] = res / scale

    # bilateral constraints on acceleration level, compliance equation
    for name, val in (("g_ddot", system.g_ddot(t, q, u, a)), ("gamma_dot", system.gamma_dot(t, q, u, a)), ("c", system.c(t, q, u, la_c))):
        evals += 1
        e = float(np.max(np.abs(val))) if val.size else 0.0
        stats["max_err_" + name] = e
        if not e <= 1e-7 * max(1.0, scale):
            fails.append({"site": f"{name}(t0, q0, u0, .) != 0 at the returned initial accelerations / forces", "msg": f"max |{name}| = {e:.3e}", "data": {"err": e}})

    # contacts
    outcome = []
    n_act = 0
    if system.nla_N:
        g_N_ddot = system.g_N_ddot(t, q, u, a)
        have_F = system.nla_F > 0
        gamma_F = system.gamma_F(t, q, u) if have_F else np.zeros(0)
        gamma_F_dot = system.gamma_F_dot(t, q, u, a) if have_F else np.zeros(0)
        slack = 1e-6 * max(1.0, scale)
        for contr in system.get_contribution_list("g_N"):
            mu = B["mus"].get(contr.name)
            for i in range(contr.nla_N):
                iN = contr.la_NDOF[i]
                evals += 1
                cd = {"contact": contr.name, "g_N": float(g_N[iN]), "g_N_dot": float(g_N_dot[iN]), "la_N": float(la_N[iN]), "g_N_ddot": float(g_N_ddot[iN])}
                if not active[iN]:
                    outcome.append("contact:open")
                    if abs(la_N[iN]) > 0:
                        fails.append({"site": "open contact carries a normal force", "msg": str(cd), "data": cd})
                    if have_F and hasattr(contr, "la_FDOF") and np.any(la_F[contr.la_FDOF] != 0):
                        fails.append({"site": "open contact carries a friction force", "msg": str(cd), "data": cd})
                    continue
                n_act += 1
                if la_N[iN] < -slack:
                    fails.append({"site": "Signorini: la_N0 < 0", "msg": str(cd), "data": cd})
                if g_N_ddot[iN] < -slack * 10:
                    fails.append({"site": "Signorini: g_N_ddot0 < 0 for a persistent contact", "msg": str(cd), "data": cd})
                if abs(la_N[iN] * g_N_ddot[iN]) > 1e-5 * max(1.0, scale) ** 2:
                    fails.append({"site": "Signorini: la_N0 * g_N_ddot0 != 0", "msg": str(cd), "data": cd})
                stats["max_err_signorini_compl"] = max(stats.get("max_err_signorini_compl", 0.0), abs(la_N[iN] * g_N_ddot[iN]))
                outcome.append("contact:closed_pressed" if la_N[iN] > slack else "contact:closed_unloaded")
                if not (have_F and mu and hasattr(contr, "la_FDOF")):
                    continue
                iF = contr.la_FDOF
                lF, gF, gFd = la_F[iF], gamma_F[iF], gamma_F_dot[iF]
                nF = float(np.linalg.norm(lF))
                cd.update({"la_F": lF, "gamma_F": gF, "gamma_F_dot": gFd, "mu": mu})
                if nF > mu * la_N[iN] + slack:
                    fails.append({"site": "Coulomb: |la_F0| > mu la_N0", "msg": str(cd), "data": cd})
                if np.linalg.norm(gF) > 1e-8:  # sliding
                    want = -mu * la_N[iN] * gF / np.linalg.norm(gF)
                    e = float(np.max(np.abs(lF - want)))
                    stats["max_err_slide"] = max(stats.get("max_err_slide", 0.0), e)
                    outcome.append("friction:slide")
                    if e > 1e-5 * max(1.0, scale):
                        fails.append({"site": "Coulomb: sliding friction force != -mu la_N gamma_F/|gamma_F|", "msg": str(cd), "data": cd})
                else:  # sticking on velocity level: acceleration-level law
                    if nF < mu * la_N[iN] - 1e-4 * max(1.0, scale):
                        e = float(np.max(np.abs(gFd)))
                        stats["max_err_stick"] = max(stats.get("max_err_stick", 0.0), e)
                        outcome.append("friction:stick")
                        if e > 1e-4 * max(1.0, scale):
                            fails.append({"site": "Coulomb: sticking contact (force inside the cone) has gamma_F_dot0 != 0", "msg": str(cd), "data": cd})
                    else:
                        outcome.append("friction:stick_to_slip")
                        if np.linalg.norm(gFd) > 1e-6 and float(lF @ gFd) > -0.99 * nF * np.linalg.norm(gFd):
                            fails.append({"site": "Coulomb: force on the cone not opposite to gamma_F_dot0", "msg": str(cd), "data": cd})
    # friction elements with a constant force reservoir (no normal contact): Coulomb's law with the element's own radius
    if system.nla_F:
        gamma_F_all = system.gamma_F(t, q, u)
        gamma_F_dot_all = system.gamma_F_dot(t, q, u, a)
        for contr in system.get_contribution_list("gamma_F"):
            for i_N, i_F, res in contr.friction_laws:
                if len(i_N) > 0:
                    continue
                iF = contr.la_FDOF[i_F]
                lF, gF, gFd = la_F[iF], gamma_F_all[iF], gamma_F_dot_all[iF]
                rad = float(res.r)
                nF = float(np.linalg.norm(lF))
                evals += 1
                cd = {"element": contr.name, "la_F": lF, "gamma_F": gF, "gamma_F_dot": gFd, "reservoir": rad}
                if nF > rad + 1e-6:
                    fails.append({"site": "Coulomb (constant reservoir): |la_F0| > reservoir", "msg": str(cd), "data": cd})
                if np.linalg.norm(gF) > 1e-8:
                    want = -rad * gF / np.linalg.norm(gF)
                    outcome.append("friction_element:slide")
                    if float(np.max(np.abs(lF - want))) > 1e-5 * max(1.0, scale):
                        fails.append({"site": "Coulomb (constant reservoir): sliding friction force != -reservoir gamma_F/|gamma_F|", "msg": str(cd), "data": cd})
                elif nF < rad - 1e-4:
                    outcome.append("friction_element:stick")
                    if float(np.max(np.abs(gFd))) > 1e-4 * max(1.0, scale):
                        fails.append({"site": "Coulomb (constant reservoir): sticking element has gamma_F_dot0 != 0", "msg": str(cd), "data": cd})
    stats["n_active_contacts"] = n_act
    oc = ["consistent:ok" if not fails else "consistent:fail"] + sorted(set(outcome))
    if "W_tau la_tau" in nontrivial_terms:
        oc.append("actuated")
    return {"fails": fails, "nontrivial": True, "evals": evals, "outcome": oc, "stats": stats}


def check_inconsistent(case, B):
    system = B["system"]
    fails = []
    if B["prepare"] is not None:
        try:
            system.assemble()
        except Exception as e:  # noqa
            fails.append({"site": "assemble rejects a consistent initial state", "msg": _exc(e), "data": {"exc": _exc(e), "phase": "first assembly of the joint_offset variant"}})
            return {"fails": fails, "nontrivial": True, "evals": 1, "outcome": "consistent:rejected"}
        B["prepare"]()
    try:
        system.assemble()
    except Exception as e:  # noqa
        return {"fails": [], "nontrivial": True, "evals": 1, "outcome": f"inconsistent:rejected:{type(e).__name__}"}
    # accepted: measure how inconsistent the state really is (vacuity guard for the variant)
    t, q, u = system.t0, system.q0, system.u0
    viol = {
        "g": float(np.max(np.abs(system.g(t, q)), initial=0.0)),
        "g_dot": float(np.max(np.abs(system.g_dot(t, q, u)), initial=0.0)),
        "g_N_min": float(np.min(system.g_N(t, q), initial=0.0)),
    }
    gN, gNd = system.g_N(t, q), system.g_N_dot(t, q, u)
    viol["approaching"] = float(np.min(np.where(np.abs(gN) < 1e-8, gNd, 0.0), initial=0.0))
    really = viol["g"] > 1e-6 or viol["g_dot"] > 1e-6 or viol["g_N_min"] < -1e-6 or viol["approaching"] < -1e-6
    if not really:
        return {"fails": [], "nontrivial": False, "evals": 1, "outcome": "inconsistent:variant_not_inconsistent"}
    fails.append({"site": "inconsistent initial state accepted by assemble", "msg": f"{case['bad']}: {viol}", "data": dict(viol, bad=case["bad"])})
    return {"fails": fails, "nontrivial": True, "evals": 1, "outcome": "inconsistent:accepted"}
