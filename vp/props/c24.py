"""C24  Restarting a simulation from an intermediate state reproduces the run.

E3 (crash-point enumeration): for every scenario x solver, EVERY split step k of an N-step run is
used as a restart point: leg 1 runs k steps, the system is deep-copied and re-initialised with the
state reached, leg 2 runs to the end; the concatenation must equal the uninterrupted run.  In
addition a simulation-free differential oracle compares the model functions of the re-initialised
copy with those of the original system along the remaining states of the run.
"""
import math
import numpy as np

ID = "C24"
LEVEL = "fault_enumeration"
RULE = (
    "scenarios (8) x solvers (Rattle, BackwardEuler, Moreau, ScipyIVP; contact scenes without ScipyIVP) x every split step k=1..N-1 of an "
    "N-step run (N=12 quick / 24 thorough); one case per (scenario, solver); a split is non-trivial if both legs ran and the state at the split "
    "differs from the initial state"
)
ASSUMPTIONS = [
    "solver tolerances are tightened to 1e-10 so that 'up to solver tolerance' means 1e-6 absolute on q and u",
    "rows of leg 2 are matched to the uninterrupted run by time (the second leg's grid is rebuilt from t_k)",
    "model identity is compared along the stored states of the uninterrupted run (both systems are walked through the same states, so "
    "history-dependent quantities such as the revolute angle see identical histories from the split on)",
]
MIN_NONTRIVIAL = 10
CASE_TIMEOUT = 900
DT = 0.01
TOL = 1e-6


# ------------------------------------------------------------------------------------------------
# scenarios (fresh real objects per call)
# ------------------------------------------------------------------------------------------------
def _opts():
    from cardillo.solver import SolverOptions

    return SolverOptions(newton_atol=1e-10, newton_rtol=1e-10, fixed_point_atol=1e-10, fixed_point_rtol=1e-10, fixed_point_max_iter=5000)


def build(scen, t0=0.0, nsteps=12):
    from cardillo import System
    from cardillo.discrete import RigidBody, PointMass
    from cardillo.constraints import Revolute, Spherical
    from cardillo.forces import Force
    from cardillo.force_laws import Spring, KelvinVoigtElement, MaxwellElement
    from cardillo.interactions import TwoPointInteraction
    from cardillo.actuators import PDcontroller
    from cardillo.contacts import Sphere2Plane, Sphere2Sphere
    from vp.core.quiet import quiet
    from vp.core.alphabet import axis_angle_quat, quat_to_A
    from vp.scen.mech import rb

    system = System(t0=t0)
    g = np.array([0.0, 0.0, -9.81])
    if scen == "chain":
        # origin --Revolute(y)-- b1 --Spherical-- b2 ; joint points off the centres of mass
        b1 = rb(mass=1.0, r=(0.5, 0, 0), om=(0, 1.5, 0), v=tuple(np.cross([0, 1.5, 0], [0.5, 0, 0])), name="b1")
        b2 = rb(mass=0.7, r=(1.3, 0, 0), name="b2")
        # velocities of b2 consistent with the spherical joint at (1,0,0): v_C2 = v_J + om2 x (r_C2 - r_J)
        vJ = np.cross([0, 1.5, 0], [1.0, 0, 0])
        om2 = np.array([0.3, -0.7, 0.4])
        b2.u0 = np.concatenate([vJ + np.cross(om2, [0.3, 0, 0]), om2])
        j1 = Revolute(system.origin, b1, 1, r_OJ0=np.zeros(3), A_IJ0=np.eye(3), name="rev")
        j2 = Spherical(b1, b2, r_OJ0=np.array([1.0, 0, 0]), name="sph")
        system.add(b1, b2, j1, j2, Force(1.0 * g, b1, name="g1"), Force(0.7 * g, b2, name="g2"))
    elif scen in ("link_slider", "link_cylinder"):
        # origin --Revolute(y)-- link --Prismatic|Cylindrical(x of the link)-- slider: a joint of the PROJECTED family whose first partner
        # is a moving body (its body-fixed joint frames must survive re-initialisation; seeded C24-k)
        from cardillo.constraints import Prismatic, Cylindrical

        w = 1.2
        b1 = rb(mass=1.0, r=(0.5, 0, 0), om=(0, w, 0), v=tuple(np.cross([0, w, 0], [0.5, 0, 0])), name="link")
        s_dot = 0.4
        b2 = rb(mass=0.6, r=(0.9, 0, 0), om=(0, w, 0), v=tuple(np.cross([0, w, 0], [0.9, 0, 0]) + np.array([s_dot, 0, 0])), name="slider")
        j1 = Revolute(system.origin, b1, 1, r_OJ0=np.zeros(3), A_IJ0=np.eye(3), name="rev")
        J2 = Prismatic if scen == "link_slider" else Cylindrical
        j2 = J2(b1, b2, 0, r_OJ0=np.array([0.9, 0, 0]), A_IJ0=np.eye(3))
        j2.name = "slide"
        system.add(b1, b2, j1, j2, Force(1.0 * g, b1, name="g1"), Force(0.6 * g, b2, name="g2"))
    elif scen in ("rev_spring_force", "rev_spring_compliance", "rev_kv", "rev_pd", "rev_kv_fast", "rev_kv_back"):
        A0 = quat_to_A(axis_angle_quat([0.3, -1.2, 2.0], 0.7))
        p0 = axis_angle_quat([0.3, -1.2, 2.0], 0.7)
        r0 = np.array([0.2, 0.1, -0.3])
        spin = 2.5
        if scen == "rev_kv_fast":
            spin = 5.5 / (nsteps * DT)  # the run sweeps the relative angle through all four quadrants and ends in the fourth
        if scen == "rev_kv_back":
            spin = -3.0 / (nsteps * DT)  # backwards beyond -pi/2: outside the range a freshly reset angle tracker can recover
        om = A0.T @ (A0[:, 2] * spin)  # spin about the joint axis (e_z of the joint frame), body-fixed components
        b = RigidBody(1.2, np.diag([0.4, 0.5, 0.6]), np.concatenate([r0, p0]), np.concatenate([np.zeros(3), om]), name="b")
        j = Revolute(system.origin, b, 2, angle0=0.9, r_OJ0=r0, A_IJ0=A0, name="rev")
        system.add(b, j)
        if scen == "rev_spring_force":
            system.add(Spring(j, 20.0, l_ref=0.2, compliance_form=False, name="spring"))
        elif scen == "rev_spring_compliance":
            system.add(Spring(j, 20.0, l_ref=0.2, compliance_form=True, name="spring"))
        elif scen in ("rev_kv", "rev_kv_fast", "rev_kv_back"):
            system.add(KelvinVoigtElement(j, 20.0, 0.5, l_ref=0.2, compliance_form=False, name="kv"))
        else:
            system.add(PDcontroller(j, 15.0, 0.8, np.array([1.5, 0.0])))
    elif scen == "shared_u0":
        # two bodies constructed with ONE common initial-velocity array object (the usual `u0 = np.zeros(6)` handed to every
        # body); a spring couples them, gravity acts on one only, so their velocities differ at every split state
        u_shared = np.zeros(6)
        b1 = RigidBody(1.0, np.diag([0.6, 0.9, 1.2]), np.array([0.0, 0, 0, 1.0, 0, 0, 0]), u_shared, name="b1")
        b2 = RigidBody(0.7, np.diag([0.3, 0.5, 0.4]), np.array([1.0, 0.2, 0, 1.0, 0, 0, 0]), u_shared, name="b2")
        tp = TwoPointInteraction(b1, b2, B_r_CP1=np.array([0.1, 0.0, 0.2]), B_r_CP2=np.array([0.0, -0.1, 0.1]), name="tpi")
        system.add(b1, b2, tp, Spring(tp, 40.0, l_ref=0.8, compliance_form=False, name="spring"), Force(1.0 * g, b1, name="g1"))
    elif scen == "maxwell":
        pm = PointMass(0.5, q0=np.array([1.0, 0.2, 0.0]), u0=np.array([0.4, 0.0, 0.1]), name="pm")
        tpi = TwoPointInteraction(system.origin, pm, name="tpi")
        mx = MaxwellElement(tpi, 30.0, 2.0, l_ref=0.8, q0=np.array([0.05]), name="mx")
        system.add(pm, tpi, mx, Force(0.5 * g, pm, name="g"))
    elif scen == "ball_plane":
        b = rb(mass=1.0, theta=(0.004, 0.004, 0.004), r=(0, 0, 0.13), v=(0.5, 0.1, -0.6), om=(0, 3.0, 1.0), name="ball")
        c = Sphere2Plane(system.origin, b, mu=0.3, r=0.1, e_N=0.5, e_F=0.0, name="floor")
        system.add(b, Force(1.0 * g, b, name="g"), c)
    elif scen == "two_spheres":
        b1 = rb(mass=1.0, theta=(0.004, 0.004, 0.004), r=(0, 0, 0), v=(0.8, 0.0, 0.0), om=(0, 0, 2.0), name="s1")
        b2 = rb(mass=0.6, theta=(0.003, 0.003, 0.003), r=(0.23, 0.03, 0.01), v=(-0.5, 0.0, 0.0), name="s2")
        c = Sphere2Sphere(b1, b2, 0.1, 0.1, mu=0.2, e_N=0.6, e_F=0.0, name="s2s")
        system.add(b1, b2, c)
    else:
        raise KeyError(scen)
    with quiet():
        system.assemble(options=_opts())
    return system


SCENARIOS = ["chain", "link_slider", "link_cylinder", "rev_spring_force", "rev_spring_compliance", "rev_kv", "rev_pd", "rev_kv_fast", "rev_kv_back", "maxwell", "shared_u0", "ball_plane", "two_spheres"]
CONTACT = {"ball_plane", "two_spheres"}
SOLVERS = ["Rattle", "BackwardEuler", "Moreau", "ScipyIVP"]


def run(system, solver, nsteps):
    import cardillo.solver as S
    from vp.core.quiet import quiet

    t1 = system.t0 + nsteps * DT - 0.5 * DT
    with quiet():
        if solver == "ScipyIVP":
            return S.ScipyIVP(system, t1, DT, rtol=1e-11, atol=1e-12).solve()
        return getattr(S, solver)(system, t1, DT, options=_opts()).solve()


def cases(tier, seed):
    out = []
    N = 24 if tier == "thorough" else 12
    for scen in SCENARIOS:
        for solver in SOLVERS:
            if solver == "ScipyIVP" and scen in CONTACT:
                continue
            out.append({"scen": scen, "solver": solver, "N": N})
    # systems whose initial time is negative: one split lands exactly on t = 0.0 (seeded C24-e: a restart time that is falsy)
    for scen in ("chain", "rev_pd", "ball_plane"):
        for solver in ("Rattle", "BackwardEuler"):
            out.append({"scen": scen, "solver": solver, "N": N, "t0": -5 * DT})
    k = seed % len(out)
    return out[k:] + out[:k]


def _projector(W):
    if W.size == 0:
        return np.zeros((W.shape[0], W.shape[0]))
    U, sv, _ = np.linalg.svd(W, full_matrices=False)
    r = int(np.sum(sv > 1e-10 * max(1.0, sv[0] if len(sv) else 1.0)))
    return U[:, :r] @ U[:, :r].T


def _model_eval(system, t, q, u):
    """system-level model functions the property names: joint constraints and directions, joint-angle dependent forces
    (force laws, actuators), contact kinematics"""
    out = {}
    out["g"] = system.g(t, q)
    # constraint and friction force directions are compared through the orthogonal projector onto their
    # column space: a re-initialised joint or contact may legitimately use another basis of the same space
    out["range(W_g)"] = _projector(system.W_g(t, q).toarray())
    out["h"] = system.h(t, q, u)
    if system.nla_c:
        out["la_c"] = system.la_c(t, q, u)
        out["W_c"] = system.W_c(t, q).toarray()
    if system.nla_tau:
        out["la_tau"] = system.la_tau(t, q, u)
        out["W_tau"] = system.W_tau(t, q).toarray()
    if system.nla_N:
        out["g_N"] = system.g_N(t, q)
        out["g_N_dot"] = system.g_N_dot(t, q, u)
        gF = system.gamma_F(t, q, u)
        out["|gamma_F| per contact"] = np.array([np.linalg.norm(gF[c.la_FDOF]) for c in system.contributions if hasattr(c, "la_FDOF")])
        out["W_N"] = system.W_N(t, q).toarray()
        out["range(W_F)"] = _projector(system.W_F(t, q).toarray())
    for c in system.contributions:
        if hasattr(c, "angle") and callable(getattr(c, "angle", None)) and hasattr(c, "qDOF"):
            out[f"angle[{c.name}]"] = np.array([c.angle(t, q[c.qDOF])])
    return out


def check(case):
    from vp.core.quiet import quiet

    scen, solver, N = case["scen"], case["solver"], case["N"]
    fails = []
    letters = {"scen": scen, "solver": solver}
    T0 = case.get("t0", 0.0)
    ref_sys = build(scen, t0=T0, nsteps=N)
    ref = run(ref_sys, solver, N)
    t_ref, q_ref, u_ref = np.asarray(ref.t), np.asarray(ref.q), np.asarray(ref.u)
    if len(t_ref) != N + 1:
        return {"fails": [{"site": "uninterrupted run is shorter than requested", "msg": f"{letters}: {len(t_ref)} rows", "data": letters}], "nontrivial": False}
    evals = 0
    nontriv = 0
    max_traj = 0.0
    max_model = 0.0
    excluded = 0
    worst = {}
    outcomes = set()
    for k, variant in [(k, v) for k in range(1, N) for v in ("copy_after_first_leg", "copy_after_full_run")]:
        evals += 1
        letters = {"scen": scen, "solver": solver, "variant": variant}
        if variant == "copy_after_first_leg":
            s1 = build(scen, t0=T0, nsteps=N)
            leg1 = run(s1, solver, k)
            qk, uk, tk = np.asarray(leg1.q)[-1], np.asarray(leg1.u)[-1], float(np.asarray(leg1.t)[-1])
            d1 = max(np.max(np.abs(qk - q_ref[k])), np.max(np.abs(uk - u_ref[k])))
            if d1 > 1e-8:  # leg 1 is a prefix of the uninterrupted run (fixed-step solvers: exactly)
                fails.append({"site": "first leg is not a prefix of the uninterrupted run", "msg": f"{letters} k={k}: {d1:.2e}", "data": dict(letters, k=k)})
                continue
        else:
            # the copy is taken from the system object that performed the whole uninterrupted run (its history-dependent
            # internals - angle trackers, caches, contact bases - are those of the END of the run, not of the split state)
            s1 = ref_sys
            qk, uk, tk = q_ref[k].copy(), u_ref[k].copy(), float(t_ref[k])
        if abs(tk) < 1e-12:
            tk = 0.0  # the user restarts "at time zero"
            outcomes.add("reinit:at_t_exactly_0")
        try:
            with quiet():
                s2 = s1.deepcopy()
                try:
                    s2.set_new_initial_state(qk, uk, t0=tk, options=_opts())
                    outcomes.add("reinit:consistency_checked")
                except AssertionError as e:
                    if "Initial conditions do not fulfill" not in str(e):
                        raise
                    # the state of a scheme that satisfies its constraints on one kinematic level only (backward Euler,
                    # Moreau) is rejected by the 1e-8 consistency check of assemble; the library's own switch for
                    # this situation is compute_consistent_initial_conditions=False
                    import dataclasses

                    s2 = s1.deepcopy()
                    s2.set_new_initial_state(qk, uk, t0=tk, options=dataclasses.replace(_opts(), compute_consistent_initial_conditions=False))
                    outcomes.add("reinit:consistency_check_skipped")
        except Exception as e:
            fails.append({"site": f"re-initialisation raises [{type(e).__name__}]", "msg": f"{letters} k={k}: {type(e).__name__}: {str(e)[:200]}",
                          "data": dict(letters, k=k, exc=type(e).__name__)})
            continue
        # (b) model identity along the remaining states of the uninterrupted run
        s0 = build(scen, t0=T0, nsteps=N)
        with quiet():
            for j in range(0, k + 1):  # walk the original system to the split state (history-dependent trackers)
                _model_eval(s0, t_ref[j], q_ref[j], u_ref[j])
            bad_fields = {}
            rel_angle = None
            for j in range(k, N + 1):
                a = _model_eval(s0, t_ref[j], q_ref[j], u_ref[j])
                if j == k:
                    for c in s0.contributions:
                        if hasattr(c, "angle0") and f"angle[{c.name}]" in a:
                            rel_angle = float(a[f"angle[{c.name}]"][0] - c.angle0)  # accumulated relative rotation at the split
                b = _model_eval(s2, t_ref[j], q_ref[j], u_ref[j])
                for key in a:
                    if key not in b:
                        bad_fields[key] = float("inf")
                        continue
                    d = float(np.max(np.abs(np.asarray(a[key]) - np.asarray(b[key])))) if np.size(a[key]) else 0.0
                    sc = 1.0 + (float(np.max(np.abs(a[key]))) if np.size(a[key]) else 0.0)
                    max_model = max(max_model, d / sc)
                    if d > 1e-9 * sc:
                        bad_fields[key] = max(bad_fields.get(key, 0.0), d)
        for key, d in sorted(bad_fields.items()):
            kk = key.split("[")[0]
            fails.append({"site": f"re-initialised copy describes a different model: {kk} differs", "msg": f"{letters} k={k}: max |{key} copy - original| = {d:.3e} along the remaining states",
                          "data": dict(letters, k=k, field=key, diff=d, rel_angle_at_split=rel_angle)})
        # the copy reports the requested initial time
        if not float(s2.t0) == tk:
            fails.append({"site": "re-initialised copy does not report the requested t0", "msg": f"{letters} k={k}: requested t0={tk!r}, copy reports t0={float(s2.t0)!r}",
                          "data": dict(letters, k=k, t0_requested=tk, t0_reported=float(s2.t0))})
        # (a) trajectory
        try:
            leg2 = run(s2, solver, N - k)
        except Exception as e:
            fails.append({"site": f"second leg raises [{type(e).__name__}]", "msg": f"{letters} k={k}: {str(e)[:200]}", "data": dict(letters, k=k)})
            continue
        t2, q2, u2 = np.asarray(leg2.t), np.asarray(leg2.q), np.asarray(leg2.u)
        if np.max(np.abs(qk - q_ref[0])) > 1e-6:
            nontriv += 1
        dmax = 0.0
        dq_max = du_max = 0.0
        rows_off = 0
        matched = 0
        for j in range(k, N + 1):
            i = int(np.argmin(np.abs(t2 - t_ref[j])))
            if abs(t2[i] - t_ref[j]) > DT / 100:
                continue
            matched += 1
            dq_, du_ = float(np.max(np.abs(q2[i] - q_ref[j]))), float(np.max(np.abs(u2[i] - u_ref[j])))
            dq_max, du_max = max(dq_max, dq_), max(du_max, du_)
            rows_off += max(dq_, du_) > TOL
            dmax = max(dmax, dq_, du_)
        # smallest |g_N| over the remaining rows of the uninterrupted run (a contact closed up to rounding)
        min_gN = None
        if ref_sys.nla_N:
            with quiet():
                min_gN = float(min(np.min(np.abs(ref_sys.g_N(t_ref[j], q_ref[j]))) for j in range(k, N + 1)))
        if matched < N - k:
            fails.append({"site": "second leg does not reach the final time", "msg": f"{letters} k={k}: {matched} of {N - k + 1} instants", "data": dict(letters, k=k)})
        max_traj = max(max_traj, dmax)
        if dmax > TOL:
            fails.append({"site": "restarted trajectory differs from the uninterrupted run", "msg": f"{letters} k={k}: max deviation {dmax:.3e}",
                          "data": dict(letters, k=k, dev=dmax, dev_q=dq_max, dev_u=du_max, rows_differing=int(rows_off), min_abs_g_N_after_split=min_gN,
                                       rel_angle_at_split=rel_angle)})
    seen, cnt = {}, {}
    for f in fails:
        cnt[f["site"]] = cnt.get(f["site"], 0) + 1
        seen.setdefault(f["site"], f)
    for s, f in seen.items():
        f["data"]["splits_failing"] = cnt[s]
    return {"fails": list(seen.values()), "nontrivial": nontriv > 0, "evals": evals, "states": evals, "transitions": evals,
            "outcome": [f"{scen}:{'ok' if not fails else 'differs'}"] + sorted(outcomes), "stats": {"max_traj_dev": max_traj, "max_model_dev": max_model, "splits": evals}}
