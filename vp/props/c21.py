"""C21  Non-convergence is never silent.

Engine E3 (vp/core/faults.py): a dry run of every (solver, scenario, option) configuration records
the ordered decision points (Newton-helper calls, fixed-point loop entries, integrator call); then
EVERY single decision point (deviation bound 1) and every pair (bound 2) is forced to answer "not
converged" and the run is executed to its end on the real solver.  Plus the finite alphabet
"solver x model part it cannot treat" (unilateral contacts handed to the smooth wrappers).
"""
import itertools
import numpy as np

ID = "C21"
LEVEL = "fault_enumeration"
RULE = (
    "configurations = solver x scenario x continue_with_unconverged x reuse_lu_decomposition; for each, the decision "
    "points of the 5-step run are recorded by a dry run and every subset of size 1 (quick; size <= 2 for a subset of configurations, "
    "all configurations in the thorough tier) is forced to fail; one case = (configuration, first forced point i) and covers {i} and all {i,j}, j>i; "
    "every Newton decision point (and every fixed-point helper call of the dual Stoermer-Verlet scheme) is additionally forced to diverge to a non-finite residual / iterate (fault kind 'nan', singletons). "
    "A case is non-trivial if at least one forced failure was effective (the helper really reported non-convergence)"
)
ASSUMPTIONS = [
    "a forced Newton failure is the real fsolve run with newton_max_iter=1 and unreachable tolerances (genuine unconverged iterate, genuine fsolve warning)",
    "fault kind 'nan': the real fsolve with unchanged options on a residual that is NaN at every Newton iterate after the initial guess (Jacobian evaluations untouched); with continue_with_unconverged an error raised later is accepted (continuing from a non-finite state is meaningless), a silent return is not",
    "a forced fixed-point failure answers max_iter=2 and a NaN tolerance for that loop through the options object the solver reads in every step",
    "accepted steps are counted through system.step_callback (called once per accepted step by every fixed-step and static solver)",
    "'a warning' means the warnings module (observable by callers); text printed to stdout does not count",
    "'naming the time' = the warning text contains the time of the last returned row or of the failed step in the form t=<number> / time <number>",
]
MIN_NONTRIVIAL = 20
CASE_TIMEOUT = 600
T0 = 0.3
DT = 0.01
NSTEPS = 5

DYN = {
    "BackwardEuler": dict(modules=["cardillo.solver.backward_euler"], proxy=True),
    "Rattle": dict(modules=["cardillo.solver.rattle"], proxy=True),
    "Moreau": dict(modules=[], proxy=True),
    "DualStormerVerlet": dict(modules=[], proxy=False, dsv=True),
    "DualStormerVerlet_plain": dict(modules=[], proxy=False, dsv=True),  # accelerated=False: the plain fixed-point helper drives the step
    "ScipyIVP": dict(modules=[], proxy=False, scipy_mod="cardillo.solver.scipy_ivp"),
    "ScipyDAE": dict(modules=[], proxy=False, scipy_mod="cardillo.solver.scipy_dae"),
    "Newton": dict(modules=["cardillo.solver.statics"], proxy=False, static=True),
    "Riks": dict(modules=["cardillo.solver.statics"], proxy=False, static=True),
}


def _build(scen):
    from vp.scen import mech

    if scen == "pend":
        return mech.pendulum(t0=T0, om0=0.8, spring=(5.0, 0.2))
    if scen == "ball":
        # sliding + spinning ball in closed contact: every friction fixed-point loop is entered
        return mech.ball_on_plane(t0=T0, mu=0.3, e_N=0.0, v=(0.6, 0.1, 0.0), om=(0.0, 3.0, 0.0))
    if scen == "drop":
        return mech.ball_on_plane(t0=T0, mu=0.3, e_N=0.5, height=0.1005, v=(0.5, 0.0, -0.8), om=(0.0, 2.0, 0.0))
    if scen == "static_pm":
        return _static_pm()
    if scen == "truss":
        return _truss()
    if scen == "belt":
        return _belt()
    raise KeyError(scen)


def _static_pm():
    from cardillo import System
    from cardillo.discrete import PointMass
    from cardillo.interactions import TwoPointInteraction
    from cardillo.force_laws import Spring
    from cardillo.forces import Force
    from vp.core.quiet import quiet

    system = System(t0=0.0)
    pm = PointMass(1.0, q0=np.array([1.0, 0.0, 0.0]), name="pm")
    tpi = TwoPointInteraction(system.origin, pm, name="tpi")
    sp = Spring(tpi, 50.0, l_ref=1.0, compliance_form=False, name="spring")
    # a second, inclined spring keeps the stiffness matrix regular in every direction
    from cardillo.discrete import Frame

    fr = Frame(r_OP=np.array([0.0, 1.0, 0.5]), name="anchor")
    tpi2 = TwoPointInteraction(fr, pm, name="tpi2")
    sp2 = Spring(tpi2, 30.0, l_ref=1.3, compliance_form=True, name="spring2")
    fr3 = Frame(r_OP=np.array([0.3, -1.0, 1.0]), name="anchor3")
    tpi3 = TwoPointInteraction(fr3, pm, name="tpi3")
    sp3 = Spring(tpi3, 20.0, l_ref=1.6, compliance_form=False, name="spring3")
    F = Force(lambda t: t * np.array([3.0, 2.0, -1.0]), pm, name="load")
    system.add(pm, tpi, sp, fr, tpi2, sp2, fr3, tpi3, sp3, F)
    with quiet():
        system.assemble()
    return system


class _Truss2D:
    def __init__(self, stiffness=1.0, phi0=np.pi / 4, width=1.0):
        self.stiffness, self.phi0, self.width = stiffness, phi0, width
        self.nu = self.nq = 1
        self.u0 = np.zeros(1)
        self.q0 = np.array([phi0])
        self.constant_mass_matrix = True
        self.name = "truss"

    def M(self, t, q):
        return np.eye(1)

    def h(self, t, q, u):
        phi = q[0]
        return np.array([t + 2 * self.stiffness * (self.width / np.cos(phi) - self.width / np.cos(self.phi0)) * np.sin(phi)])

    def h_q(self, t, q, u):
        from cardillo.math.approx_fprime import approx_fprime

        return approx_fprime(q, lambda q: self.h(t, q, u), method="3-point")


class _Belt:
    """block on a moving belt: a friction element with a constant force reservoir and NO unilateral contact
    (nla_N = 0, nla_F = 1) - the friction fixed-point loops are entered although there is no normal contact (seeded C21-i)"""

    def __init__(self):
        from cardillo.math.prox import Sphere

        self.nq = self.nu = 1
        self.q0 = np.array([0.2])
        self.u0 = np.array([0.2])
        self.constant_mass_matrix = True
        self.name = "belt"
        self.u_b = 3.0
        self.friction_laws = [([], [0], Sphere(0.5 * 10.0))]
        self.nla_F = 1
        self.e_F = np.zeros(1)

    def q_dot(self, t, q, u):
        return u

    def q_dot_u(self, t, q):
        return np.eye(1)

    def M(self, t, q):
        return np.eye(1)

    def h(self, t, q, u):
        return np.array([-1.0 * q[0] - 0.1 * u[0]])

    def h_q(self, t, q, u):
        return np.array([[-1.0]])

    def h_u(self, t, q, u):
        return np.array([[-0.1]])

    def gamma_F(self, t, q, u):
        return np.array([u[0] - self.u_b])

    def gamma_F_q(self, t, q, u):
        return np.zeros((1, 1))

    def gamma_F_u(self, t, q):
        return np.eye(1)

    def gamma_F_dot(self, t, q, u, u_dot):
        return np.array([u_dot[0]])

    def W_F(self, t, q):
        return np.eye(1)

    def Wla_F_q(self, t, q, la_F):
        return np.zeros((1, 1))


def _belt():
    from cardillo import System
    from vp.core.quiet import quiet

    system = System(t0=T0)
    system.add(_Belt())
    with quiet():
        system.assemble()
    return system


def _truss():
    from cardillo import System
    from vp.core.quiet import quiet

    system = System()
    system.add(_Truss2D())
    with quiet():
        system.assemble()
    return system


def _make_solver(name, system, options):
    import cardillo.solver as S

    t1 = T0 + NSTEPS * DT - 0.5 * DT  # strictly inside the last step: no grid ambiguity
    if name == "DualStormerVerlet":
        return S.DualStormerVerlet(system, t1, DT, options=options, linear_solver="LU")
    if name == "DualStormerVerlet_plain":
        return S.DualStormerVerlet(system, t1, DT, options=options, linear_solver="LU", accelerated=False)
    if name in ("ScipyIVP", "ScipyDAE"):
        return getattr(S, name)(system, t1, DT)
    if name == "Newton":
        return S.Newton(system, n_load_steps=4, verbose=False, options=options)
    if name == "Riks":
        return S.Riks(system, la_arc_span=[-0.3, 0.3], la_arc0=1e-3, iter_goal=3, max_load_steps=6, options=options)
    return getattr(S, name)(system, t1, DT, options=options)


def run_once(solver, scen, flag, reuse, fail_at, mode="maxiter", second=False):
    """one execution under a fault plan.  Returns (outcome dict, plan)"""
    from cardillo.solver import SolverOptions
    from vp.core import faults
    from vp.core.quiet import capture

    cfg = DYN[solver]
    plan = faults.Plan(fail_at, mode=mode)
    system = _build(scen)
    kw = dict(fixed_point_max_iter=200)
    if mode == "nan":  # budget: after a non-finite iterate every later solve runs to its iteration limit
        kw = dict(fixed_point_max_iter=30, newton_max_iter=6)
    real = SolverOptions(continue_with_unconverged=flag, reuse_lu_decomposition=reuse,
                         newton_atol=1e-8, newton_rtol=1e-8, fixed_point_atol=1e-8, fixed_point_rtol=1e-8, **kw)
    options = faults.OptionsProxy(real, plan, fp_decisions=cfg.get("proxy", False)) if cfg.get("proxy") else real
    faults.count_steps(system, plan)
    out = {"raised": None, "rows": None, "t_last": None, "warn_msgs": [], "stdout": ""}
    with capture() as rec:
        with faults.Interposer(plan, modules=cfg.get("modules", ()), dsv=cfg.get("dsv", False), scipy_mod=cfg.get("scipy_mod")):
            try:
                sobj = _make_solver(solver, system, options)
                sol = sobj.solve()
                t = np.asarray(sol.t, float)
                out["rows"] = int(len(t))
                out["t_last"] = float(t[-1]) if len(t) else None
                out["q_rows"] = int(np.asarray(sol.q).shape[0])
                if second and fail_at:
                    # the same solver object used again, now without any forced failure (no further index is in the plan)
                    nw = len(rec["warns"])
                    try:
                        sol2 = sobj.solve()
                        out["second_rows"] = int(len(np.asarray(sol2.t)))
                    except Exception as e2:  # noqa
                        out["second_raised"] = f"{type(e2).__name__}: {e2}"
                    out["second_warn_msgs"] = [str(w.message) for w in rec["warns"][nw:]]
            except Exception as e:  # noqa: the contract allows any error
                out["raised"] = f"{type(e).__name__}: {e}"
    out["warn_msgs"] = [str(w.message) for w in rec["warns"]]
    out["stdout"] = rec["out"].getvalue()[-400:]
    return out, plan


def configs(tier):
    out = []
    for solver in DYN:
        if solver in ("Newton",):
            scens = ["static_pm"]
        elif solver == "Riks":
            scens = ["truss"]
        elif solver in ("ScipyIVP", "ScipyDAE"):
            scens = ["pend"]
        else:
            scens = ["pend", "ball", "drop"] if tier == "thorough" else ["pend", "ball"]
            if solver in ("BackwardEuler", "Moreau", "Rattle"):
                scens = scens + ["belt"]
        for scen in scens:
            for flag in (False, True):
                reuses = (True, False) if solver in ("BackwardEuler", "Rattle") else (True,)
                for reuse in reuses:
                    out.append((solver, scen, flag, reuse))
    return out


def cases(tier, seed):
    out = []
    for solver, scen, flag, reuse in configs(tier):
        res, plan = run_once(solver, scen, flag, reuse, ())
        n = plan.n
        pairs = tier == "thorough" or (scen == "ball" and reuse) or solver in ("Newton", "Riks", "Moreau")
        out.append({"kind": "dry", "solver": solver, "scen": scen, "flag": flag, "reuse": reuse, "n_points": n})
        for i in range(n):
            out.append({"kind": "inject", "solver": solver, "scen": scen, "flag": flag, "reuse": reuse, "first": i,
                        "n_points": n, "bound": 2 if pairs else 1})
        # second fault kind at every Newton decision point: the iteration diverges to a non-finite residual (singletons)
        for i in range(n):
            if plan.log[i]["kind"] == "newton" or (DYN[solver].get("dsv") and plan.log[i]["kind"] == "fixed_point"):
                out.append({"kind": "inject", "mode": "nan", "solver": solver, "scen": scen, "flag": flag, "reuse": reuse, "first": i,
                            "n_points": n, "bound": 1})
    # unsupported model parts: smooth wrappers on a system with a unilateral contact
    for solver in ("ScipyIVP", "ScipyDAE"):
        out.append({"kind": "unsupported", "solver": solver, "scen": "ball", "flag": False, "reuse": True})
    # seed only rotates the order (enumeration is complete for every seed)
    k = seed % len(out) if out else 0
    return out[k:] + out[:k]


def _fail(site, case, fail_at, res, plan, msg):
    forced = [r for r in plan.log if r["forced"]]
    return {
        "site": site,
        "msg": f"{case['solver']}/{case['scen']} flag={case['flag']} reuse={case['reuse']} forced={sorted(fail_at)} -> {msg}",
        "data": {
            "fail_at": sorted(fail_at),
            "forced_kinds": [r["kind"] for r in forced],
            "forced_sites": [r["site"] for r in forced],
            "first_forced_kind": forced[0]["kind"] if forced else None,
            "raised": res["raised"], "rows": res["rows"], "t_last": res["t_last"],
            "warnings": res["warn_msgs"][:6], "stdout_tail": res["stdout"][-200:],
        },
    }


def judge(case, fail_at, res, plan, full_rows, baseline_msgs=()):
    """the contract of the property for one execution.  Only warnings that the fault-free run of the
    same configuration does not emit count (wording-agnostic: unrelated notices such as the
    constant-mass-matrix note of the dual Stoermer-Verlet scheme appear in both)."""
    from vp.core import faults

    fails = []
    res = dict(res)
    res["warn_msgs"] = [m for m in res["warn_msgs"] if m not in baseline_msgs]
    forced = [r for r in plan.log if r["forced"]]
    effective = [r for r in forced if r["effective"]]
    if not effective:
        return fails, "void"
    first = effective[0]
    solver = case["solver"]
    kind = first["kind"]
    site_sfx = f"{solver}:{kind}" + (":nan" if case.get("mode") == "nan" else "")
    if not case["flag"]:
        if res["raised"] is not None:
            return fails, "raised"
        # returned: only converged steps + a warning naming the stop time
        if solver in ("ScipyIVP", "ScipyDAE"):
            expected_rows = None
        elif solver == "Newton":
            expected_rows = first["accepted"]  # every row of the static solver is itself a solve
        else:
            expected_rows = first["accepted"] + 1  # row 0 is the initial state
        if expected_rows is not None and res["rows"] != expected_rows:
            fails.append(_fail(f"returned rows are not exactly the converged steps [{site_sfx}]", case, fail_at, res, plan,
                               f"rows={res['rows']} but {expected_rows} steps were converged when the failure occurred"))
        if not res["warn_msgs"]:
            fails.append(_fail(f"returned after a failure without any warning [{site_sfx}]", case, fail_at, res, plan,
                               f"rows={res['rows']} no warning emitted"))
        else:
            times = []
            if res["t_last"] is not None:
                times.append(res["t_last"])
                times.append(res["t_last"] + DT)
            if solver == "Newton":
                times += [first["accepted"] * 0.25, (first["accepted"] - 1) * 0.25]
            if not faults.names_time(res["warn_msgs"], times):
                fails.append(_fail(f"warning does not name the stop time [{site_sfx}]", case, fail_at, res, plan,
                                   f"warnings={res['warn_msgs'][:3]} stop times accepted={times}"))
        return fails, "returned_truncated"
    # continue_with_unconverged = True
    if res["raised"] is not None and case.get("mode") == "nan":
        # continuing from a non-finite iterate is meaningless; an error (e.g. from the next factorisation) is not silent
        return fails, "raised_after_nan_despite_flag"
    if res["raised"] is not None:
        fails.append(_fail(f"raises although continue_with_unconverged is set [{site_sfx}]", case, fail_at, res, plan, res["raised"]))
        return fails, "raised_despite_flag"
    if not res["warn_msgs"]:
        fails.append(_fail(f"continued after a failure without any warning [{site_sfx}]", case, fail_at, res, plan, f"rows={res['rows']}"))
    if solver not in ("ScipyIVP", "ScipyDAE", "Riks") and res["rows"] != full_rows:
        fails.append(_fail(f"did not continue to the end although continue_with_unconverged is set [{site_sfx}]", case, fail_at, res, plan,
                           f"rows={res['rows']} full={full_rows}"))
    return fails, "warned_and_continued"


def check(case):
    solver, scen, flag, reuse = case["solver"], case["scen"], case["flag"], case["reuse"]
    if case["kind"] == "unsupported":
        res, plan = run_once(solver, scen, flag, reuse, ())
        fails = []
        base, _ = run_once(solver, "pend", flag, reuse, ())
        res["warn_msgs"] = [m for m in res["warn_msgs"] if m not in base["warn_msgs"]]
        if res["raised"] is None and not res["warn_msgs"]:
            fails.append({"site": f"unilateral contacts silently ignored [{solver}]",
                          "msg": f"{solver} on a system with nla_N>0 returned {res['rows']} rows without error or warning",
                          "data": {"rows": res["rows"]}})
        return {"fails": fails, "nontrivial": True, "evals": 1, "outcome": "unsupported:" + ("raised" if res["raised"] else ("warned" if res["warn_msgs"] else "silent"))}
    dry, dplan = run_once(solver, scen, flag, reuse, ())
    if case["kind"] == "dry":
        fails = []
        if dry["raised"] is not None:
            fails.append({"site": f"fault-free run fails [{solver}]", "msg": dry["raised"], "data": {"scen": scen}})
        if dplan.n != case["n_points"]:
            fails.append({"site": "harness: decision points not reproducible", "msg": f"{dplan.n} vs {case['n_points']}", "data": {}})
        kinds = sorted({r["kind"] for r in dplan.log})
        entered = "fixed_point" in kinds
        if entered and scen in ("ball", "drop", "belt") and DYN[solver].get("proxy") and dry["raised"] is None:
            # reading the iteration limit is not yet an entry: force ALL fixed-point decision points at once and see whether any
            # convergence test ever reads the (poisoned) tolerance
            allfp = tuple(i for i, r in enumerate(dplan.log) if r["kind"] == "fixed_point")
            _, p2 = run_once(solver, scen, flag, reuse, allfp)
            entered = any(r["effective"] for r in p2.log if r["forced"])
        if scen in ("ball", "drop", "belt") and DYN[solver].get("proxy") and not entered and dry["raised"] is None:
            # a system with unilateral contacts / friction elements: the solver must enter its contact fixed-point loop
            # (otherwise that part of the model is silently ignored and no failure of the loop can ever be reported)
            fails.append({"site": f"contact/friction fixed-point loop never entered on a system with friction [{solver}]",
                          "msg": f"{solver}/{scen}: decision points of the fault-free run: {kinds}", "data": {"scen": scen, "kinds": kinds}})
        return {"fails": fails, "nontrivial": dplan.n > 0, "evals": 1, "outcome": f"dry:{solver}:{'+'.join(kinds)}",
                "stats": {"decision_points": dplan.n}}
    full_rows = dry["rows"]
    i = case["first"]
    sets = [(i,)]
    if case["bound"] >= 2:
        sets += [(i, j) for j in range(i + 1, case["n_points"])]
    fails = []
    outcomes = set()
    n_eff = 0
    evals = 0
    for fs in sets:
        second = (not flag) and case.get("mode", "maxiter") == "maxiter" and len(fs) == 1 and solver in ("BackwardEuler", "Rattle", "Moreau")
        res, plan = run_once(solver, scen, flag, reuse, fs, mode=case.get("mode", "maxiter"), second=second)
        evals += 1
        if second and res.get("second_rows") is not None and any(r["forced"] and r["effective"] for r in plan.log):
            # a later, fault-free solve() of the same object: stopping early again needs a reason that is said
            msgs2 = [m for m in res.get("second_warn_msgs", []) if m not in set(dry["warn_msgs"])]
            if res["second_rows"] < full_rows and not msgs2:
                fails.append(_fail(f"second solve() of the same solver object stops early without failure and without warning [{solver}]", case, fs, res, plan,
                                   f"first call returned {res['rows']} rows after the forced failure; second call (no failure) returned {res['second_rows']} of {full_rows} rows, no warning"))
            outcomes.add(f"{solver}:second_solve_checked")
        f, oc = judge(case, fs, res, plan, full_rows, set(dry["warn_msgs"]))
        outcomes.add(f"{solver}:{oc}")
        if oc != "void":
            n_eff += 1
        fails.extend(f)
    # one fail per site is enough per case
    seen = {}
    for f in fails:
        seen.setdefault(f["site"], f)
    return {"fails": list(seen.values()), "nontrivial": n_eff > 0, "evals": evals, "outcome": sorted(outcomes),
            "transitions": evals, "states": evals, "stats": {"effective_injections": n_eff, "void_injections": evals - n_eff}}
