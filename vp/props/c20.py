"""C20  Solver results honour the Solution contract.

E1: (a) complete product of (t0, dt, k) time grids x dynamic solvers on a point mass in free fall --
the grid logic does not depend on the model --, including final times that are exact multiples of
the step in decimal but not in binary and non-multiples; (b) systems x all solvers for field shapes,
iteration and save/load round trips.
"""
import math
import os
import tempfile
import numpy as np

ID = "C20"
LEVEL = "exploration"
RULE = (
    "grids: t0 in {0,0.1,1.0,-1.0,-0.5} x dt in {0.1,0.2,0.25,0.05,0.01,1/3,0.007 (+1 seed-generic)} x t1 = t0+dt*k (k=1..30) and t0+dt*(k+0.35) (k in {1,2,5,10}) "
    "x 6 dynamic solvers, one case per (solver,t0,dt); objects: 4 systems x 8 solvers; a grid is non-trivial if the solver returned a solution"
)
ASSUMPTIONS = [
    "a grid point within 1e-9*dt of the final time counts as 'at the final time' (this is what 'exact multiple in decimal but not in binary' requires)",
    "fixed-step: consecutive differences equal dt within 1e-9*dt",
    "field widths: q,q_dot->nq; u,u_dot->nu; la_g,P_g,mu_g->nla_g; la_gamma,P_gamma->nla_gamma; la_c->nla_c; la_N,P_N->nla_N; la_F,P_F->nla_F",
]
MIN_NONTRIVIAL = 20
SOLVERS = ["Moreau", "Rattle", "BackwardEuler", "DualStormerVerlet", "ScipyIVP", "ScipyDAE"]
T0S = [0.0, 0.1, 1.0, -1.0, -0.5]  # negative initial times: windows inside the negative axis and windows ending exactly at / crossing 0 (seeded C20-m)
DTS = [0.1, 0.2, 0.25, 0.05, 0.01, 1.0 / 3.0, 0.007]
WIDTH = {"q": "nq", "q_dot": "nq", "u": "nu", "u_dot": "nu", "la_g": "nla_g", "P_g": "nla_g", "mu_g": "nla_g", "la_gamma": "nla_gamma",
         "P_gamma": "nla_gamma", "la_c": "nla_c", "la_N": "nla_N", "P_N": "nla_N", "la_F": "nla_F", "P_F": "nla_F"}


def _pm_system(t0):
    from cardillo import System
    from cardillo.discrete import PointMass
    from cardillo.forces import Force
    from vp.core.quiet import quiet

    system = System(t0=t0)
    pm = PointMass(1.0, q0=np.array([0.0, 0.0, 1.0]), u0=np.array([0.3, 0.0, 0.0]), name="pm")
    system.add(pm, Force(np.array([0.0, 0.0, -9.81]), pm, name="g"))
    with quiet():
        system.assemble()
    return system


def _solver(name, system, t1, dt):
    import cardillo.solver as S

    if name == "DualStormerVerlet":
        return S.DualStormerVerlet(system, t1, dt, linear_solver="LU")
    if name == "ScipyIVP":
        return S.ScipyIVP(system, t1, dt, rtol=1e-6, atol=1e-8)
    return getattr(S, name)(system, t1, dt)


def _dts(seed):
    from vp.core.alphabet import weyl

    return DTS + [round(float(0.02 + 0.2 * abs(weyl(seed, 5, 1)[0])), 4)]


def cases(tier, seed):
    out = []
    for s in SOLVERS:
        for t0 in T0S:
            for dt in _dts(seed):
                out.append({"kind": "grid", "solver": s, "t0": t0, "dt": dt, "kmax": 30 if tier == "thorough" else 12})
    for sysname in ("pm", "pendulum", "ball", "pm_pendulum"):
        for s in SOLVERS:
            out.append({"kind": "object", "solver": s, "system": sysname})
    # truncated runs (a forced non-convergence, see vp/core/faults.py): the returned object must still be a consistent Solution
    for s, sysname, npts in (("BackwardEuler", "ball", 8), ("BackwardEuler", "pendulum", 6), ("Newton", "static_pm", 4), ("ScipyIVP", "pendulum", 1), ("ScipyDAE", "pendulum", 1)):
        for k in range(npts):
            out.append({"kind": "object", "solver": s, "system": sysname, "truncate_at": k})
    out.append({"kind": "object", "solver": "Riks", "system": "truss"})
    out.append({"kind": "object", "solver": "Newton", "system": "static_pm"})
    return out


def _check_grid(case):
    from vp.core.quiet import quiet

    fails, evals, nt = [], 0, 0
    t0, dt, name = case["t0"], case["dt"], case["solver"]
    ks = [(k, 0.0) for k in range(1, case["kmax"] + 1)] + [(k, 0.35) for k in (1, 2, 5, 10)]
    outcomes = set()
    for k, frac in ks:
        t1 = t0 + dt * (k + frac)
        if frac == 0.0 and t0 == 0.0:
            t1 = dt * k  # the literal a user would type, e.g. 0.1*3
        evals += 1
        letters = {"solver": name, "t0": t0, "dt": dt, "k": k, "frac": frac, "t1": t1}
        system = _pm_system(t0)
        try:
            with quiet():
                sol = _solver(name, system, t1, dt).solve()
        except Exception as e:
            fails.append({"site": f"{name}: solve raises on a valid time grid", "msg": f"{letters}: {type(e).__name__}: {e}", "data": letters})
            continue
        nt += 1
        t = np.asarray(sol.t, float)
        if abs(t[0] - t0) > 1e-12 * (1 + abs(t0)):
            fails.append({"site": f"{name}: time grid does not start at t0", "msg": f"{letters}: t[0]={t[0]}", "data": letters})
        d = np.diff(t)
        if len(d) and np.max(np.abs(d - dt)) > 1e-9 * dt:
            fails.append({"site": f"{name}: time grid does not advance with the requested step", "msg": f"{letters}: max |diff-dt| = {np.max(np.abs(d - dt)):.3e}", "data": letters})
        eps = 1e-9 * dt
        n_expected = int(math.ceil((t1 - t0) / dt - 1e-9))
        n_got = len(t) - 1
        letters2 = dict(letters, steps=n_got, steps_expected=n_expected, t_last=float(t[-1]))
        if t[-1] < t1 - eps:
            outcomes.add("short")
            fails.append({"site": f"{name}: time grid ends before the final time", "msg": f"{letters2}", "data": letters2})
        elif len(t) >= 2 and t[-2] >= t1 - eps:
            outcomes.add("extra_step")
            fails.append({"site": f"{name}: time grid has an extra step beyond the first grid point at or after the final time", "msg": f"{letters2}", "data": letters2})
        else:
            outcomes.add("exact")
        f2 = _check_fields(sol, system, name, letters)
        fails.extend(f2)
    return fails, evals, nt, outcomes


def _fields(sol):
    out = {}
    for k, v in sol.__dict__.items():
        if k in ("system", "solver_summary", "t"):
            continue
        out[k] = v
    return out


def _check_fields(sol, system, name, letters):
    fails = []
    nt = len(sol.t)
    for k, v in _fields(sol).items():
        if v is None:
            continue
        a = np.asarray(v)
        if a.ndim == 0:
            continue
        if a.shape[0] != nt:
            fails.append({"site": f"{name}: field '{k}' does not have one row per time instant", "msg": f"{letters}: shape {a.shape}, len(t)={nt}", "data": dict(letters, field=k)})
            continue
        if k in WIDTH and a.ndim == 2:
            w = getattr(system, WIDTH[k])
            if a.shape[1] != w:
                fails.append({"site": f"{name}: field '{k}' does not have the system dimension as width", "msg": f"{letters}: shape {a.shape}, {WIDTH[k]}={w}", "data": dict(letters, field=k)})
    return fails


def _object_system(name):
    from vp.scen import mech
    from vp.props import c21

    if name == "pm":
        return _pm_system(0.2)
    if name == "pendulum":
        return mech.pendulum(t0=0.2, spring=(5.0, 0.2))
    if name == "ball":
        return mech.ball_on_plane(t0=0.2, mu=0.3, v=(0.4, 0.1, 0.0), om=(0, 2.0, 0))
    if name == "pm_pendulum":
        return mech.pm_pendulum(t0=0.2)
    if name == "truss":
        return c21._truss()
    if name == "static_pm":
        return c21._static_pm()
    raise KeyError(name)


def _check_object(case):
    import cardillo.solver as S
    from cardillo.solver import load_solution
    from vp.core.quiet import quiet

    name, sysname = case["solver"], case["system"]
    fails = []
    system = _object_system(sysname)
    letters = {"solver": name, "system": sysname}
    trunc = case.get("truncate_at")
    if trunc is not None:
        from vp.core import faults
        from vp.props.c21 import DYN

        letters["truncate_at"] = trunc
        plan = faults.Plan((trunc,))
        cfg = DYN[name]
        with quiet():
            with faults.Interposer(plan, modules=cfg.get("modules", ()), scipy_mod=cfg.get("scipy_mod")):
                try:
                    if name == "Newton":
                        sol = S.Newton(system, n_load_steps=3, verbose=False).solve()
                    else:
                        sol = _solver(name, system, 0.2 + 0.07, 0.01).solve()
                except Exception:
                    return [], 1, 0, {f"object:{name}:truncated:raised"}
        if not any(r["forced"] and r["effective"] for r in plan.log):
            return [], 1, 0, {f"object:{name}:truncated:void"}
    with quiet():
        if trunc is not None:
            pass
        elif name == "Newton":
            sol = S.Newton(system, n_load_steps=3, verbose=False).solve()
        elif name == "Riks":
            sol = S.Riks(system, la_arc_span=[-0.2, 0.2], la_arc0=1e-3, iter_goal=3, max_load_steps=5).solve()
        else:
            sol = _solver(name, system, 0.2 + 0.07, 0.01).solve()
    nt = len(sol.t)
    fails += _check_fields(sol, system, name, letters)
    # iteration: one record per instant, equal to the rows
    try:
        recs = list(sol)
    except Exception as e:
        fails.append({"site": f"iterating the solution raises [{name}]", "msg": f"{letters}: {type(e).__name__}: {e}", "data": letters})
        recs = None
    if recs is not None:
        if len(recs) != nt:
            fails.append({"site": f"iteration does not yield one record per instant [{name}]", "msg": f"{letters}: {len(recs)} records, {nt} instants", "data": letters})
        else:
            fields = dict(_fields(sol), t=sol.t)
            for i, r in enumerate(recs):
                for k, v in fields.items():
                    got = getattr(r, k, "missing")
                    if isinstance(got, str) and got == "missing":
                        fails.append({"site": f"iteration record lacks field [{name}]", "msg": f"{letters}: {k}", "data": dict(letters, field=k)})
                        break
                    exp = None if v is None else np.asarray(v)[i]
                    same = (got is None and exp is None) or (got is not None and exp is not None and np.array_equal(np.asarray(got), exp))
                    if not same:
                        fails.append({"site": f"iteration record differs from the stored row [{name}]", "msg": f"{letters}: field {k} row {i}", "data": dict(letters, field=k, row=i)})
                        break
    # save / load round trip
    d = tempfile.mkdtemp(prefix="vp_c20_")
    path = os.path.join(d, "sol.dill")
    try:
        try:
            sol.save(path)
            back = load_solution(path)
        except Exception as e:
            fails.append({"site": f"save/load raises [{name}]", "msg": f"{letters}: {type(e).__name__}: {e}", "data": letters})
            back = None
        if back is not None:
            a, b = dict(_fields(sol), t=sol.t), dict(_fields(back), t=back.t)
            if set(a) != set(b):
                fails.append({"site": f"save/load changes the set of fields [{name}]", "msg": f"{letters}: {sorted(set(a) ^ set(b))}", "data": letters})
            for k in a:
                if k in b:
                    va, vb = a[k], b[k]
                    same = (va is None and vb is None) or (va is not None and vb is not None and np.array_equal(np.asarray(va), np.asarray(vb)))
                    if not same:
                        fails.append({"site": f"save/load does not preserve a field [{name}]", "msg": f"{letters}: {k}", "data": dict(letters, field=k)})
            # a DIFFERENT solution saved under the same file name must be what the next load returns
            from cardillo.solver import Solution

            m = max(1, nt // 2) if nt else 0
            short = Solution(system, np.asarray(sol.t)[:m], np.asarray(sol.q)[:m], u=None if sol.u is None else np.asarray(sol.u)[:m])
            try:
                short.save(path)
                back2 = load_solution(path)
                ok2 = len(back2.t) == m and np.array_equal(np.asarray(back2.q), np.asarray(sol.q)[:m])
            except Exception as e:
                ok2 = False
            if not ok2:
                fails.append({"site": f"loading a file that was overwritten returns stale data [{name}]", "msg": f"{letters}", "data": letters})
            # the file name in its other legitimate forms: a bare name (current directory), a relative path, a pathlib.Path
            from pathlib import Path

            cwd = os.getcwd()
            try:
                os.chdir(d)
                os.makedirs("sub", exist_ok=True)
                for form, fn in (("bare name", "bare.dill"), ("relative path", os.path.join("sub", "rel.dill")), ("Path object", Path("p.dill"))):
                    try:
                        sol.save(fn)
                        b3 = load_solution(fn)
                        ok3 = len(b3.t) == len(sol.t) and np.array_equal(np.asarray(b3.q), np.asarray(sol.q))
                        msg3 = "loaded solution differs"
                    except Exception as e:  # noqa
                        ok3, msg3 = False, f"{type(e).__name__}: {e}"
                    if not ok3:
                        fails.append({"site": f"save/load with the file name given as a {form} [{name}]", "msg": f"{letters}: {msg3}", "data": dict(letters, form=form)})
            finally:
                os.chdir(cwd)
                import shutil

                shutil.rmtree(os.path.join(d, "sub"), ignore_errors=True)
                for fn in ("bare.dill", "p.dill"):
                    try:
                        os.remove(os.path.join(d, fn))
                    except OSError:
                        pass
    finally:
        try:
            if os.path.exists(path):
                os.remove(path)
            os.rmdir(d)
        except OSError:
            pass
    return fails, 1, max(nt, 1 if trunc is not None else 0), {f"object:{name}" + (":truncated" if trunc is not None else "")}


def check(case):
    if case["kind"] == "grid":
        fails, evals, nt, outcomes = _check_grid(case)
    else:
        fails, evals, nt, outcomes = _check_object(case)
    seen, cnt = {}, {}
    for f in fails:
        cnt[f["site"]] = cnt.get(f["site"], 0) + 1
        seen.setdefault(f["site"], f)
    for k, f in seen.items():
        f["data"]["count_in_case"] = cnt[k]
    return {"fails": list(seen.values()), "nontrivial": nt > 0, "evals": evals, "outcome": sorted(outcomes), "stats": {"solutions": nt}}
