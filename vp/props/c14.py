"""C14  System assembly is a faithful, repeatable scatter; the registry stays consistent.

Engine E2: every operation history (add / remove / pop / extend / assemble, assemble again) over a pool
of seven contributions is executed on a fresh real System; after the last operation of every history
the registry is compared with a reference model (ordered list + dict) and, after assemble, the DOF
layout with a reference partition computed from the contributions' intrinsic dimensions and every
System evaluation method with a dense reference scatter  out[rows, cols] += local.
Engine E1 part: every contribution type alone and every pair of types, assembled once and twice.
"""
import itertools

import numpy as np

import cardillo  # noqa: F401  (imported in the parent so that forked workers / re-executions do not pay the import)
import cardillo.constraints, cardillo.forces, cardillo.force_laws, cardillo.actuators, cardillo.contacts, cardillo.interactions  # noqa
import cardillo.rods, cardillo.rods.cosseratRod  # noqa
from vp.scen import systems as sc

ID = "C14"
LEVEL = "model_checking"
RULE = (
    "history part: all operation sequences over the 20-letter alphabet {add:x, remove:x (x in pool of 7: two "
    "RigidBodies with equal default name, PointMass, Revolute(A,B), Force(A), Sphere2Plane(P), synthetic "
    "all-quantities contribution), pop:0, pop:-1, extend:[A,B], extend:[R,F], extend:[P,C,X], assemble} up to "
    "depth 4 (quick; thorough adds depth 5 restricted to histories whose non-final operations are all legal), "
    "each replayed on a fresh System; checks after the last operation; 'assemble' is enabled only when the "
    "dependency closure of the registered contributions is registered; one case per (depth, first two letters). "
    "pair part: 26 contribution types (bodies, moving frame, 6 joints, forces/moments, force laws in both forms, "
    "Maxwell, Motor/PD/PID, contacts, rod, synthetic), each alone and every unordered pair in both registration "
    "orders, assembled twice. naming part: all sequences up to depth 5 (thorough 6) over {add nameless, add named contr1..contr4, "
    "add named x, pop:1, pop:-1, remove first nameless} on a fresh never-assembled System, one case per first letter. A case is non-trivial if at least one of its histories ends in a state-changing "
    "operation or an assemble whose evaluations were compared"
)
ASSUMPTIONS = [
    "oracle registry = ordered list of pool ids + expected legality of each operation (add of a registered / remove of an unregistered contribution must raise ValueError and change nothing)",
    "oracle layout = offsets accumulated over the registered contributions' intrinsic dimensions (read from the fresh objects before any assembly); evaluation DOFs of dependent contributions = concatenation of their subsystems' reference DOFs",
    "oracle scatter = dense numpy out[rows, cols] += local with the reference index sets; tolerance 1e-12 * scale (summation order only)",
    "a System method is compared only if every contributing local quantity exists, evaluates and has block shape (otherwise counted as skipped_local_*: a defect of the local routine is not an assembly defect)",
    "assemble with an unregistered dependency is outside the property (letter disabled); histories are not continued past an assemble that raised",
    "pair part assembles with compute_consistent_initial_conditions=False (pairs of redundant joints make the initial linear system singular, which is not an assembly defect); the history part uses the default assemble()",
]
MIN_NONTRIVIAL = 50
CASE_TIMEOUT = 600
TOL = 1e-12

POOL_KEYS = ["A", "B", "P", "R", "F", "C", "X"]
EXTENDS = [["A", "B"], ["R", "F"], ["P", "C", "X"]]
STARTS = [
    ["extend:A,B", "add:P", "assemble"],   # an assembled system with mass-carrying contributions, then swap / reorder / re-assemble
    ["add:X", "add:A", "add:B"],            # a registry in which a name collision has already been resolved
]
LETTERS = (
    [f"add:{k}" for k in POOL_KEYS]
    + ["assemble"]
    + [f"extend:{','.join(e)}" for e in EXTENDS]
    + [f"remove:{k}" for k in POOL_KEYS]
    + ["pop:0", "pop:-1"]
)


# ------------------------------------------------------------------------------------------------
# case enumeration
# ------------------------------------------------------------------------------------------------
def cases(tier, seed):
    out = []
    nl = len(LETTERS)
    for i in range(nl):
        out.append({"kind": "hist", "depth": 1, "prefix": [i], "seed": seed, "nstates": 2})
    def hist(d):
        for i in range(nl):
            for j in range(nl):
                out.append({"kind": "hist", "depth": d, "prefix": [i, j], "seed": seed, "nstates": 1 if tier == "quick" else 2})

    hist(2)
    hist(3)
    names = pair_type_names()
    for a in names:
        out.append({"kind": "pair", "types": [a], "seed": seed})
    for a, b in itertools.permutations(names, 2):
        out.append({"kind": "pair", "types": [a, b], "seed": seed})
    # start from non-initial states too: fixed legal start histories, then all continuations up to depth 3
    for start in STARTS:
        st = [LETTERS.index(x) for x in start]
        for i in range(nl):
            out.append({"kind": "hist", "depth": 1, "prefix": [i], "seed": seed, "nstates": 1, "start": st})
        for d in (2, 3):
            for i in range(nl):
                for j in range(nl):
                    out.append({"kind": "hist", "depth": d, "prefix": [i, j], "seed": seed, "nstates": 1, "start": st})
    hist(4)
    # naming part: contributions WITHOUT a name attribute (actuators, user-defined ones) meeting given names of the default form
    for i in range(len(NAME_LETTERS)):
        out.append({"kind": "names", "first": i, "depth": 5 if tier == "quick" else 6, "seed": seed})
    if tier != "quick":
        for i in range(nl):
            for j in range(nl):
                out.append({"kind": "hist", "depth": 5, "prefix": [i, j], "seed": seed, "nstates": 1, "legal_prefix_only": True})
    return out


# ------------------------------------------------------------------------------------------------
# reference registry model + driver for one history
# ------------------------------------------------------------------------------------------------
class Dead(Exception):
    """history cannot be continued (disabled letter, or a non-final operation already deviated /
    assemble raised - reported by the shorter history)"""


class Run:
    def __init__(self, seed):
        from cardillo import System

        self.sys = System()
        self.items = {it.key: it for it in sc.history_pool(self.sys, seed)}
        self.items["O"] = sc.Item("O", self.sys.origin)
        self.reg = ["O"]
        self.stale = {}  # name -> kind of the operation that unregistered the object carrying it
        self.n_assembled = 0
        self.assembled_objs = set()  # keys that went through a successful or attempted assembly
        self.snap = None  # snapshot of the last assemble, valid while the model is unchanged
        self.renamed = 0

    # ---- model
    def closure_ok(self):
        return all(d in self.reg for k in self.reg for d in self.items[k].deps)

    def expect(self, op):
        """-> (legal, new_reg, exc_types)"""
        kind, _, arg = op.partition(":")
        reg = list(self.reg)
        if kind == "add":
            if arg in reg:
                return False, reg, (ValueError,)
            return True, reg + [arg], ()
        if kind == "remove":
            if arg not in reg:
                return False, reg, (ValueError,)
            reg.remove(arg)
            return True, reg, ()
        if kind == "pop":
            if not reg:
                return False, reg, (IndexError, ValueError)
            reg.pop(int(arg))
            return True, reg, ()
        if kind == "extend":
            for k in arg.split(","):
                if k in reg:
                    return False, reg, (ValueError,)
                reg.append(k)
            return True, reg, ()
        if kind == "assemble":
            return True, reg, ()
        raise AssertionError(op)

    def call(self, op):
        kind, _, arg = op.partition(":")
        s = self.sys
        if kind == "add":
            s.add(self.items[arg].obj)
        elif kind == "remove":
            s.remove(self.items[arg].obj)
        elif kind == "pop":
            s.pop(int(arg))
        elif kind == "extend":
            s.extend([self.items[k].obj for k in arg.split(",")])
        elif kind == "assemble":
            s.assemble()

    def cur_items(self):
        return [self.items[k] for k in self.reg]


def _exc(e):
    return f"{type(e).__name__}: {e}"


def check_registry(run, fails, data):
    s = run.sys
    cur = [run.items[k].obj for k in run.reg]
    if len(s.contributions) != len(cur) or any(a is not b for a, b in zip(s.contributions, cur)):
        fails.append({"site": "registry: contributions list != reference model", "msg": f"history {data['history']}",
                      "data": dict(data, got=[getattr(c, 'name', '?') for c in s.contributions], want=list(run.reg))})
        return
    names = [getattr(c, "name", None) for c in cur]
    if len(set(names)) != len(names) or None in names:
        fails.append({"site": "registry: names of registered contributions not unique", "msg": f"names {names}; history {data['history']}",
                      "data": dict(data, names=names)})
    cmap = s.contributions_map
    missing = [n for c, n in zip(cur, names) if cmap.get(n) is not c]
    if missing:
        fails.append({"site": "registry: registered contribution missing from contributions_map (or mapped to another object)",
                      "msg": f"{missing}; history {data['history']}", "data": dict(data, missing=missing)})
    extra = sorted(set(cmap) - set(names))
    if extra:
        causes = sorted({run.stale.get(n, "unexplained") for n in extra})
        fails.append({"site": "registry: contributions_map lists names that belong to no registered contribution (stale entry)",
                      "msg": f"stale {extra} (unregistered by {causes}); registered {names}; history {data['history']}",
                      "data": dict(data, stale=extra, stale_causes="+".join(causes))})


def snapshot_layout(run):
    s = run.sys
    snap = {"dims": {a: int(getattr(s, a)) for a in sc.SYSDIM.values()}}
    for it in run.cur_items():
        for attr in list(sc.DOFATTR.values()) + ["qDOF", "uDOF"]:
            v = getattr(it.obj, attr, None)
            if v is not None:
                snap[f"{it.key}.{attr}"] = np.array(v).copy()
    for a in ("q0", "u0", "q_dot0", "u_dot0", "la_g0", "la_gamma0", "la_c0", "la_N0", "la_F0", "e_N", "e_F"):
        snap["sys." + a] = np.array(getattr(s, a)).copy()
    return snap


def sys_evals(system, S):
    out = {}
    for m in sc.METHODS:
        try:
            out[m[0]] = sc._dense(m[5](system, S))
        except Exception as e:  # noqa
            out[m[0]] = _exc(e)
    return out


def compare_snap(old, new, fails, data, what):
    diff = []
    for k in sorted(set(old) | set(new)):
        a, b = old.get(k), new.get(k)
        if isinstance(a, dict) or isinstance(b, dict):
            if a != b:
                diff.append(k)
        elif isinstance(a, str) or isinstance(b, str):
            if not (isinstance(a, str) and isinstance(b, str)):
                diff.append(k)
        elif a is None or b is None or np.shape(a) != np.shape(b) or not np.array_equal(a, b):
            diff.append(k)
    if diff:
        fails.append({"site": f"assemble again: {what} changed", "msg": f"{diff[:8]}; history {data['history']}",
                      "data": dict(data, changed=diff[:20])})


def states_for(items, seed, nstates):
    L, tot = sc.ref_layout(items)
    q0 = np.concatenate([it.q0 for it in items if "q" in it.dims] + [np.zeros(0)])
    return L, tot, q0, [sc.make_state(tot, q0, seed, k) for k in range(nstates)]


def check_layout(system, items, L, tot, q0, fails, data):
    ok = True
    bad = []
    for k, attr in sc.SYSDIM.items():
        if int(getattr(system, attr)) != tot[k]:
            bad.append(f"{attr}={getattr(system, attr)} want {tot[k]}")
    if bad:
        ok = False
        fails.append({"site": "layout: system dimension != sum of the contributions' dimensions", "msg": f"{bad}; history {data['history']}", "data": dict(data, bad=bad)})
    bad = []
    for it in items:
        for k in sc.KINDS:
            if k in it.dims:
                got = getattr(it.obj, sc.DOFATTR[k], None)
                if got is None or not np.array_equal(np.asarray(got), L[it.key][k]):
                    bad.append(f"{it.key}.{sc.DOFATTR[k]}")
    if bad:
        ok = False
        fails.append({"site": "layout: per-contribution index sets != reference partition", "msg": f"{bad}; history {data['history']}", "data": dict(data, bad=bad)})
    bad = []
    for it in items:
        for attr in ("qDOF", "uDOF"):
            got = getattr(it.obj, attr, None)
            if got is None or not np.array_equal(np.asarray(got), L[it.key][attr]):
                bad.append(f"{it.key}.{attr}")
    if bad:
        ok = False
        fails.append({"site": "layout: evaluation DOFs (qDOF/uDOF) != DOFs of the subsystems", "msg": f"{bad}; history {data['history']}", "data": dict(data, bad=bad)})
    u0 = np.concatenate([it.u0 for it in items if "u" in it.dims] + [np.zeros(0)])
    # System.q0 went through step_callback (quaternion normalisation of unit quaternions: rounding only)
    if np.shape(system.q0) != q0.shape or np.shape(system.u0) != u0.shape or (q0.size and np.max(np.abs(system.q0 - q0)) > 1e-12) or (u0.size and np.max(np.abs(system.u0 - u0)) > 1e-12):
        ok = False
        fails.append({"site": "layout: assembled q0/u0 != concatenation of the contributions' q0/u0", "msg": f"history {data['history']}", "data": dict(data)})
    return ok


def check_evals(system, items, L, tot, states, fails, data, stats):
    """every System evaluation method vs dense reference scatter; returns number of compared evaluations"""
    n = 0
    for si, S in enumerate(states):
        for m in sc.METHODS:
            name = m[0]
            try:
                ref, ncon = sc.ref_eval(m, items, L, tot, S)
            except sc.LocalProblem as e:
                key = "skipped_local_" + name
                stats[key] = stats.get(key, 0) + 1
                continue
            try:
                got = m[5](system, S)
            except Exception as e:  # noqa
                fails.append({"site": f"System.{name} raises", "msg": f"{_exc(e)}; history {data['history']}", "data": dict(data, exc=_exc(e), method=name)})
                continue
            n += 1
            if ncon:
                stats["n_nonempty_evals"] = stats.get("n_nonempty_evals", 0) + 1
            if m[1] == "s":
                err = abs(float(got) - float(ref))
                scale = max(1.0, abs(float(ref)))
            else:
                got = sc._dense(got)
                if got.shape != ref.shape:
                    fails.append({"site": f"System.{name} != dense reference scatter", "msg": f"shape {got.shape} vs {ref.shape}; history {data['history']}",
                                  "data": dict(data, method=name, shape=list(got.shape), want=list(ref.shape))})
                    continue
                err = float(np.max(np.abs(got - ref))) if got.size else 0.0
                scale = max(1.0, float(np.max(np.abs(ref)))) if ref.size else 1.0
                if got.size and not np.all(np.isfinite(got)):
                    err = float("inf")
            stats["max_err_scatter"] = max(stats.get("max_err_scatter", 0.0), err / scale if np.isfinite(err) else 1e300)
            if not err <= TOL * scale:
                fails.append({"site": f"System.{name} != dense reference scatter", "msg": f"max err {err:.3e} (scale {scale:.2e}), state {si}; history {data['history']}",
                              "data": dict(data, method=name, err=err, state=si)})
    return n


def check_step_callback(system, items, L, states, fails, data):
    """last check of a history: step callbacks may be stateful (Sphere2Sphere updates its reference contact basis)"""
    n = 0
    for S in states:
        qr, ur, ncb = sc.ref_step_callback(items, L, S)
        try:
            qg, ug = system.step_callback(S.t, S.q.copy(), S.u.copy())
            n += 1
            if np.shape(qg) != qr.shape or np.shape(ug) != ur.shape or (qr.size and np.max(np.abs(qg - qr)) > TOL) or (ur.size and np.max(np.abs(ug - ur)) > TOL):
                fails.append({"site": "System.step_callback != contributions' step callbacks at their DOFs", "msg": f"history {data['history']}", "data": dict(data)})
        except Exception as e:  # noqa
            fails.append({"site": "System.step_callback raises", "msg": f"{_exc(e)}; history {data['history']}", "data": dict(data, exc=_exc(e))})
    return n


def run_history(hist, seed, nstates, fails, stats, legal_prefix_only=False):
    """returns (evals, nontrivial, outcome) ; raises Dead for histories outside the space"""
    run = Run(seed)
    names = [LETTERS[i] for i in hist]
    evals = 0
    for j, op in enumerate(names):
        last = j == len(names) - 1
        kind = op.partition(":")[0]
        legal, new_reg, exc_types = run.expect(op)
        if legal_prefix_only and not last and not legal:
            raise Dead("illegal op in prefix")
        data = {"history": names[: j + 1], "last_op": op, "last_kind": kind, "depth": len(names)}
        if kind == "assemble":
            if not run.closure_ok():
                raise Dead("assemble disabled: dependency not registered")
            items = run.cur_items()
            data["n_prev_assembles"] = run.n_assembled
            data["contact_assembled_before"] = bool(any("s2p" in it.tags and it.key in run.assembled_objs for it in items))
            data["registered"] = list(run.reg)
            data["n_mass_contr"] = sum(1 for it in items if callable(getattr(it.obj, "M", None)))
            want_snap = (not last) and names[-1] == "assemble" and _nochange_between(run, names[j + 1: -1])
            try:
                run.call(op)
            except Exception as e:  # noqa
                run.assembled_objs.update(run.reg)
                if last:
                    fails.append({"site": "assemble raises", "msg": f"{_exc(e)}; history {names}", "data": dict(data, exc=_exc(e))})
                    return evals + 1, True, "assemble:raises"
                raise Dead("assemble raised in prefix")
            run.n_assembled += 1
            run.assembled_objs.update(run.reg)
            if not last:
                if want_snap:
                    L, tot, q0, states = states_for(items, seed, nstates)
                    run.snap = (snapshot_layout(run), [sys_evals(run.sys, S) for S in states])
                continue
            # ---- last operation is assemble: full check
            check_registry(run, fails, data)
            L, tot, q0, states = states_for(items, seed, nstates)
            ok = check_layout(run.sys, items, L, tot, q0, fails, data)
            evals += 1
            if ok:
                evals += check_evals(run.sys, items, L, tot, states, fails, data, stats)
            if run.snap is not None:
                compare_snap(run.snap[0], snapshot_layout(run), fails, data, "layout / initial state")
                for S, old in zip(states, run.snap[1]):
                    compare_snap(old, sys_evals(run.sys, S), fails, data, "evaluations")
                stats["n_reassemble_compared"] = stats.get("n_reassemble_compared", 0) + 1
            if ok:
                evals += check_step_callback(run.sys, items, L, states, fails, data)
            if run.snap is not None:
                return evals, True, "assemble:again"
            return evals, True, "assemble:first" if run.n_assembled == 1 else "assemble:after_change"

        # ---- registry operation
        before = [getattr(c, "name", None) for c in run.sys.contributions]
        raised = None
        try:
            run.call(op)
        except Exception as e:  # noqa
            raised = e
        evals += 1
        if legal:
            if raised is not None:
                if last:
                    fails.append({"site": "legal registry operation raises", "msg": f"{_exc(raised)}; history {names}", "data": dict(data, exc=_exc(raised))})
                    return evals, True, kind + ":legal_raises"
                raise Dead("deviation in prefix")
            # bookkeeping of the reference model
            removed = [k for k in run.reg if k not in new_reg]
            for k in removed:
                run.stale[run.items[k].obj.name] = kind
            added = [k for k in new_reg if k not in run.reg]
            run.reg = new_reg
            if removed or added:
                run.snap = None
        else:
            if raised is None or not isinstance(raised, exc_types):
                if last:
                    fails.append({"site": "illegal registry operation not rejected", "msg": f"{op}: {_exc(raised) if raised else 'no exception'}; history {names}",
                                  "data": dict(data, exc=_exc(raised) if raised else None)})
                    return evals, True, kind + ":illegal_accepted"
                raise Dead("deviation in prefix")
            if kind == "extend":
                # sequential semantics: elements before the offending one are added
                for k in op.partition(":")[2].split(","):
                    if k in run.reg:
                        break
                    run.reg.append(k)
                    run.snap = None
        if last:
            check_registry(run, fails, data)
            after = [getattr(c, "name", None) for c in run.sys.contributions]
            return evals, bool(legal), kind + (":legal" if legal else ":rejected")
    return evals, False, "empty"


def _nochange_between(run, ops):
    """True if, according to the reference model, none of ops changes the registry (illegal or assemble)"""
    reg = list(run.reg)
    for op in ops:
        kind, _, arg = op.partition(":")
        if kind == "assemble":
            continue
        if kind == "add" and arg in reg:
            continue
        if kind == "remove" and arg not in reg:
            continue
        if kind == "pop" and not reg:
            continue
        if kind == "extend" and arg.split(",")[0] in reg:
            continue
        return False
    return True


# ------------------------------------------------------------------------------------------------
# pair part
# ------------------------------------------------------------------------------------------------
def pair_type_names():
    return list(sc.PAIR_TYPES)


def check_pair(case):
    from cardillo import System
    from cardillo.solver import SolverOptions

    fails, stats = [], {}
    seed = case["seed"]
    system = System()
    ctx = sc.PairContext(system, seed)
    items = [sc.Item("O", system.origin)]
    for tname in case["types"]:
        for it in ctx.build(tname):
            if all(it.obj is not jt.obj for jt in items):
                items.append(it)
    for it in items[1:]:
        system.add(it.obj)
    data = {"history": ["add:" + "+".join(case["types"]), "assemble"], "last_op": "assemble", "last_kind": "assemble",
            "types": list(case["types"]), "n_prev_assembles": 0, "contact_assembled_before": False,
            "n_mass_contr": sum(1 for it in items if callable(getattr(it.obj, "M", None)))}
    opts = SolverOptions(compute_consistent_initial_conditions=False)
    try:
        system.assemble(options=opts)
    except Exception as e:  # noqa
        fails.append({"site": "assemble raises", "msg": f"{_exc(e)}; types {case['types']}", "data": dict(data, exc=_exc(e))})
        return {"fails": fails, "nontrivial": True, "evals": 1, "outcome": "pair:assemble_raises", "states": 1, "transitions": 1}
    L, tot, q0, states = states_for(items, seed, 2)
    evals = 1
    ok = check_layout(system, items, L, tot, q0, fails, data)
    if ok:
        evals += check_evals(system, items, L, tot, states, fails, data, stats)
    run = type("R", (), {})()
    run.sys = system
    run.cur_items = lambda: items
    snap = (snapshot_layout(run), [sys_evals(system, S) for S in states])
    data2 = dict(data, history=data["history"] + ["assemble"], n_prev_assembles=1,
                 contact_assembled_before=bool(any("s2p" in it.tags for it in items)))
    try:
        system.assemble(options=opts)
    except Exception as e:  # noqa
        fails.append({"site": "assemble raises", "msg": f"{_exc(e)}; types {case['types']} (second assemble)", "data": dict(data2, exc=_exc(e))})
        return {"fails": _dedup(fails), "nontrivial": True, "evals": evals, "outcome": "pair:reassemble_raises", "stats": stats, "states": 2, "transitions": 2}
    compare_snap(snap[0], snapshot_layout(run), fails, data2, "layout / initial state")
    for S, old in zip(states, snap[1]):
        compare_snap(old, sys_evals(system, S), fails, data2, "evaluations")
    stats["n_reassemble_compared"] = 1
    if ok:
        evals += check_step_callback(system, items, L, states, fails, data2)
    # distributing a global actuator input: every actuator reads its own entries (vector and callable form)
    acts = [c for c in system.contributions if hasattr(c, "tauDOF") and len(np.atleast_1d(c.tauDOF))]
    if ok and len(acts) >= 1 and system.ntau >= 1:
        vec = 10.0 * (1.0 + np.arange(system.ntau, dtype=float))
        for form, arg in (("vector", vec), ("callable", lambda t: vec + t)):
            try:
                system.set_tau(arg)
                for c in acts:
                    want = (vec + (0.5 if form == "callable" else 0.0))[np.atleast_1d(c.tauDOF)]
                    got = np.atleast_1d(np.asarray(c.tau(0.5), float))
                    evals += 1
                    if got.shape != want.shape or np.max(np.abs(got - want)) > 0:
                        fails.append({"site": "System.set_tau: actuator does not read its own entries of the global input",
                                      "msg": f"{c.name}: tau = {got.tolist()} expected {want.tolist()} ({form} input, ntau={system.ntau}); types {case['types']}",
                                      "data": dict(data2, form=form, n_actuators=len(acts))})
            except Exception as e:  # noqa
                fails.append({"site": "System.set_tau raises", "msg": f"{_exc(e)}; types {case['types']}", "data": dict(data2, exc=_exc(e))})
        stats["n_set_tau_checked"] = 1
    return {"fails": _dedup(fails), "nontrivial": True, "evals": evals + 1, "outcome": "pair:ok", "stats": stats, "states": 3, "transitions": 2}


# ------------------------------------------------------------------------------------------------
NAME_LETTERS = ["nameless", "contr1", "contr2", "contr3", "contr4", "x", "pop:1", "pop:-1", "remove:first_nameless"]


class _Bare:
    """user-defined contribution without any attribute (in particular without a name), like the actuators"""


def check_names(case):
    """All sequences over NAME_LETTERS up to the given depth on a fresh System (never assembled): every registered contribution has a
    name, names are unique, and contributions_map is exactly {name: object} of the registered ones - whatever mix of defaulted and
    given names of the default form 'contr<k>' arrives."""
    import contextlib, io
    from cardillo import System

    fails, evals, states = [], 0, 0
    L = NAME_LETTERS
    seen_sites = set()
    for d in range(1, case["depth"] + 1):
        for tail in itertools.product(range(len(L)), repeat=d - 1):
            hist = [L[case["first"]]] + [L[i] for i in tail]
            with contextlib.redirect_stdout(io.StringIO()):
                s = System()
                ref = [s.origin]
                nameless = []
                dead = False
                for op in hist:
                    if op == "nameless":
                        o = _Bare(); nameless.append(o); s.add(o); ref.append(o)
                    elif op.startswith("contr") or op == "x":
                        o = _Bare(); o.name = op; s.add(o); ref.append(o)
                    elif op.startswith("pop"):
                        k = int(op[4:])
                        if len(ref) < 2:
                            dead = True; break
                        got = s.pop(k); want = ref.pop(k)
                        if got is not want:
                            fails.append({"site": "registry(names): pop returns another object", "msg": f"history {hist}", "data": {"history": hist}})
                    else:
                        live = [o for o in nameless if any(o is r for r in ref)]
                        if not live:
                            dead = True; break
                        s.remove(live[0]); ref = [r for r in ref if r is not live[0]]
            if dead:
                continue
            evals += 1; states += 1
            cur = list(s.contributions)
            names = [getattr(c, "name", None) for c in cur]
            bad = None
            if len(cur) != len(ref) or any(a is not b for a, b in zip(cur, ref)):
                bad = "registry(names): contributions list != reference model"
            elif None in names or len(set(names)) != len(names):
                bad = "registry: names of registered contributions not unique"
            elif any(s.contributions_map.get(n) is not c for c, n in zip(cur, names)):
                bad = "registry: registered contribution missing from contributions_map (or mapped to another object)"
            elif set(s.contributions_map) != set(names):
                bad = "registry: contributions_map lists names that belong to no registered contribution (stale entry)"
            if bad and bad not in seen_sites:
                seen_sites.add(bad)
                fails.append({"site": bad, "msg": f"names {names}, map {sorted(s.contributions_map)}; history {hist}", "data": {"history": hist, "names": [str(n) for n in names]}})
    return {"fails": fails, "nontrivial": evals > 0, "evals": evals, "states": states, "transitions": states, "outcome": "names:ok" if not fails else "names:bad",
            "stats": {"n_name_histories": evals}}


def check(case):
    if case["kind"] == "pair":
        return check_pair(case)
    if case["kind"] == "names":
        return check_names(case)
    depth = case["depth"]
    prefix = list(case["prefix"])
    fails, stats = [], {}
    evals = states = transitions = 0
    nontrivial = False
    outcomes = {}
    canon = set()
    nl = len(LETTERS)
    for tail in itertools.product(range(nl), repeat=depth - len(prefix)):
        hist = list(case.get("start", [])) + prefix + list(tail)
        local = []
        try:
            e, nt, oc = run_history(hist, case["seed"], case.get("nstates", 1), local, stats, case.get("legal_prefix_only", False))
        except Dead:
            stats["n_histories_outside"] = stats.get("n_histories_outside", 0) + 1
            continue
        evals += e
        states += 1
        transitions += 1
        nontrivial |= nt
        outcomes[oc] = outcomes.get(oc, 0) + 1
        fails.extend(local)
    stats["max_depth"] = depth
    return {"fails": _dedup(fails), "nontrivial": nontrivial, "evals": evals, "states": states, "transitions": transitions,
            "outcome": sorted(outcomes), "stats": stats}


def _dedup(fails):
    """first (= shortest / simplest) failure per (site, discriminating data)"""
    seen = {}
    for f in fails:
        d = f.get("data", {})
        key = (f["site"], d.get("last_kind"), d.get("stale_causes"), d.get("contact_assembled_before"), (d.get("exc") or "")[:60])
        seen.setdefault(key, f)
    return list(seen.values())
