"""C07  Force elements are energetically consistent and passive.

Engine E1 (exhaustive product of finite alphabets on the real code, evaluated through an assembled
System).  For every scene (element x subsystem pairing x parameters x placement) and every state
letter (time x configuration [x joint angle on the revolute manifold]) and velocity letter:

  conservative elements (Force, Spring)      h.u  = -dE_pot/ds along s -> q + s*q_dot(t,q,u)   (frozen time)
  KelvinVoigt (autonomous pairings)          h.u + dE/ds <= 0
  Maxwell                                    h.u + dE/ds <= 0 and == -2 k E_pot / eta           (internal
                                             coordinate follows its own q_dot)
  compliance form                            c(t,q,u, System.la_c(t,q,u)) == 0 and
                                             W_c(t,q) la* == h of the force-form twin, c(la*) = 0
  gyroscopic terms (RigidBody, rods)         (h(q,u) - h(q,0)).u == 0
  line load on a rod                         E_pot evaluates; h.u = -d/ds of the dead-load potential
  assembled systems (singles and pairs)      System.E_pot(t0,q0) is a finite float
"""
import math
import numpy as np

import cardillo  # noqa: F401  (imported before the workers fork)
import cardillo.rods.cosseratRod  # noqa: F401
import cardillo.rods.force_line_distributed  # noqa: F401
import cardillo.force_laws, cardillo.forces, cardillo.interactions, cardillo.constraints, cardillo.actuators  # noqa: F401,E401

from vp.core import fd
from vp.core.alphabet import weyl
from vp.scen import forces as F
from vp.scen.forces import LibFail, lib, libfail_record as _libfail, Acc, check_manifold

ID = "C07"
LEVEL = "model_checking"
RULE = (
    "full product {Spring,KelvinVoigt,Maxwell} x {TwoPointInteraction pairings, Revolute pairings x 3 axes} x "
    "3 parameter letters (k,d,eta) x {generic, axis-aligned} placement, each case looping over all "
    "(time x configuration x joint-angle) state letters and all velocity letters (unit vectors e_i, generic, "
    "-generic, 1e-3*generic, 0); plus Force (constant/time-varying) on point mass, rigid body (with offset) and rod "
    "cross-sections, line loads on rods, gyroscopic terms of rigid bodies and rods, and System.E_pot on every "
    "single component and every pair of a 13-component pool.  A case is non-trivial if at least one oracle "
    "comparison with a non-zero power or energy rate was evaluated"
)
ASSUMPTIONS = [
    "oracle for dE/dt: 5-point central difference of s -> System.E_pot(t, q + s*System.q_dot(t,q,u)) at h and h/2 "
    "(frozen time; the straight line is second-order consistent with the flow)",
    "carriers (bodies, rods) are removed from the System's h / E_pot contribution lists after assembly "
    "(System.get_contribution_list) so that System.h and System.E_pot are the scatter of the element under test",
    "KelvinVoigt passivity is judged on autonomous pairings only (with a moving frame the frame's own power is not "
    "contained in h.u); Maxwell and conservative elements are judged on all pairings (frozen-time identity)",
    "Revolute states are generated on the joint manifold (|g| <= 1e-10 asserted by the harness); the angle tracker "
    "is reset (System.reset) before each base state and primed at the base state",
    "force laws always get an explicit l_ref (independent of the C09 default path)",
    "dead-load potential of a line load: -sum_el sum_i f(t,xi_i).r_OP(xi_i) J_i w_i with the rod's own quadrature "
    "(only Lagrangian centerline interpolation, where test and ansatz functions coincide)",
]
MIN_NONTRIVIAL = 60
CASE_TIMEOUT = 240

ATOL = 1e-8
RTOL = 1e-7


# ------------------------------------------------------------------------------------------------
# case enumeration
# ------------------------------------------------------------------------------------------------
EPOT_POOL = ["pm", "rb", "frame", "tpi_spring", "tpi_kv_c", "tpi_maxwell", "rev_spring", "rev_kv_c", "force_rb",
             "moment_rb", "rod_db", "rod_mixed", "rod_lineload"]


def cases(tier, seed):
    out = []
    thorough = tier == "thorough"
    tpi_pairs = F.TPI_PAIRS_QUICK + (F.TPI_PAIRS_MORE if thorough else [])
    rev_pairs = F.REV_PAIRS_QUICK + (F.REV_PAIRS_MORE if thorough else [])
    # external forces, simplest first
    for fk in ("const_axis", "const", "time"):
        for carrier in ("pm", "rb"):
            out.append({"kind": "force", "carrier": carrier, "fkind": fk, "xi": None})
    # the same loads handed over as plain Python lists / tuples (constant, or returned by the callable of t)
    for fk in ("const_list", "const_tuple", "time_list"):
        for carrier in ("pm", "rb"):
            out.append({"kind": "force", "carrier": carrier, "fkind": fk, "xi": None})
    for fk in ("const", "time"):
        for carrier, xis in (("rod:Quaternion:1", (0.0, 0.37, 1.0)), ("rod:Quaternion:2", (0.5, 0.81)),
                             ("rod:R12:1", (0.0, 0.37)), ("rod:SE3:1", (0.5, 1.0))):
            for xi in xis:
                out.append({"kind": "force", "carrier": carrier, "fkind": fk, "xi": xi})
    # several conservative elements in one system (the total energy is the sum)
    for combo in ("spring+force", "spring+spring+force", "spring+spring:two_anchors"):
        out.append({"kind": "combo", "combo": combo})
    # gyroscopic terms
    out.append({"kind": "gyro", "what": "rb"})
    for interp, deg in (("Quaternion", 1), ("Quaternion", 2), ("R12", 1), ("SE3", 1)):
        for mixed in (False, True):
            out.append({"kind": "gyro", "what": "rod", "interp": interp, "deg": deg, "mixed": mixed})
    # line loads
    for interp, deg in (("Quaternion", 1), ("Quaternion", 2), ("R12", 2)):
        for fk in ("const", "time_xi"):
            out.append({"kind": "lineload", "interp": interp, "deg": deg, "fkind": fk})
    # scalar force laws
    for special in (True, False):
        for par in ((0,) if special else (0, 1, 2)):
            for law in ("spring", "kv", "maxwell"):
                for pair in tpi_pairs:
                    out.append({"kind": "law", "law": law, "sub": "tpi", "pair": pair, "axis": None, "par": par,
                                "special": special})
                for pair in rev_pairs:
                    for axis in (0, 1, 2):
                        out.append({"kind": "law", "law": law, "sub": "rev", "pair": pair, "axis": axis, "par": par,
                                    "special": special})
    # very short two-point elements (micro- and sub-micrometre lengths in SI units): closed-form power balance
    for law in ("spring", "kv"):
        for form in ("force", "compliance"):
            out.append({"kind": "law_short", "law": law, "form": form})
    # assembled systems: singles and pairs
    for i, a in enumerate(EPOT_POOL):
        out.append({"kind": "epot", "members": [a], "has_lineload": a == "rod_lineload"})
    for i, a in enumerate(EPOT_POOL):
        for b in EPOT_POOL[i + 1:]:
            out.append({"kind": "epot", "members": [a, b], "has_lineload": "rod_lineload" in (a, b)})
    for c in out:
        c["seed"] = seed
        c["tier"] = tier
    return out


# ------------------------------------------------------------------------------------------------
# oracles
# ------------------------------------------------------------------------------------------------
def energy_rate(acc, s, t, q, u):
    """d/ds E_pot(t, q + s q_dot) and its error estimate"""
    qd = lib("System.q_dot", s.q_dot, t, q, u)
    D, est = fd.ddir(lambda x: lib("System.E_pot", s.E_pot, t, x), q, qd)
    acc.evals += 9
    return float(D), est


def power_balance(acc, mode, site, s, t, q, u, data, sharp=None):
    """mode 'eq': h.u + dE == 0 ; 'le': h.u + dE <= 0 ; sharp: expected value of h.u + dE"""
    h = lib("System.h", s.h, t, q, u)
    acc.evals += 1
    P = float(h @ u)
    dE, est = energy_rate(acc, s, t, q, u)
    sc = max(1.0, abs(P), abs(dE))
    if est > 1e-6 * sc:
        acc.excluded += 1
        return None
    thr = ATOL + RTOL * sc + 4 * est
    D = P + dE
    if abs(P) > 1e-6 or abs(dE) > 1e-6:
        acc.nontrivial = True
    d = dict(data, power=P, dE=dE, est=est, thr=thr)
    if mode == "eq":
        acc.stat_max("max_err_power_balance_rel", abs(D) / sc)
        if abs(D) > thr:
            acc.fail(site, f"h.u={P:.9g} but -dE/dt={-dE:.9g}", d)
    else:
        acc.stat_max("max_passivity_excess_rel", max(D, 0.0) / sc)
        if D > thr:
            acc.fail(site, f"element generates energy: h.u + dE/dt = {D:.6g} > 0", d)
        if sharp is not None:
            acc.stat_max("max_err_dissipation_rel", abs(D - sharp) / sc)
            if abs(D - sharp) > thr + RTOL * abs(sharp):
                acc.fail(site.replace("<= 0", "== -2kE/eta"), f"h.u + dE/dt = {D:.9g}, expected {sharp:.9g}", dict(d, expected=sharp))
    return D


def velocity_letters(nu, seed, small=True):
    L = []
    for i in range(nu):
        e = np.zeros(nu)
        e[i] = 1.0
        L.append((f"e{i}", e))
    g = weyl(seed, 50, nu)
    L.append(("gen", g))
    L.append(("-gen", -g))
    if small:
        L.append(("1e-3*gen", 1e-3 * g))
        L.append(("-1e-3*gen", -1e-3 * g))
    L.append(("gen2", 1.7 * weyl(seed, 51, nu)))
    L.append(("zero", np.zeros(nu)))
    return L


# ------------------------------------------------------------------------------------------------
# scalar force laws
# ------------------------------------------------------------------------------------------------
def _law_scene(case, form):
    seed = case["seed"]
    if case["sub"] == "tpi":
        return F.scene_tpi(case["pair"], seed, special=case["special"], law=case["law"], form=form, par=case["par"],
                           l_ref=1.1 if not case["special"] else 1.5)
    return F.scene_rev(case["pair"], case["axis"], seed, special=case["special"], law=case["law"], form=form,
                       par=case["par"], l_ref=0.2, angle0=0.0 if case["special"] else 0.3)


def _base_states(case, sc):
    """yields (label dict, t, per-carrier parts)"""
    seed = case["seed"]
    thorough = case["tier"] == "thorough"
    moving = "mframe" in case["pair"]
    times = F.TIMES if (moving or thorough) else F.TIMES[:1]
    letters = (0, 1, 2, 3) if thorough else (0, 1, 2)
    for t in times:
        if case["sub"] == "tpi":
            for letter in letters:
                yield {"t": t, "state": letter}, t, F.tpi_state(sc, letter, seed, t)
        else:
            for ia, ang in enumerate(F.REV_ANGLES):
                for letter in ((0, 1, 2) if thorough else (0, 1)):
                    if letter == 2 and ia % 2:
                        continue
                    yield {"t": t, "state": letter, "angle": ang}, t, F.rev_state(sc, letter, ang, seed, t)


def check_law(case):
    acc = Acc()
    law = case["law"]
    k, d, eta = F.PARAMS[case["par"]]
    autonomous = "mframe" not in case["pair"]
    scF = _law_scene(case, "force")
    F.isolate(scF, props=("h", "h_q", "h_u", "E_pot"))
    scC = None
    if law in ("spring", "kv"):
        scC = _law_scene(case, "compliance")
        F.isolate(scC, props=("h", "h_q", "h_u", "E_pot"))
    s = scF.system
    vel = velocity_letters(s.nu, case["seed"])
    internals = [None] if law != "maxwell" else [0.15, -0.4]
    nstates = 0
    for lab, t, parts in _base_states(case, scF):
        for ld in internals:
            q = scF.q_from(parts, internal=ld)
            if case["sub"] == "rev":
                check_manifold(scF, t, q)
            scF.reset()
            E0 = float(lib("System.E_pot", s.E_pot, t, q))  # primes the angle tracker at the base state
            if scC is not None:
                qC = scC.q_from(parts)
                scC.reset()
                lib("System.E_pot", scC.system.E_pot, t, qC)
            nstates += 1
            for uname, u in vel:
                data = dict(lab, u=uname, l_d=ld)
                if law == "spring":
                    power_balance(acc, "eq", "Spring: System.h.u vs -d/dt System.E_pot", s, t, q, u, data)
                elif law == "kv":
                    if autonomous:
                        power_balance(acc, "le", "KelvinVoigt: System.h.u + d/dt System.E_pot <= 0", s, t, q, u, data)
                else:
                    power_balance(acc, "le", "Maxwell: System.h.u + d/dt System.E_pot <= 0", s, t, q, u, data,
                                  sharp=-2.0 * k * E0 / eta)
                if scC is not None:
                    _compliance(acc, law, scF, scC, t, q, qC, u, data, k)
    acc.stats["n_base_states"] = nstates
    return acc.result(outcome=f"law:{law}:{case['sub']}")


def _compliance(acc, law, scF, scC, t, q, qC, u, data, k):
    sF, sC = scF.system, scC.system
    name = "Spring" if law == "spring" else "KelvinVoigt"
    la = lib("System.la_c", sC.la_c, t, qC, u)
    r = lib("System.c", sC.c, t, qC, u, la)
    acc.evals += 2
    sc = max(1.0, float(np.max(np.abs(la))) / k)
    e = float(np.max(np.abs(r)))
    acc.stat_max("max_err_compliance_residual_rel", e / sc)
    if abs(la[0]) > 1e-9:
        acc.nontrivial = True
    if not (e <= 1e-11 * sc):
        acc.fail(f"{name}: System.c at System.la_c (force-form force) != 0", f"c={r}, la_c={la}", dict(data, c=r, la_c=la))
    # twin: the compliance form, solved for la_c, exerts the generalized force of the force form
    c0 = lib("System.c", sC.c, t, qC, u, np.zeros(1))
    c1 = lib("System.c", sC.c, t, qC, u, np.ones(1))
    acc.evals += 2
    slope = c1 - c0
    if abs(slope[0]) < 1e-300:
        acc.fail(f"{name}: System.c does not depend on la_c", f"c0={c0} c1={c1}", dict(data))
        return
    la_star = -c0 / slope
    W = fd.dense(lib("System.W_c", sC.W_c, t, qC))
    hC = W @ la_star
    hF = lib("System.h", sF.h, t, q, u)
    acc.evals += 2
    sc2 = max(1.0, float(np.max(np.abs(hF))))
    e2 = float(np.max(np.abs(hC - hF)))
    acc.stat_max("max_err_twin_force_rel", e2 / sc2)
    if not (e2 <= 1e-10 * sc2):
        acc.fail(f"{name}: W_c la_c(c=0) of compliance form vs System.h of force form", f"max diff {e2:.3g}",
                 dict(data, h_compliance=hC, h_force=hF))
    # affine residual really vanishes at la*
    r2 = lib("System.c", sC.c, t, qC, u, la_star)
    e3 = float(np.max(np.abs(r2)))
    if not (e3 <= 1e-11 * max(1.0, abs(la_star[0]) / k)):
        acc.fail(f"{name}: System.c is not affine in la_c", f"c(la*)={r2}", dict(data))


# ------------------------------------------------------------------------------------------------
# external forces
# ------------------------------------------------------------------------------------------------
def check_force(case):
    acc = Acc()
    seed = case["seed"]
    xi = case["xi"]
    carrier = case["carrier"]
    offset = True
    if carrier.startswith("rod"):
        # offsets on a rod are energetically consistent only at nodal cross-sections (Petrov-Galerkin)
        deg = int(carrier.split(":")[2])
        offset = abs(xi * deg * 2 - round(xi * deg * 2)) < 1e-12
    sc = F.scene_force("Force", carrier, case["fkind"], seed, xi=xi, offset=offset)
    F.isolate(sc, props=("h", "h_q", "h_u", "E_pot"))
    s = sc.system
    vel = velocity_letters(s.nu, seed, small=False)  # complete basis: both sides are linear in u
    for t in F.TIMES:
        for letter in (0, 1, 2):
            q = F.scene_state(sc, letter, seed, t)
            for uname, u in vel:
                power_balance(acc, "eq", "Force: System.h.u vs -d/dt System.E_pot", s, t, q, u,
                              {"t": t, "state": letter, "u": uname})
    return acc.result(outcome=f"force:{carrier.split(':')[0]}")


def check_combo(case):
    """several conservative elements acting on shared bodies: total power = - d/dt total potential"""
    from cardillo import System
    from cardillo.interactions import TwoPointInteraction
    from cardillo.force_laws import Spring
    from cardillo.forces import Force

    acc = Acc()
    seed = case["seed"]
    sc = F.Scene()
    sc.system = system = System(t0=0.0)
    c0 = F.make_carrier("rb", 0, seed)
    c1 = F.make_carrier("pm", 1, seed)
    system.add(c0.obj, c1.obj)
    sc.carriers = [c0, c1]
    tpi = TwoPointInteraction(c0.obj, c1.obj, B_r_CP1=0.3 * weyl(seed, 21, 3), name="tpi_a")
    system.add(tpi, Spring(tpi, 10.0, l_ref=1.1, compliance_form=False, name="spring_a"))
    if case["combo"].endswith("two_anchors"):
        # the point mass is also tied to two DIFFERENT fixed frames: both interactions have the same local coordinates
        # (frames carry none), so objects that shared state keyed on (t, q) would mix up their directions
        from cardillo.discrete import Frame

        for nm, rA, k, lr in (("anchor_c", np.array([2.0, 0.5, -1.0]), 6.0, 1.3), ("anchor_d", np.array([-1.5, 1.0, 0.8]), 9.0, 0.7)):
            fr = Frame(r_OP=rA, name=nm)
            tp = TwoPointInteraction(fr, c1.obj, name="tpi_" + nm)
            system.add(fr, tp, Spring(tp, k, l_ref=lr, compliance_form=False, name="spring_" + nm))
    if case["combo"].count("spring") == 2:
        tpi2 = TwoPointInteraction(system.origin, c1.obj, name="tpi_b")
        system.add(tpi2, Spring(tpi2, 4.0, l_ref=2.0, compliance_form=False, name="spring_b"))
    system.add(Force(F.force_fun("time", seed), c0.obj, B_r_CP=0.3 * weyl(seed, 23, 3), name="force_a"))
    system.add(Force(np.array([0.0, 0.0, -9.81]), c1.obj, name="force_b"))
    F._assemble(system)
    F.isolate(sc, props=("h", "h_q", "h_u", "E_pot"))
    for t in F.TIMES:
        for letter in (0, 1, 2):
            q = sc.q_from(F.tpi_state(sc, letter, seed, t))
            for uname, u in velocity_letters(system.nu, seed, small=False):
                power_balance(acc, "eq", "several elements: System.h.u vs -d/dt System.E_pot", system, t, q, u,
                              {"t": t, "state": letter, "u": uname})
    return acc.result(outcome="combo")


# ------------------------------------------------------------------------------------------------
# gyroscopic terms
# ------------------------------------------------------------------------------------------------
def check_gyro(case):
    from cardillo import System

    acc = Acc()
    seed = case["seed"]
    system = System(t0=0.0)
    if case["what"] == "rb":
        c = F.make_carrier("rb", 0, seed)
        system.add(c.obj)
        F._assemble(system)
        states = []
        for letter in (0, 1, 2):
            q = np.array(system.q0, float)
            q[c.obj.my_qDOF] = F.carrier_q(c, *F.carrier_state(c, letter, seed, 0.0))
            states.append(q)
        site = "RigidBody gyroscopic power (System.h(q,u) - System.h(q,0)).u == 0"
    else:
        rod = F.make_rod(seed, interpolation=case["interp"], degree=case["deg"], mixed=case["mixed"])
        system.add(rod)
        F._assemble(system)
        states = [F.rod_state(rod, letter, seed) for letter in (0, 1)]
        site = "rod gyroscopic power (System.h(q,u) - System.h(q,0)).u == 0"
    nu = system.nu
    vel = [v for v in velocity_letters(nu, seed, small=False) if not v[0].startswith("e")]
    # pairs of unit vectors inside one angular-velocity triple exercise the cross terms
    for i in range(nu):
        for j in range(i + 1, min(i + 3, nu)):
            e = np.zeros(nu)
            e[i] = 1.0
            e[j] = -0.7
            vel.append((f"e{i}-0.7e{j}", e))
    for iq, q in enumerate(states):
        for t in (0.0,):
            h0 = lib("System.h", system.h, t, q, np.zeros(nu))
            for uname, u in vel:
                h = lib("System.h", system.h, t, q, u)
                acc.evals += 1
                hg = h - h0
                P = float(hg @ u)
                sc = max(1.0, float(np.max(np.abs(hg))) * float(np.max(np.abs(u))))
                if np.max(np.abs(hg)) > 1e-9:
                    acc.nontrivial = True
                acc.stat_max("max_err_gyroscopic_power_rel", abs(P) / sc)
                if not (abs(P) <= 1e-11 * sc):
                    acc.fail(site, f"gyroscopic power {P:.6g}", {"state": iq, "u": uname, "power": P})
    return acc.result(outcome=f"gyro:{case['what']}")


# ------------------------------------------------------------------------------------------------
# line loads on rods
# ------------------------------------------------------------------------------------------------
def check_lineload(case):
    from cardillo import System
    from cardillo.rods.force_line_distributed import Force_line_distributed

    acc = Acc()
    seed = case["seed"]
    system = System(t0=0.0)
    rod = F.make_rod(seed, interpolation=case["interp"], degree=case["deg"])
    f0 = 2.0 * weyl(seed, 80, 3)
    if case["fkind"] == "const":
        f = f0
        ff = lambda t, xi: f0
    else:
        a = 1.5 * weyl(seed, 84, 3)
        ff = lambda t, xi: f0 * (1 + 0.5 * xi) + a * math.sin(1.7 * t) * xi * xi
        f = ff
    load = Force_line_distributed(f, rod)
    load.name = "lineload"
    system.add(rod, load)
    F._assemble(system)
    for p in ("h", "h_q", "h_u", "E_pot"):
        lst = system.get_contribution_list(p)
        for i in reversed(range(len(lst))):
            if lst[i] is rod:
                del lst[i]

    def W_ref(t, q):
        W = 0.0
        for el in range(rod.nelement):
            for i in range(rod.nquadrature):
                xi = rod.qp[el, i]
                qe = q[rod.my_qDOF][rod.elDOF_P((xi,))]
                W -= (rod.r_OP(t, qe, (xi,)) @ ff(t, xi)) * rod.J[el, i] * rod.qw[el, i]
        return W

    vel = velocity_letters(system.nu, seed, small=False)  # complete basis: both sides are linear in u
    for t in F.TIMES:
        for letter in (0, 1):
            q = np.array(system.q0, float)
            q[rod.my_qDOF] = F.rod_state(rod, letter, seed)
            # (1) the element's own potential energy can be evaluated and matches the dead-load potential
            try:
                E = lib("System.E_pot", system.E_pot, t, q)
                Wr = W_ref(t, q)
                acc.evals += 1
                if not (np.isscalar(E) or np.ndim(E) == 0) or not np.isfinite(E):
                    acc.fail("Force_line_distributed: System.E_pot is a finite float", f"E_pot={E!r}", {"t": t, "state": letter})
                # potentials may differ by a configuration independent constant: compare differences
                have_E = True
            except LibFail as e:
                ff_ = _libfail(e)
                ff_["site"] = "Force_line_distributed: System.E_pot raises"
                acc.fail(ff_["site"], ff_["msg"], dict(ff_["data"], t=t, state=letter))
                acc.nontrivial = True
                have_E = False
            for uname, u in vel:
                h = lib("System.h", system.h, t, q, u)
                acc.evals += 1
                P = float(h @ u)
                qd = lib("System.q_dot", system.q_dot, t, q, u)
                D, est = fd.ddir(lambda x: W_ref(t, x), q, qd)
                acc.evals += 8
                sc = max(1.0, abs(P), abs(float(D)))
                if est > 1e-6 * sc:
                    acc.excluded += 1
                    continue
                if abs(P) > 1e-6:
                    acc.nontrivial = True
                thr = ATOL + RTOL * sc + 4 * est
                acc.stat_max("max_err_lineload_power_rel", abs(P + float(D)) / sc)
                if abs(P + float(D)) > thr:
                    acc.fail("Force_line_distributed: System.h.u vs -d/dt dead-load potential",
                             f"h.u={P:.9g}, -dW/dt={-float(D):.9g}", {"t": t, "state": letter, "u": uname, "power": P, "dW": float(D)})
                if have_E:
                    D2, est2 = energy_rate(acc, system, t, q, u)
                    if abs(P + D2) > ATOL + RTOL * sc + 4 * est2:
                        acc.fail("Force_line_distributed: System.h.u vs -d/dt System.E_pot",
                                 f"h.u={P:.9g}, -dE/dt={-D2:.9g}", {"t": t, "state": letter, "u": uname})
    return acc.result(outcome="lineload")


# ------------------------------------------------------------------------------------------------
# System.E_pot on assembled systems
# ------------------------------------------------------------------------------------------------
def _add_member(system, name, seed, idx):
    """adds pool component `name` (with the carriers it needs) to the system"""
    from cardillo.discrete import Frame, PointMass, RigidBody
    from cardillo.interactions import TwoPointInteraction
    from cardillo.constraints import Revolute
    from cardillo.force_laws import Spring, KelvinVoigtElement, MaxwellElement
    from cardillo.forces import Force, Moment
    from cardillo.rods.force_line_distributed import Force_line_distributed

    tag = f"{name}_{idx}"
    shift = np.array([0.0, 5.0 * idx, 0.0])

    def pm(slot):
        c = F.make_carrier("pm", slot, seed)
        c.obj.q0 = c.obj.q0 + shift
        c.obj.name = f"{tag}_pm{slot}"
        system.add(c.obj)
        return c.obj

    def rb(slot):
        c = F.make_carrier("rb", slot, seed)
        q0 = np.array(c.obj.q0, float)
        q0[:3] += shift
        c.obj.q0 = q0
        c.obj.name = f"{tag}_rb{slot}"
        system.add(c.obj)
        return c.obj

    if name == "pm":
        pm(0)
    elif name == "rb":
        rb(0)
    elif name == "frame":
        system.add(Frame(r_OP=shift + 1.0, name=f"{tag}_frame"))
    elif name in ("tpi_spring", "tpi_kv_c", "tpi_maxwell"):
        a, b = rb(0), pm(1)
        tpi = TwoPointInteraction(a, b, B_r_CP1=np.array([0.1, 0.2, -0.1]), name=f"{tag}_tpi")
        system.add(tpi)
        if name == "tpi_spring":
            system.add(Spring(tpi, 10.0, l_ref=1.0, compliance_form=False, name=f"{tag}_law"))
        elif name == "tpi_kv_c":
            system.add(KelvinVoigtElement(tpi, 10.0, 2.0, l_ref=1.0, compliance_form=True, name=f"{tag}_law"))
        else:
            system.add(MaxwellElement(tpi, 10.0, 2.0, l_ref=1.0, q0=np.array([0.1]), name=f"{tag}_law"))
    elif name in ("rev_spring", "rev_kv_c"):
        a, b = rb(0), rb(1)
        j = Revolute(a, b, axis=2, angle0=0.3, r_OJ0=shift + np.array([1.0, 0.5, 0.2]), A_IJ0=np.eye(3), name=f"{tag}_rev")
        system.add(j)
        if name == "rev_spring":
            system.add(Spring(j, 10.0, l_ref=0.1, compliance_form=False, name=f"{tag}_law"))
        else:
            system.add(KelvinVoigtElement(j, 10.0, 2.0, l_ref=0.1, compliance_form=True, name=f"{tag}_law"))
    elif name == "force_rb":
        a = rb(0)
        system.add(Force(np.array([0.0, 0.0, -9.81]), a, B_r_CP=np.array([0.1, 0.0, 0.2]), name=f"{tag}_force"))
    elif name == "moment_rb":
        a = rb(0)
        system.add(Moment(np.array([0.3, 0.0, -1.0]), a, name=f"{tag}_moment"))
    elif name in ("rod_db", "rod_mixed", "rod_lineload"):
        rod = F.make_rod(seed, mixed=(name == "rod_mixed"), nelements=1, name=f"{tag}_rod")
        system.add(rod)
        if name == "rod_lineload":
            ll = Force_line_distributed(np.array([0.0, 0.0, -1.0]), rod)
            ll.name = f"{tag}_lineload"
            system.add(ll)
    else:
        raise ValueError(name)


def check_epot(case):
    from cardillo import System

    acc = Acc()
    system = System(t0=0.0)
    for idx, m in enumerate(case["members"]):
        _add_member(system, m, case["seed"], idx)
    lib("System.assemble", F._assemble, system)
    acc.nontrivial = True
    acc.evals = 1
    try:
        E = lib("System.E_pot", system.E_pot, system.t0, system.q0)
    except LibFail as e:
        f = _libfail(e)
        acc.fail("System.E_pot(t0, q0) raises", f["msg"], f["data"])
        return acc.result(outcome="epot:raises")
    ok = (isinstance(E, (float, int, np.floating, np.integer)) or (isinstance(E, np.ndarray) and E.ndim == 0)) and np.isfinite(E)
    if not ok:
        acc.fail("System.E_pot(t0, q0) is a finite float", f"returned {E!r}", {"value": repr(E)})
    return acc.result(outcome="epot:float" if ok else "epot:other")


def check_law_short(case):
    """Spring / Kelvin-Voigt element between two point masses whose distance is 1e-6 .. 5e-8 (the library accepts initial lengths above
    1e-8).  For point masses everything is closed form: with d = r2 - r1, l = |d|, n = d / l, the element power is
    -(k (l - l_ref) + c n.(v2 - v1)) n.(v2 - v1) and the stored energy k/2 (l - l_ref)^2; judged relative to the size of the terms."""
    from cardillo import System
    from cardillo.discrete import PointMass
    from cardillo.interactions import TwoPointInteraction
    from cardillo.force_laws import Spring, KelvinVoigtElement

    acc = Acc()
    seed = case["seed"]
    k, dmp = 3.0e3, (0.0 if case["law"] == "spring" else 40.0)
    e0 = np.array([2.0, -1.0, 2.0]) / 3.0
    for l0 in (1e-6, 2e-7, 5e-8):
        system = System()
        c1 = np.array([0.3, -0.2, 0.1])
        pm1 = PointMass(1.0, q0=c1.copy(), name="pm1")
        pm2 = PointMass(2.0, q0=c1 + l0 * e0, name="pm2")
        tpi = TwoPointInteraction(pm1, pm2, name="tpi")
        cf = case["form"] == "compliance"
        if case["law"] == "spring":
            el = Spring(tpi, k, compliance_form=cf, name="law")
        else:
            el = KelvinVoigtElement(tpi, k, dmp, compliance_form=cf, name="law")
        system.add(pm1, pm2, el)
        F._assemble(system)
        q0 = np.asarray(system.q0, float)
        l_ref = float(np.linalg.norm(q0[pm2.my_qDOF] - q0[pm1.my_qDOF]))
        for j, stretch in enumerate((1.0, 1.3, 0.6)):
            q = q0.copy()
            w = weyl(seed, 60 + j, 3)
            dirn = e0 + 0.3 * (w - (w @ e0) * e0)
            q[pm2.my_qDOF] = q[pm1.my_qDOF] + stretch * l0 * dirn / np.linalg.norm(dirn)
            d = q[pm2.my_qDOF] - q[pm1.my_qDOF]
            l = float(np.linalg.norm(d))
            n = d / l
            for uname, u in (("gen", weyl(seed, 64 + j, system.nu)), ("gen_small", l0 * weyl(seed, 67 + j, system.nu))):
                data = {"l0": l0, "stretch": stretch, "u": uname, "form": case["form"]}
                vrel = u[pm2.my_uDOF] - u[pm1.my_uDOF]
                ldot = float(n @ vrel)
                force = k * (l - l_ref) + dmp * ldot
                E = float(lib("System.E_pot", system.E_pot, 0.0, q))
                acc.evals += 2
                if not abs(E - 0.5 * k * (l - l_ref) ** 2) <= 1e-7 * 0.5 * k * max((l - l_ref) ** 2, (1e-3 * l0) ** 2):
                    acc.stats["n_states_energy_not_closed_form"] = acc.stats.get("n_states_energy_not_closed_form", 0) + 1
                    continue  # the closed-form energy assumption of this case does not apply: no judgement
                if cf:
                    la = lib("System.la_c", system.la_c, 0.0, q, u)
                    h = fd.dense(lib("System.W_c", system.W_c, 0.0, q)) @ la
                else:
                    h = lib("System.h", system.h, 0.0, q, u)
                power = float(np.ravel(h) @ u)
                want = -force * ldot
                scale = (abs(k * (l - l_ref)) + abs(dmp * ldot)) * float(np.linalg.norm(vrel)) + 1e-300
                acc.stat_max("max_err_short_element_power_rel", abs(power - want) / scale)
                if abs(want) > 1e-3 * scale:
                    acc.nontrivial = True
                if not abs(power - want) <= 1e-7 * scale:
                    acc.fail(f"{'Spring' if case['law'] == 'spring' else 'KelvinVoigt'}: element power vs closed form for a very short two-point element",
                             f"power {power!r} vs {want!r} (l = {l:.3e}, l_ref = {l_ref:.3e})", dict(data, power=power, want=want, l=l))
    return acc.result(outcome=f"law_short:{case['law']}:{case['form']}")


# ------------------------------------------------------------------------------------------------
def check(case):
    kind = case["kind"]
    try:
        if kind == "law_short":
            return check_law_short(case)
        if kind == "law":
            return check_law(case)
        if kind == "force":
            return check_force(case)
        if kind == "combo":
            return check_combo(case)
        if kind == "gyro":
            return check_gyro(case)
        if kind == "lineload":
            return check_lineload(case)
        if kind == "epot":
            return check_epot(case)
    except LibFail as e:
        return {"fails": [_libfail(e)], "nontrivial": True, "evals": 1, "outcome": f"{kind}:raises"}
    raise ValueError(kind)
