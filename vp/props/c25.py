"""C25  Revolute joint angle tracks the accumulated relative rotation.

Engine E2 (explicit-state BFS over rotation-increment histories on the REAL Revolute joint), run to a
FIXPOINT of the canonical state graph on three angle lattices 2*pi/N, plus a depth-bounded exploration
with exact integer-quaternion increments that land exactly on the quadrant boundaries x=0 / y=0, plus
an E1 grid for the angle rate l_dot.

State = the history that reaches it (replayed on the real joint after joint.reset(); every state is in
addition rebuilt once from a freshly assembled System and must agree).  Canonical key
    (position mod N, previous_quadrant, n_full_rotations - expected whole turns)
Merged states have the same futures: the tracker sees the relative rotation only through (x,y), which
is a function of position mod N (the harness computes the pose from position mod N, so the floats are
identical), and through its own two fields, the turn count entering the reported angle additively, as
does the expected accumulated angle.  Hence when the BFS closes, the verdict holds for histories of
unbounded length with any number of turns in either direction over the increment alphabet (up to the
float rounding of n*2*pi for astronomically large n).
"""
import math
from collections import deque

import numpy as np

from vp.core import alphabet as ab
from vp.core import fd
from vp.scen import joints as J

ID = "C25"
LEVEL = "model_checking"
RULE = (
    "joint configurations axis{0,1,2} x A_IJ0{I,generic} x angle0{0,.3,-2,7} x pair{origin-RB, RB-RB with body 1 turning too}; "
    "per configuration BFS to a fixpoint over ALL histories of increments k*2pi/N (|k*2pi/N|<pi/2, k=0 = repeated query), "
    "reset() and re-assemble, N in {16,12,360}; depth-bounded BFS with exact integer-quaternion increments "
    "(2,0,0,+-1),(3,0,0,+-1) hitting x=0/y=0 exactly; l_dot on lattice + off-manifold states. A case is non-trivial if "
    "its state graph has >= 8 canonical states and both a +1 and a -1 full-turn update were executed (bfs), or >= 10 rate evaluations (ldot)"
)
ASSUMPTIONS = [
    "canonical key (position mod N, previous_quadrant, n_full_rotations - expected turns) merges only states with identical futures (argument in the module docstring)",
    "internal fields n_full_rotations / previous_quadrant are read only to form the key; oracles use reported angles only",
    "after reset()/re-assemble the first report must equal that of a freshly assembled joint at the same pose and be consistent with the geometry mod 2*pi; from then on increments accumulate",
    "N=360: quick tier explores 12 of the 48 configurations (choice rotates with the seed) with a 13-letter sub-alphabet {0,+-1,+-2,+-29,+-45,+-60,+-89} of the 179 admissible increments; thorough explores all 48, the 12 selected ones with all 179 increments",
    "float rounding of n*2*pi for |n| beyond the explored few turns is outside the verdict",
]
MIN_NONTRIVIAL = 40
TOL_ANGLE = 1e-9
STATE_CAP = 6000

AXES = (0, 1, 2)
AIJ0 = ("I", "generic")
ANGLE0 = (0.0, 0.3, -2.0, 7.0)
PAIRS = ("O-RB", "RB-RB")
# first subsystem = Frame with time-dependent orientation (turntable about the joint axis): the relative rotation is measured
# against the CURRENT frame orientation (seeded C25-e); lattice kinds with N in {16, 12} only
PAIR_FRAME = "FR-RB"
N360_QUICK = (0, 1, -1, 2, -2, 29, -29, 45, -45, 60, -60, 89, -89)


def cases(tier, seed):
    out = []
    for N in (16, 12, 360):
        for pair in PAIRS + ((PAIR_FRAME,) if N != 360 else ()):
            for aij in AIJ0:
                for a0 in ANGLE0:
                    for axis in AXES:
                        if N == 360:
                            # the fine lattice is expensive: one angle0 per (pair, A_IJ0, axis) (rotating with the
                            # seed so that all 48 are met over seeds 0..3); thorough: all 48, the rotating 12 with
                            # the full 179-increment alphabet
                            sel = ANGLE0[(axis + AIJ0.index(aij) + 2 * PAIRS.index(pair) + seed) % 4] == a0
                            if tier == "quick" and not sel:
                                continue
                            alph = "all" if (tier == "thorough" and sel) else "sub13"
                        else:
                            alph = "all"
                        out.append({"kind": "lattice", "N": N, "pair": pair, "A_IJ0": aij, "angle0": a0, "axis": axis, "seed": seed,
                                    "alphabet": alph})
        if N == 16:
            for a0 in ANGLE0:
                for axis in AXES:
                    out.append({"kind": "intquat", "pair": "O-RB", "A_IJ0": "I", "angle0": a0, "axis": axis, "seed": seed,
                                "depth": 10 if tier == "quick" else 17})
            for pair in PAIRS:
                for aij in AIJ0:
                    for axis in AXES:
                        out.append({"kind": "ldot", "pair": pair, "A_IJ0": aij, "angle0": 0.3, "axis": axis, "seed": seed})
    for pair in PAIRS:
        for axis in AXES:
            out.append({"kind": "copy", "pair": pair, "A_IJ0": "generic", "angle0": 0.3, "axis": axis, "seed": seed})
    for form in ("0d", "1d"):
        for axis in AXES:
            out.append({"kind": "lattice", "N": 16, "pair": "O-RB", "A_IJ0": "generic", "angle0": 0.3, "axis": axis, "seed": seed, "alphabet": "all", "angle0_form": form})
    for axis in AXES:
        out.append({"kind": "rod_pair", "axis": axis, "angle0": 0.3, "seed": seed})
    for pair in ("Fm-RB", "RB-Fm"):
        for axis in AXES:
            out.append({"kind": "ldot_frame", "pair": pair, "axis": axis, "seed": seed})
    # E4 cross-check of the reference automaton by TLC + conformance replay (DESIGN 1, E4)
    for N, K, axis, a0 in ([(16, 3, 2, 0.3)] if tier == "quick" else [(16, 3, 2, 0.3), (12, 2, 0, -2.0), (20, 4, 1, 7.0), (24, 5, 2, 0.0)]):
        out.append({"kind": "tlc", "N": N, "K": K, "B": 2 * N + 8, "axis": axis, "angle0": a0})
    return out


# ------------------------------------------------------------------------------------------------
# scenario
# ------------------------------------------------------------------------------------------------
class Scen:
    def __init__(self, case, exact=False):
        from cardillo import System

        seed = case["seed"]
        self.case = case
        self.axis = case["axis"]
        self.angle0 = case["angle0"]
        self.exact = exact
        self.A_IJ0 = np.eye(3) if case["A_IJ0"] == "I" else J.generic_rotation(seed, 2)
        self.r_OJ0 = np.zeros(3) if exact else ab.generic_vec(seed, 3, 3, 0.6)
        self.n = self.A_IJ0[:, self.axis].copy()
        self.system = System(t0=J.T0)
        self.rb1 = None
        self.t_cur = J.T0
        self.W = None
        if case["pair"] == "RB-RB":
            self.rb1 = J.make_subsystem("RB", seed, 1)
            s1 = self.rb1
        elif case["pair"] == PAIR_FRAME:
            from cardillo.discrete import Frame

            A0 = J.generic_rotation(seed, 7)
            r0 = ab.generic_vec(seed, 8, 3, 0.8)
            n, rJ, W = self.n.copy(), self.r_OJ0.copy(), 1.3
            self.W = W
            s1 = Frame(r_OP=lambda t: rJ + J.rot(n, W * (t - J.T0)) @ (r0 - rJ), A_IB=lambda t: J.rot(n, W * (t - J.T0)) @ A0, name="turntable")
            self.fr1 = s1
        else:
            s1 = self.system.origin
        if exact:
            self.rb2 = J.make_subsystem("RB", seed, 2, q0=np.array([0, 0, 0, 1.0, 0, 0, 0]))
        else:
            self.rb2 = J.make_subsystem("RB", seed, 2)
        form = case.get("angle0_form", "float")
        a0 = {"float": self.angle0, "0d": np.array(self.angle0), "1d": np.array([self.angle0])}[form]  # the offset may arrive as an array
        self.angle0_given = a0
        self.joint = J.make_joint("Revolute", self.axis, s1, self.rb2, r_OJ0=self.r_OJ0.copy(), A_IJ0=self.A_IJ0.copy(), angle0=a0)
        items = ([self.rb1] if self.rb1 is not None else []) + ([self.fr1] if self.W is not None else []) + [self.rb2, self.joint]
        self.system.add(*items)
        J.assemble(self.system)
        self.q_init, _ = J.raw_q0(self.system)
        self._qcache = {}

    def _turn(self, body, angle):
        """pose of `body` after turning its initial pose by `angle` about the joint axis through r_OJ0"""
        q0 = np.asarray(body.q0, float)
        R = J.rot(self.n, angle)
        r = self.r_OJ0 + R @ (q0[:3] - self.r_OJ0)
        p = ab.quat_mul(ab.axis_angle_quat(self.n, angle), q0[3:])
        return np.concatenate([r, p])

    def q_lattice(self, r, N):
        """system coordinates at lattice position r (0 <= r < N): relative rotation 2*pi*r/N; with two
        bodies the first one turns by 2*pi*((5 r) mod N)/N as well"""
        ck = (r, N)
        if self.W is not None:
            # the turntable has turned by beta at time T0 + beta / W
            self.t_cur = J.T0 + (2 * math.pi * ((5 * r) % N) / N) / self.W
        if ck in self._qcache:
            return self._qcache[ck].copy()
        q = self.q_init.copy()
        beta = 0.0
        if self.W is not None:
            beta = 2 * math.pi * ((5 * r) % N) / N
        if self.rb1 is not None:
            beta = 2 * math.pi * ((5 * r) % N) / N
            q[self.rb1.my_qDOF] = self._turn(self.rb1, beta)
        q[self.rb2.my_qDOF] = self._turn(self.rb2, beta + 2 * math.pi * r / N)
        self._qcache[ck] = q
        return q.copy()

    def q_intquat(self, z):
        """exact pose: body 2 quaternion (a, b*e_axis) with coprime integers (a,b)"""
        a, b = z
        q = self.q_init.copy()
        p = np.zeros(4)
        p[0] = a
        p[1 + self.axis] = b
        q[self.rb2.my_qDOF] = np.concatenate([np.zeros(3), p])
        return q

    def ask(self, q):
        if not np.all(np.asarray(self.angle0_given) == self.angle0):
            raise OffsetModified(f"{self.angle0_given!r} != {self.angle0!r}")
        return float(np.ravel(self.joint.l(self.t_cur if self.W is not None else self.system.t0, q[self.joint.qDOF]))[0])

    def fields(self):
        return (getattr(self.joint, "previous_quadrant", "?"), getattr(self.joint, "n_full_rotations", "?"))


def _lattice_letters(case):
    N = case["N"]
    if case.get("alphabet") == "sub13":
        ks = [k for k in N360_QUICK]
    else:
        kmax = max(k for k in range(N) if k * 2 * math.pi / N < math.pi / 2 - 1e-12)
        ks = list(range(-kmax, kmax + 1))
        ks.sort(key=lambda k: (abs(k), k < 0))
    return [("inc", k) for k in ks] + [("reset", 0), ("reassemble", 0)]


# ------------------------------------------------------------------------------------------------
# BFS on the lattice
# ------------------------------------------------------------------------------------------------
class Tracker:
    """harness-side bookkeeping along one history (NOT a model of the implementation): lattice position,
    expected accumulated lattice angle e (None right after reset), last report"""

    def __init__(self):
        self.r = 0
        self.e = 0
        self.last = None


def _apply(sc, N, tr, letter, fresh_first, fails, stats, record, hist):
    """executes one letter on the real joint, checks the oracles if `record`, updates tr"""
    kind, k = letter
    if kind == "reset":
        sc.joint.reset()
        tr.e = None
        tr.last = None
        return
    if kind == "reassemble":
        J.assemble(sc.system)
        tr.e = None
        tr.last = None
        return
    before = sc.fields()
    tr.r = (tr.r + k) % N
    a = sc.ask(sc.q_lattice(tr.r, N))
    after = sc.fields()
    if before[1] != "?" and after[1] != "?" and record:
        d = after[1] - before[1]
        if d > 0:
            stats["n_turn_up"] = stats.get("n_turn_up", 0) + 1
        elif d < 0:
            stats["n_turn_down"] = stats.get("n_turn_down", 0) + 1
    if tr.e is None:
        ff = fresh_first(tr.r)
        if record:
            err = abs(a - ff)
            stats["max_err_reset_vs_fresh"] = max(stats.get("max_err_reset_vs_fresh", 0.0), err)
            if not err <= 1e-12:
                fails.append({"site": "Revolute.l first query after reset/re-assemble vs freshly assembled joint", "msg": f"{a!r} vs {ff!r} at position {tr.r}/{N} after {hist}",
                              "data": {"history": list(hist), "position": tr.r, "got": a, "fresh": ff}})
        tr.e = int(round((a - sc.angle0) * N / (2 * math.pi)))
        if record:
            geo = abs(a - sc.angle0 - 2 * math.pi * tr.e / N)
            ok_mod = (tr.e - tr.r) % N == 0
            stats["max_err_angle"] = max(stats.get("max_err_angle", 0.0), geo)
            if not (geo <= TOL_ANGLE and ok_mod):
                fails.append({"site": "Revolute.l of a fresh tracker vs geometry mod 2pi", "msg": f"angle {a!r} at position {tr.r}/{N} after {hist}",
                              "data": {"history": list(hist), "position": tr.r, "got": a}})
    else:
        tr.e += k
        exp = sc.angle0 + 2 * math.pi * tr.e / N
        if record:
            err = abs(a - exp)
            stats["max_err_angle"] = max(stats.get("max_err_angle", 0.0), err)
            if k == 0 and tr.last is not None:
                if not (abs(a - tr.last) <= 1e-12 and after == before):
                    fails.append({"site": "Revolute.l repeated query vs unchanged angle and tracking state", "msg": f"{tr.last!r} -> {a!r}, fields {before}->{after} after {hist}",
                                  "data": {"history": list(hist), "position": tr.r, "before": tr.last, "after": a}})
            if not err <= TOL_ANGLE:
                fails.append({"site": "Revolute.l vs angle0 + accumulated rotation", "msg": f"reported {a!r}, expected {exp!r} (err {err:.3e}, {err / (2 * math.pi):.2f} turns) after {hist}",
                              "data": {"history": list(hist), "position": tr.r, "got": a, "expected": exp, "turns_off": round(err / (2 * math.pi), 3)}})
    tr.last = a


def _key(sc, N, tr):
    pq, n = sc.fields()
    if tr.e is None:
        return (tr.r, pq, n, "fresh")
    if n == "?":
        return (tr.r, "?", tr.e)  # fields renamed: fall back to observation keyed, depth-bounded search
    return (tr.r, pq, n - (tr.e - tr.r) // N)


def _replay(sc, N, hist, fresh_first, via_reset=True):
    if via_reset:
        sc.joint.reset()
    tr = Tracker()
    for L in hist:
        _apply(sc, N, tr, L, fresh_first, None, None, False, ())
    return tr


def check_lattice(case):
    N = case["N"]
    letters = _lattice_letters(case)
    sc = Scen(case)
    fails, stats = [], {}
    evals = 0
    ff_cache = {}
    builds = [0]

    def fresh_first(r):
        if r not in ff_cache:
            s2 = Scen(case)
            builds[0] += 1
            ff_cache[r] = s2.ask(s2.q_lattice(r, N))
        return ff_cache[r]

    fallback = sc.fields()[0] == "?"
    init = Tracker()
    seen = {_key(sc, N, init): ()}
    queue = deque([()])
    transitions = 0
    maxdepth = 0
    closed = True
    keys3 = set()
    while queue:
        hist = queue.popleft()
        maxdepth = max(maxdepth, len(hist))
        if fallback and len(hist) >= 4:
            closed = False
            continue
        # the state reached via reset()+replay must be the state reached on a freshly assembled system
        tr_a = _replay(sc, N, hist, fresh_first)
        fa, la = sc.fields(), tr_a.last
        s2 = Scen(case)
        builds[0] += 1
        tr_b = _replay(s2, N, hist, fresh_first, via_reset=False)
        fb, lb = s2.fields(), tr_b.last
        evals += 2 * len(hist)
        if fa != fb or (la is None) != (lb is None) or (la is not None and abs(la - lb) > 1e-12):
            fails.append({"site": "state after reset()+replay vs freshly assembled joint+replay", "msg": f"fields {fa} vs {fb}, report {la!r} vs {lb!r} after {hist}",
                          "data": {"history": list(hist)}})
        for L in letters:
            tr = _replay(sc, N, hist, fresh_first)
            h2 = hist + (L,)
            _apply(sc, N, tr, L, fresh_first, fails, stats, True, h2)
            transitions += 1
            evals += len(hist) + 1
            k = _key(sc, N, tr)
            if len(k) == 3 and k[1] != "?":
                keys3.add(k[2])
            if k not in seen:
                if len(seen) >= STATE_CAP:
                    closed = False
                    continue
                seen[k] = h2
                queue.append(h2)
            if len(fails) > 20:
                break
        if len(fails) > 20:
            closed = False
            break
    if not closed and not fallback and len(fails) <= 20:
        fails.append({"site": "canonical state graph does not close (tracked turns drift from the accumulated rotation)", "msg": f"{len(seen)} states reached the cap",
                      "data": {"states": len(seen)}})
    stats.update({"max_states_per_config": len(seen), "max_depth": maxdepth, "fixpoint_closed": int(closed), "n_configs": 1,
                  "n_fresh_builds": builds[0], "max_turn_offset_classes": len(keys3)})
    nontriv = len(seen) >= 8 and stats.get("n_turn_up", 0) > 0 and stats.get("n_turn_down", 0) > 0
    oc = ["closed" if closed else "not-closed"] + [f"key_turn_offset={k}" for k in sorted(keys3)]
    return {"fails": _dedup(fails), "nontrivial": nontriv, "evals": evals, "states": len(seen), "transitions": transitions, "stats": stats, "outcome": oc}


# ------------------------------------------------------------------------------------------------
# exact integer-quaternion increments (depth bounded)
# ------------------------------------------------------------------------------------------------
ALPHA = 2 * math.atan2(1, 2)  # rotation of quaternion (2,0,0,1)
BETA = 2 * math.atan2(1, 3)  # rotation of quaternion (3,0,0,1);  ALPHA + BETA = pi/2 exactly


def _zmul(z, w):
    a, b = z
    c, d = w
    x, y = a * c - b * d, a * d + b * c
    g = math.gcd(abs(x), abs(y)) or 1
    x, y = x // g, y // g
    if x < 0 or (x == 0 and y < 0):
        x, y = -x, -y  # +-p is the same rotation
    return (x, y)


IQ_LETTERS = [("a", 1), ("a", -1), ("b", 1), ("b", -1), ("rep", 0), ("reset", 0)]


def check_intquat(case):
    depth = case["depth"]
    sc = Scen(case, exact=True)
    fails, stats = [], {}
    evals = 0
    fresh_cache = {}

    def fresh_first(z):
        if z not in fresh_cache:
            s2 = Scen(case, exact=True)
            fresh_cache[z] = s2.ask(s2.q_intquat(z))
        return fresh_cache[z]

    def apply(st, L, record, hist):
        """st = dict(i,j,z,acc_defined,base,i0,j0,last)"""
        kind, s = L
        if kind == "reset":
            sc.joint.reset()
            st["e"] = None
            st["last"] = None
            return
        before = sc.fields()
        if kind == "a":
            st["i"] += s
            st["z"] = _zmul(st["z"], (2, s))
        elif kind == "b":
            st["j"] += s
            st["z"] = _zmul(st["z"], (3, s))
        try:
            a = sc.ask(sc.q_intquat(st["z"]))
        except RuntimeError as e:
            if record:
                fails.append({"site": "Revolute.l raises on an exact quadrant boundary", "msg": f"{type(e).__name__}: {e} at quaternion {st['z']} after {hist}",
                              "data": {"history": list(hist), "z": list(st["z"])}})
            st["dead"] = True
            return
        after = sc.fields()
        if record and before[1] != "?":
            d = after[1] - before[1]
            if d > 0:
                stats["n_turn_up"] = stats.get("n_turn_up", 0) + 1
            elif d < 0:
                stats["n_turn_down"] = stats.get("n_turn_down", 0) + 1
        true = st["i"] * ALPHA + st["j"] * BETA
        if st["i"] == st["j"]:
            true = st["i"] * (math.pi / 2)
            if record:
                stats["n_exact_boundary_queries"] = stats.get("n_exact_boundary_queries", 0) + 1
        if st["e"] is None:
            ff = fresh_first(st["z"])
            if record and not abs(a - ff) <= 1e-12:
                fails.append({"site": "Revolute.l first query after reset/re-assemble vs freshly assembled joint", "msg": f"{a!r} vs {ff!r} at {st['z']} after {hist}",
                              "data": {"history": list(hist), "z": list(st["z"])}})
            # offset between the reported branch and the true accumulated angle, in whole turns
            turns = round((a - sc.angle0 - true) / (2 * math.pi))
            st["e"] = turns
            err = abs(a - sc.angle0 - true - 2 * math.pi * turns)
            if record and not err <= TOL_ANGLE:
                fails.append({"site": "Revolute.l of a fresh tracker vs geometry mod 2pi", "msg": f"angle {a!r} at {st['z']} after {hist}", "data": {"history": list(hist), "z": list(st["z"])}})
        else:
            exp = sc.angle0 + true + 2 * math.pi * st["e"]
            err = abs(a - exp)
            if record:
                stats["max_err_angle"] = max(stats.get("max_err_angle", 0.0), err)
                if kind == "rep" and st["last"] is not None and not (abs(a - st["last"]) <= 1e-12 and before == after):
                    fails.append({"site": "Revolute.l repeated query vs unchanged angle and tracking state", "msg": f"{st['last']!r} -> {a!r} after {hist}", "data": {"history": list(hist)}})
                if not err <= TOL_ANGLE:
                    fails.append({"site": "Revolute.l vs angle0 + accumulated rotation", "msg": f"reported {a!r}, expected {exp!r} ({err / (2 * math.pi):.2f} turns off) at exact quaternion {st['z']} after {hist}",
                                  "data": {"history": list(hist), "z": list(st["z"]), "got": a, "expected": exp, "turns_off": round(err / (2 * math.pi), 3)}})
        st["last"] = a

    def replay(hist):
        sc.joint.reset()
        st = {"i": 0, "j": 0, "z": (1, 0), "e": 0, "last": None}
        for L in hist:
            apply(st, L, False, ())
            if st.get("dead"):
                break
        return st

    def key(st):
        pq, n = sc.fields()
        return (st["i"], st["j"], pq, n, st["e"])

    seen = {key(replay(())): ()}
    queue = deque([()])
    transitions = 0
    while queue:
        hist = queue.popleft()
        if len(hist) >= depth:
            continue
        for L in IQ_LETTERS:
            st = replay(hist)
            if st.get("dead"):
                break
            h2 = hist + (L,)
            apply(st, L, True, h2)
            transitions += 1
            evals += len(hist) + 1
            if st.get("dead"):
                continue
            k = key(st)
            if k not in seen:
                seen[k] = h2
                queue.append(h2)
        if len(fails) > 20:
            break
    stats.update({"max_states_intquat": len(seen), "n_configs": 1})
    nontriv = len(seen) >= 8 and stats.get("n_turn_up", 0) > 0 and stats.get("n_turn_down", 0) > 0 and stats.get("n_exact_boundary_queries", 0) > 0
    return {"fails": _dedup(fails), "nontrivial": nontriv, "evals": evals, "states": len(seen), "transitions": transitions, "stats": stats, "outcome": "intquat-depth-bounded"}


# ------------------------------------------------------------------------------------------------
# angle rate
# ------------------------------------------------------------------------------------------------
def check_ldot(case):
    seed = case["seed"]
    N = 16
    sc = Scen(case)
    sysm, joint = sc.system, sc.joint
    t = sysm.t0
    fails, stats = [], {}
    evals = 0
    nu = sysm.nu
    u_letters = [("generic0", ab.weyl(seed, 70, nu, -1.5, 1.5)), ("generic1", ab.weyl(seed, 71, nu, -1.5, 1.5)), ("zero", np.zeros(nu))]
    u_letters += [(f"e{i}", np.eye(nu)[i]) for i in range(nu)] + [(f"-e{i}", -np.eye(nu)[i]) for i in range(nu)]

    A_IB10 = ab.quat_to_A(sc.rb1.q0[3:]) if sc.rb1 is not None else np.eye(3)
    A_K1J0 = A_IB10.T @ sc.A_IJ0

    def ref_rate(q, u):
        if sc.rb1 is not None:
            A1 = ab.quat_to_A(q[sc.rb1.my_qDOF][3:])
            Om1 = A1 @ u[sc.rb1.my_uDOF][3:]
        else:
            A1 = np.eye(3)
            Om1 = np.zeros(3)
        A2 = ab.quat_to_A(q[sc.rb2.my_qDOF][3:])
        Om2 = A2 @ u[sc.rb2.my_uDOF][3:]
        e_c1 = (A1 @ A_K1J0)[:, sc.axis]
        return float((Om2 - Om1) @ e_c1)

    states = [("lattice", r, sc.q_lattice(r, N)) for r in range(N)]
    # off-manifold: generic non-unit quaternions and positions for both bodies
    qg = sc.q_init.copy()
    for b, kk in ((sc.rb1, 80), (sc.rb2, 81)):
        if b is not None:
            qg[b.my_qDOF] = np.concatenate([ab.generic_vec(seed, kk, 3, 1.0), ab.generic_quat(seed, kk + 5)])
    states.append(("off-manifold", -1, qg))
    for label, r, q in states:
        for uname, u in u_letters:
            got = float(joint.l_dot(t, q[joint.qDOF], u[joint.uDOF]))
            ref = ref_rate(q, u)
            evals += 1
            err = abs(got - ref)
            stats["max_err_ldot_formula"] = max(stats.get("max_err_ldot_formula", 0.0), err)
            if not err <= 1e-11 * max(1.0, abs(ref)):
                fails.append({"site": "Revolute.l_dot vs relative angular velocity about the axis", "msg": f"{got!r} vs {ref!r} at {label} {r}, u={uname}",
                              "data": {"state": label, "position": r, "u": uname, "got": got, "ref": ref}})
            if label == "lattice" and uname in ("generic0", "generic1"):
                # d/ds l(q + s*q_dot) with the live tracker (continuous tracking across quadrant boundaries)
                qd = sysm.q_dot(t, q, u)
                joint.reset()
                # walk the tracker to this pose in sub-quarter-turn steps
                for rr in range(0, r + 1):
                    sc.ask(sc.q_lattice(rr, N))
                D, est = fd.ddir(lambda x: np.array([sc.ask(x)]), q, qd, h=1e-3)
                evals += 8
                v, e, thr = fd.verdict(np.array([got]), D, est)
                stats["max_err_ldot_fd"] = max(stats.get("max_err_ldot_fd", 0.0), e)
                if v == "illcond":
                    stats["n_illcond"] = stats.get("n_illcond", 0) + 1
                elif v == "fail":
                    fails.append({"site": "Revolute.l_dot vs d/dt of the tracked angle along the flow", "msg": f"{got!r} vs {float(D[0])!r} (err {e:.2e} thr {thr:.2e}) at lattice {r}, u={uname}",
                                  "data": {"position": r, "u": uname, "got": got, "fd": float(D[0]), "est": est}})
    return {"fails": _dedup(fails), "nontrivial": evals >= 10, "evals": evals, "stats": stats, "outcome": "ldot"}


def check_ldot_frame(case):
    """angle rate with a prescribed-motion Frame (orientation A(t) turning about an axis that is NOT the joint axis) as first or
    second partner, evaluated at several times: the joint axis carried by the frame moves in space (seeded C25-i)"""
    from cardillo import System

    seed, axis = case["seed"], case["axis"]
    frame_first = case["pair"] == "Fm-RB"
    system = System(t0=J.T0)
    fr = J.make_subsystem("Fm", seed, 1)
    rb = J.make_subsystem("RB", seed, 2)
    f = fr._verif_fns
    A_IJ0 = J.generic_rotation(seed, 2)
    r_OJ0 = ab.generic_vec(seed, 3, 3, 0.6)
    s1, s2 = (fr, rb) if frame_first else (rb, fr)
    joint = J.make_joint("Revolute", axis, s1, s2, r_OJ0=r_OJ0.copy(), A_IJ0=A_IJ0.copy(), angle0=0.3)
    system.add(fr, rb, joint)
    J.assemble(system)
    q_init, _ = J.raw_q0(system)
    A_rb0 = ab.quat_to_A(np.asarray(rb.q0, float)[3:])
    fails, stats, evals = [], {}, 0
    nu = system.nu
    u_letters = [("generic0", ab.weyl(seed, 70, nu, -1.5, 1.5)), ("zero", np.zeros(nu))] + [(f"e{i}", np.eye(nu)[i]) for i in range(3, nu)]
    qs = [("q0", q_init.copy())]
    qg = q_init.copy()
    qg[rb.my_qDOF] = np.concatenate([ab.generic_vec(seed, 81, 3, 1.0), ab.generic_quat(seed, 86)])
    qs.append(("off-manifold", qg))
    for t in (J.T0, J.T0 + 0.37, J.T0 + 1.1):
        Af = f.A(t)
        Om_f = ab.unskew(f.A_t(t) @ Af.T)  # inertial angular velocity of the frame
        for qname, q in qs:
            A2 = ab.quat_to_A(q[rb.my_qDOF][3:])
            for uname, u in u_letters:
                Om_b = A2 @ u[rb.my_uDOF][3:]
                if frame_first:
                    e_c1 = (Af @ f.A(J.T0).T @ A_IJ0)[:, axis]   # joint axis carried by the frame
                    ref = float((Om_b - Om_f) @ e_c1)
                else:
                    e_c1 = (A2 @ A_rb0.T @ A_IJ0)[:, axis]       # joint axis carried by the body
                    ref = float((Om_f - Om_b) @ e_c1)
                got = float(joint.l_dot(t, q[joint.qDOF], u[joint.uDOF]))
                evals += 1
                err = abs(got - ref)
                stats["max_err_ldot_frame"] = max(stats.get("max_err_ldot_frame", 0.0), err)
                if not err <= 1e-10 * max(1.0, abs(ref)):
                    fails.append({"site": "Revolute.l_dot vs relative angular velocity about the axis [prescribed-motion frame partner]",
                                  "msg": f"{got!r} vs {ref!r} at t={t:.3f}, {qname}, u={uname}", "data": {"t": t, "q": qname, "u": uname, "got": got, "ref": ref, "pair": case["pair"]}})
    return {"fails": _dedup(fails), "nontrivial": evals >= 10, "evals": evals, "stats": stats, "outcome": "ldot_frame"}


def check_rod_pair(case):
    """joint between the tip cross-section of one rod (xi1 = 1) and the root cross-section of another (xi2 = 0): the reported
    angle follows the relative rotation of exactly these two cross-sections, whatever the rest of the second rod does
    (seeded C25-k)"""
    from cardillo import System

    seed, axis = case["seed"], case["axis"]
    system = System(t0=J.T0)
    rod1 = J.make_subsystem("ROD", seed, 1)
    rod2 = J.make_subsystem("ROD", seed, 2)
    A_IJ0 = J.generic_rotation(seed, 2)
    joint = J.make_joint("Revolute", axis, rod1, rod2, xi1=1.0, xi2=0.0, A_IJ0=A_IJ0.copy(), angle0=case["angle0"])
    system.add(rod1, rod2, joint)
    J.assemble(system)
    q_init, _ = J.raw_q0(system)
    n = A_IJ0[:, axis]
    nn = rod2.nnodes_p
    fails, evals = [], 0
    for phi in (0.0, 0.4, -0.3, 1.2):
        for bend in (0.0, 0.9, -1.4):
            q = q_init.copy()
            for k in range(nn):
                d = rod2.qDOF[rod2.nodalDOF_p[k]]
                ang = phi + bend * k / max(1, nn - 1)      # root node turns by phi, the others by something else
                q[d] = ab.quat_mul(ab.axis_angle_quat(n, ang), q_init[d])
            joint.reset()
            got = float(joint.l(system.t0, q[joint.qDOF]))
            want = case["angle0"] + phi
            evals += 1
            if abs(got - want) > TOL_ANGLE:
                fails.append({"site": "Revolute between two rod cross-sections: reported angle vs relative rotation of the joined cross-sections",
                              "msg": f"reported {got!r}, expected {want!r} (root of rod 2 turned by {phi}, its tip by {phi + bend})", "data": {"phi": phi, "bend": bend, "got": got, "want": want}})
    return {"fails": _dedup(fails), "nontrivial": evals >= 10, "evals": evals, "outcome": "rod_pair"}


def check_copy(case):
    """a deep-copied system: the copy's joint reports through its OWN tracker, by every accessor (l and the public alias angle),
    and using the copy leaves the original's tracker alone (seeded C25-l)"""
    N = 16
    sc = Scen(case)
    fails, evals = [], 0
    t0 = sc.system.t0
    # original: walk a quarter of the lattice
    for r in range(0, 5):
        sc.ask(sc.q_lattice(r, N))
    before = sc.fields()
    copy = sc.system.deepcopy()
    jc = copy.contributions_map[sc.joint.name]
    seq = list(range(5, 5 + 2 * N + 3))  # more than two further turns on the copy
    for k, r in enumerate(seq):
        q = sc.q_lattice(r % N, N)
        acc = getattr(jc, "angle", None)
        a1 = float(acc(t0, q[jc.qDOF])) if callable(acc) and k % 2 == 0 else float(jc.l(t0, q[jc.qDOF]))
        a2 = float(jc.l(t0, q[jc.qDOF]))
        want = sc.angle0 + 2 * math.pi * r / N
        evals += 2
        for nm, a in (("angle" if k % 2 == 0 else "l", a1), ("l (repeated query)", a2)):
            if abs(a - want) > TOL_ANGLE:
                fails.append({"site": "joint of a deep-copied system: reported angle vs angle0 + accumulated rotation", "msg": f"{nm} reports {a!r}, expected {want!r} at lattice step {r}",
                              "data": {"accessor": nm, "step": r, "got": a, "want": want}})
    if sc.fields() != before:
        fails.append({"site": "using the joint of a deep copy changes the tracker of the original joint", "msg": f"{before} -> {sc.fields()}", "data": {}})
    # the original continues its own history
    a = sc.ask(sc.q_lattice(5, N))
    want = sc.angle0 + 2 * math.pi * 5 / N
    evals += 1
    if abs(a - want) > TOL_ANGLE:
        fails.append({"site": "original joint after its deep copy was used: reported angle vs angle0 + accumulated rotation", "msg": f"{a!r} vs {want!r}", "data": {"got": a, "want": want}})
    return {"fails": _dedup(fails), "nontrivial": evals >= 10, "evals": evals, "outcome": "copy", "states": len(seq), "transitions": len(seq)}


def check_tlc(case):
    """E4: TLC explores models/RevoluteTracker.tla; every model edge the implementation can take is replayed on a real joint"""
    from vp.scen import tlc_revolute

    try:
        rep = tlc_revolute.conformance(N=case["N"], K=case["K"], B=case["B"], axis=case["axis"], angle0=case["angle0"])
    except AttributeError as e:
        if "previous_quadrant" in str(e) or "n_full_rotations" in str(e):
            # the model is bound to the implementation through these two fields; without them the replay cannot be bound (the
            # history exploration of the other cases judges reported angles only and is unaffected)
            return {"fails": [], "nontrivial": False, "evals": 0, "excluded": "tracker fields not exposed under the modelled names: model replay not bound",
                    "outcome": "tlc:unbound", "stats": {"n_tlc_unbound": 1}}
        raise
    fails = []
    if not rep.get("ok"):
        if rep.get("error"):
            raise RuntimeError("harness: " + rep["error"])  # TLC itself failed: a broken harness, not a statement about cardillo
        for msg in rep["fails"][:3]:
            fails.append({"site": "implementation leaves the TLC-checked tracker model (conformance replay)", "msg": msg, "data": {"N": case["N"]}})
    return {"fails": _dedup(fails), "nontrivial": rep.get("edges_validated_against_impl", 0) > 50, "evals": rep.get("edges_validated_against_impl", 0),
            "states": rep.get("model_states", 0), "transitions": rep.get("model_edges", 0), "traces": rep.get("edges_validated_against_impl", 0),
            "outcome": "tlc", "stats": {"tlc_model_states": rep.get("model_states", 0), "tlc_model_edges": rep.get("model_edges", 0),
                                         "tlc_edges_replayed_on_impl": rep.get("edges_validated_against_impl", 0),
                                         "tlc_model_states_unreachable_for_impl": rep.get("model_states_unreachable_for_impl", 0)}}


class OffsetModified(Exception):
    """the object handed to Revolute(angle0=...) changed its value while the joint was used"""


def check(case):
    try:
        return _check(case)
    except OffsetModified as e:
        return {"fails": [{"site": "the angle offset object handed to the joint is modified in place by the joint", "msg": str(e), "data": {}}],
                "nontrivial": True, "evals": 1, "outcome": "offset_modified"}


def _check(case):
    if case["kind"] == "copy":
        return check_copy(case)
    if case["kind"] == "rod_pair":
        return check_rod_pair(case)
    if case["kind"] == "ldot_frame":
        return check_ldot_frame(case)
    if case["kind"] == "tlc":
        return check_tlc(case)
    if case["kind"] == "lattice":
        return check_lattice(case)
    if case["kind"] == "intquat":
        return check_intquat(case)
    return check_ldot(case)


def _dedup(fails):
    seen = {}
    for f in fails:
        seen.setdefault(f["site"], f)  # first = shortest history per site
    return list(seen.values())


def extra_coverage(results, tier, seed):
    lat = [r for r in results if "fixpoint_closed" in (r.get("stats") or {})]
    return {
        "fixpoint_reached": bool(lat) and all(r["stats"]["fixpoint_closed"] == 1 for r in lat),
        "lattice_configs": len(lat),
        "max_depth": max([r["stats"].get("max_depth", 0) for r in lat] or [0]),
    }
