"""C23  Static solvers return equilibria and are frame-indifferent.

E1 over executions.  One case = one static problem (scene x formulation x load x load steps x solver options),
solved in every rigid placement of the placement alphabet.  At EVERY returned row of EVERY placement the harness
recomputes, with the System's own methods, the equilibrium residual  h + W_g la_g + W_c la_c + W_N la_N,  g, c, g_S and
min(la_N, g_N);  a run that returns fewer rows than requested must have said so (warning / message / exception);
the equilibria of the moved problem must be the moved equilibria of the base problem (node positions r -> c + A r,
cross-section / body orientations A_i -> A A_i).
"""
import math
import re
import numpy as np

ID = "C23"
LEVEL = "exploration"
RULE = (
    "complete product of: clamped cantilevers over rod formulations {Quaternion p=1,2,3; SE3; R12 p=1,2} x {displacement-based, mixed} x "
    "constraint sets {None,[1,2],[0,1,2],[1,2,4,5],[0..5]} x nel x tip loads {force -e2,+e2,e3,generic; body moment e3,generic; both; "
    "displacement-controlled tip support without/with force} x load steps x solver options {tight 1e-10, default 1e-6}; large loads x "
    "{2,3,30 Newton iterations} for natural early stops, also with dead loads (not scaled with the load factor: a stop in the very first load step); cantilever tip against a frictionless plane; point mass on three springs over a "
    "plane (5 load paths x force/compliance springs x stiff/soft, progress bar on for > 1 load step); rigid body on a revolute joint with torsional spring with/without plane "
    "contact; Riks on the 1-DOF truss (la_arc0 x iter_goal x max_load_steps), on cantilevers and on the point-mass scene; every problem "
    "solved in each rigid placement {I, quarter turn about e3, generic rotation+translation (+ quarter turn about e1, half turn, "
    "translation in the thorough tier)}.  A case is non-trivial if at least one run returned a row whose configuration or multipliers "
    "differ from the initial ones by > 1e-6, or stopped early"
)
ASSUMPTIONS = [
    "'within the solver tolerance' = 100 * sqrt(n_unknowns) * (newton_atol + newton_rtol * force scale) per residual component, the force "
    "scale being max(1, |h|, |W_g la_g|, |W_c la_c|, |W_N la_N|) at the row (fsolve accepts rms(f / (atol + rtol |f_initial|)) < 1)",
    "a message = a warning or printed text that mentions the stop itself (load step / returning / stopped / maximum ...), or an exception; "
    "the generic 'fsolve is not converged' warning of the Newton helper alone does not say that the run was cut short",
    "moved equilibria are compared at 1e-6 (tight options) / 1e-3 (default options) on node positions and rotation matrices built from the "
    "nodal quaternions by an independent reference map; the 'soft' point-mass scene (several equilibria) is not frame-compared",
    "Riks runs of a base and a moved problem are compared only if both took the same steps (same number of rows, same load factors)",
    "the early-stop contract under forced non-convergence is C21's; only natural stops are looked at here",
]
MIN_NONTRIVIAL = 50
MIN_OUTCOMES = 14  # (kept well below the 21 classes of the unchanged tree so that a legitimate repair that makes a class disappear is not reported as broken) 21 classes on the unchanged tree: {Newton,Riks}[scene]:{complete,early_stop} and contact[scene]:{open,closed,closes,opens}; a run in
#                    which a whole class vanishes (e.g. no contact ever closes because the solver only stops loudly) does not exercise the clause
CASE_TIMEOUT = 600

SAYS_SO = re.compile(r"(?i)load step|returning|stopp|early|abort|max_load_steps|maxim|not reached|incomplete|truncat")
TOLF = {"tight": 1e-6, "default": 1e-3}


# ------------------------------------------------------------------------------------------------
# enumeration
# ------------------------------------------------------------------------------------------------
def _forms(nel, cons_list=None, interps=None, mixed=(False, True)):
    from vp.scen.statics import INTERPS, CONS

    out = []
    for cons in (CONS if cons_list is None else cons_list):
        for mx in mixed:
            for interp, p in (INTERPS if interps is None else interps):
                out.append({"interp": interp, "p": p, "mixed": mx, "cons": cons, "nel": nel})
    return out


STD_LOADS = ["F-e2", "F+e2", "Fe3", "Fgen", "Me3", "Mgen", "FMgen"]


def cases(tier, seed):
    from vp.scen.statics import PM_LOADS, RB_LOADS

    thorough = tier == "thorough"
    P3 = ["I", "rot90z", "generic"]
    P6 = P3 + ["rot90x", "halfturn_y", "trans"]
    out = []

    def add(**kw):
        kw["seed"] = seed
        out.append(kw)

    # --- Riks on the 1-DOF truss (no placement: the model is an abstract angle)
    for la0 in (1e-6, 1e-3, 1e-2):
        for ig in (2, 4):
            for mls in (2000, 5):      # 2000: enough for the whole path [-1, 1] (<= 700 steps); 5: stops inside the span
                add(kind="riks_truss", la_arc0=la0, iter_goal=ig, max_load_steps=mls, places=["I"])
    # --- point mass on springs over a plane
    for stiff in ("stiff", "soft"):
        for load in PM_LOADS:
            for spring in ("force", "compliance", "kelvin_voigt_u0"):
                for n in (1, 3, 10):
                    add(kind="pm_plane", load=load, spring=spring, stiff=stiff, nsteps=n, opts="tight", verbose=(n != 1), places=P6 if thorough else P3)
    # --- rigid body arm
    for contact in (True, False):
        for load in RB_LOADS:
            for spring in ("force", "compliance"):
                for n in (1, 3) + ((10,) if thorough else ()):
                    add(kind="rb_arm", load=load, spring=spring, contact=contact, nsteps=n, opts="tight", places=P6 if thorough else P3)
    # --- Riks on the point-mass scene (contact never closes / closes)
    for load in ("stay_open", "press", "stay_closed"):
        add(kind="riks_pm", load=load, spring="force", stiff="stiff", la_arc0=1e-2, iter_goal=4, max_load_steps=60, places=P3)
    # the same scene assembled with initial velocities and dampers: a static solver works at zero velocity (seeded C23-f for Newton, C23-k for Riks)
    add(kind="riks_pm", load="stay_open", spring="kelvin_voigt_u0", stiff="stiff", la_arc0=1e-2, iter_goal=4, max_load_steps=60, places=P3)
    add(kind="riks_pm", load="stay_open", spring="kelvin_voigt_u0", stiff="stiff", la_arc0=1e-2, iter_goal=3, max_load_steps=60, places=P3, no_contact=True)
    add(kind="riks_pm", load="big", spring="kelvin_voigt_u0", stiff="soft", la_arc0=1e-2, iter_goal=3, max_load_steps=200, places=P3, no_contact=True)
    # solver objects used a second time / options changed between construction and solve (seeded C23-l, C23-m)
    add(kind="riks_pm", load="big", spring="force", stiff="soft", la_arc0=1e-2, iter_goal=3, max_load_steps=6, places=P3, no_contact=True, second_solve=True)
    add(kind="riks_pm", load="big", spring="force", stiff="soft", la_arc0=1e-2, iter_goal=3, max_load_steps=60, places=P3, no_contact=True, tighten=True)
    add(kind="riks_truss", la_arc0=1e-3, iter_goal=4, max_load_steps=5, places=["I"], second_solve=True)
    # --- cantilevers, Newton
    nels = (1, 2, 4) if thorough else (2,)
    for nel in nels:
        for form in _forms(nel):
            for load in STD_LOADS:
                for n in (1, 3, 10) if thorough else (1, 3):
                    add(kind="cantilever", form=form, load=load, nsteps=n, opts="tight",
                        places=(P6 if (thorough and nel == 2 and n == 3) else P3) + (["near_halfturn_mixed"] if n == 3 else []))
            for load in ("disp", "dispF"):
                for n in (3, 10) if thorough else (3,):
                    add(kind="cantilever", form=form, load=load, nsteps=n, opts="tight", places=P3)
    if not thorough:
        for nel in (1, 4):
            for form in _forms(nel, cons_list=[None]):
                add(kind="cantilever", form=form, load="FMgen", nsteps=3, opts="tight", places=P3)
    # default solver options
    for nel in nels:
        for form in _forms(nel, cons_list=[None] if not thorough else [None, [1, 2], [0, 1, 2]]):
            for load in STD_LOADS:
                add(kind="cantilever", form=form, load=load, nsteps=3, opts="default", places=P3)
    # natural early stops: large loads, few Newton iterations / large load steps
    for form in _forms(2, cons_list=[None] if not thorough else [None, [1, 2]]):
        for load in ("Fbig", "FMbig"):
            for n in (1, 3):
                for opts in ("few2", "few3", "tight"):
                    add(kind="cantilever", form=form, load=load, nsteps=n, opts=opts, places=P3)
    # dead loads (not scaled with t): the first load step is a real solve and may be the one that fails
    for form in _forms(2, cons_list=[None] if not thorough else [None, [1, 2]]):
        for load in ("deadFbig", "deadFM"):
            for n in (1, 3):
                for opts in ("few2", "few3", "tight"):
                    add(kind="cantilever", form=form, load=load, nsteps=n, opts=opts, places=P3)
    # cantilever tip against a plane
    for form in _forms(2, cons_list=[None] if not thorough else [None, [1, 2]]):
        for load in ("F-e2", "F+e2", "Fgen"):
            for n in (1, 3):
                add(kind="rod_contact", form=form, load=load, nsteps=n, opts="tight", gap=0.1, places=P3)
    # Riks on cantilevers
    for form in _forms(2, cons_list=[None] if not thorough else [None, [1, 2], [0, 1, 2]]):
        for load in ("Fgen", "FMgen"):
            for mls in (60, 3):        # 60: the span end is normally reached after ~20 steps (a path that turns back at a limit point is cut)
                add(kind="riks_rod", form=form, load=load, la_arc0=1e-2, iter_goal=4, max_load_steps=mls, opts="tight", places=P3)
    return out


# ------------------------------------------------------------------------------------------------
# oracles
# ------------------------------------------------------------------------------------------------
def _absmax(x):
    x = np.asarray(x, float)
    if x.size == 0:
        return 0.0
    m = float(np.max(np.abs(x)))
    return m if m == m else float("inf")


def row_residuals(system, t, q, la_g, la_c, la_N):
    """-> ({part: max |residual|}, force scale) recomputed with the System's own methods"""
    u0 = np.zeros(system.nu)
    h = system.h(t, q, u0)
    fg = system.W_g(t, q, format="csr") @ la_g
    fc = system.W_c(t, q, format="csr") @ la_c
    fN = system.W_N(t, q, format="csr") @ la_N
    parts = {"equilibrium": _absmax(h + fg + fc + fN)}
    if system.nla_g:
        parts["g"] = _absmax(system.g(t, q))
    if system.nla_c:
        parts["c"] = _absmax(system.c(t, q, u0, la_c))
    if system.nla_S:
        parts["g_S"] = _absmax(system.g_S(t, q))
    gN = None
    if system.nla_N:
        gN = np.asarray(system.g_N(t, q), float)
        parts["Signorini"] = _absmax(np.minimum(la_N, gN))
    fscale = max(1.0, _absmax(h), _absmax(fg), _absmax(fc), _absmax(fN))
    return parts, fscale, gN


def _sol_rows(sol, system):
    t = np.atleast_1d(np.asarray(sol.t, float))
    q = np.asarray(sol.q, float).reshape(-1, system.nq) if np.size(sol.q) else np.zeros((0, system.nq))
    n = min(len(t), len(q))

    def arr(a, m):
        if a is None:
            return np.zeros((n, m))
        a = np.asarray(a, float)
        return a.reshape(len(a), -1) if a.size else np.zeros((len(a) if a.ndim else n, m))

    la_g, la_c, la_N = arr(getattr(sol, "la_g", None), system.nla_g), arr(getattr(sol, "la_c", None), system.nla_c), arr(getattr(sol, "la_N", None), system.nla_N)
    n = min(n, len(la_g), len(la_c), len(la_N))
    return n, t, q, la_g, la_c, la_N


def _poses(kind, obj, q):
    """-> list of (r, A) of the nodes / of the body, with the independent reference map for the rotations"""
    from vp.core.alphabet import quat_to_A

    if kind in ("cantilever", "rod_contact", "riks_rod"):
        qb = q[obj.qDOF]
        out = []
        for k in range(obj.nnodes_r):
            r = qb[obj.nodalDOF_r[k]]
            p = qb[obj.nodalDOF_p[k]]
            out.append((r, quat_to_A(p) if np.linalg.norm(p) > 0 else None))
        return out
    qb = q[obj.qDOF]
    if kind in ("pm_plane", "riks_pm"):
        return [(qb[:3], None)]
    return [(qb[:3], quat_to_A(qb[3:7]))]


def _build(case, place):
    from vp.scen import statics as S

    k = case["kind"]
    seed = case.get("seed", 0)
    if k in ("cantilever", "riks_rod"):
        return S.build_cantilever(case["form"], case["load"], place, seed)
    if k == "rod_contact":
        return S.build_cantilever(case["form"], case["load"], place, seed, contact_gap=case["gap"])
    if k in ("pm_plane", "riks_pm"):
        return S.build_pm_plane(case["load"], place, case["spring"], seed, case["stiff"], contact=not case.get("no_contact", False))
    if k == "rb_arm":
        return S.build_rb_arm(case["load"], place, case["spring"], case["contact"], seed)
    if k == "riks_truss":
        return S.build_truss()
    raise KeyError(k)


def _solve(case, system):
    """-> dict(sol|None, exc|None, text, nwarn, said, solver, opts, span, mls)"""
    from vp.scen import statics as S
    from vp.core.quiet import capture
    from cardillo.solver import Newton, Riks, SolverOptions

    k = case["kind"]
    riks = k.startswith("riks")
    if k == "riks_truss":
        opts = SolverOptions(newton_atol=1e-8, newton_rtol=1e-8)
        span = [-1.0, 1.0]
    else:
        opts = S.options(case.get("opts", "tight"))
        span = [0.0, 1.0]
    out = {"sol": None, "exc": None, "solver": "Riks" if riks else "Newton", "opts": opts, "span": span}
    with capture() as rec:
        try:
            if riks:
                use = opts
                if case.get("tighten"):
                    # ONE options object shared between construction and solve: loose while the solver is built, tight afterwards
                    import dataclasses

                    use = dataclasses.replace(opts, newton_atol=1e-4, newton_rtol=1e-4)
                rk = Riks(system, la_arc0=case["la_arc0"], la_arc_span=np.array(span), iter_goal=case["iter_goal"], options=use,
                          max_load_steps=case["max_load_steps"])
                if case.get("tighten"):
                    use.newton_atol, use.newton_rtol = opts.newton_atol, opts.newton_rtol
                out["sol"] = rk.solve()
                if case.get("second_solve"):
                    # the same solver object used again (e.g. after the first call stopped at max_load_steps): what is returned are equilibria
                    out["sol"] = rk.solve()
            else:
                out["sol"] = Newton(system, n_load_steps=case["nsteps"], verbose=bool(case.get("verbose", False)), options=opts).solve()
        except (AssertionError, RuntimeError) as e:       # a loud stop; anything else is a crash and is left to the runner
            out["exc"] = f"{type(e).__name__}: {str(e)[:120]}"
    msgs = [str(w.message) for w in (rec["warns"] or [])]
    text = rec["out"].getvalue()
    out["said"] = any(SAYS_SO.search(m) for m in msgs) or bool(SAYS_SO.search(text))
    out["nwarn"] = len(msgs)
    return out


def check(case):
    from vp.scen import statics as S

    kind = case["kind"]
    letters = {k: v for k, v in case.items() if k not in ("places", "seed")}
    fails = {}
    stats = {}
    outcomes = set()
    evals = 0
    nontrivial = False

    def fail(site, msg, **data):
        key = (site, data.get("row_kind"))
        e = fails.get(key)
        if e is None:
            fails[key] = {"site": site, "msg": f"{letters}: {msg}", "data": dict(letters, count=1, **data)}
            return
        cnt = e["data"]["count"] + 1
        if data.get("value", 0.0) > e["data"].get("value", 0.0):
            e["msg"] = f"{letters}: {msg}"
            e["data"] = dict(letters, **data)
        e["data"]["count"] = cnt

    def stat_max(name, v):
        if v == v:
            stats[name] = max(stats.get(name, 0.0), float(v))

    runs = {}
    for place in case["places"]:
        system, obj = _build(case, place)
        run = _solve(case, system)
        solver = run["solver"]
        opts = run["opts"]
        if run["sol"] is None:
            # a loud stop (e.g. Riks' assert as soon as a contact closes); counted, not an outcome class of the vacuity guard
            stats[f"n_raised_{solver}_{kind}_{run['exc'].split(':')[0]}"] = stats.get(f"n_raised_{solver}_{kind}_{run['exc'].split(':')[0]}", 0) + 1
            runs[place] = None
            nontrivial = True        # a loud stop exercises the 'says so' clause
            continue
        n, t, q, la_g, la_c, la_N = _sol_rows(run["sol"], system)
        nunk = system.nq + system.nla_g + system.nla_c + system.nla_N
        x0 = np.concatenate([system.q0, system.la_g0, system.la_c0, system.la_N0])
        contact_pattern = []
        for i in range(n):
            parts, fscale, gN = row_residuals(system, t[i], q[i], la_g[i], la_c[i], la_N[i])
            evals += 1
            tol = 100.0 * math.sqrt(nunk) * (opts.newton_atol + opts.newton_rtol * fscale)
            if solver == "Riks":
                row_kind = "first" if i == 0 else ("last" if i == n - 1 else "interior")
            else:
                row_kind = "initial" if i == 0 else "step"
            for part, v in parts.items():
                stat_max(f"max_res_{solver}_{part}_{row_kind}_{case.get('opts', 'tight') if solver == 'Newton' else 'riks'}", v)
                if not (v <= tol):
                    fail(f"{solver}: {part} residual at returned row", f"place={place} row {i} (t={t[i]:.6g}, {row_kind}): |{part}| = {v:.3e} > tol {tol:.1e}",
                         part=part, row=i, row_kind=row_kind, place=place, t=float(t[i]), value=v, tol=tol, rows=n)
            if gN is not None:
                contact_pattern.append("c" if (la_N[i] > 1e-9).any() else "o")
            if i > 0 and not nontrivial:
                xi = np.concatenate([q[i], la_g[i], la_c[i], la_N[i]])
                if _absmax(xi - x0) > 1e-6:
                    nontrivial = True
        if contact_pattern:
            s = "".join(contact_pattern)
            outcomes.add(f"contact[{kind}]:" + ("closed" if "o" not in s else "open" if "c" not in s else "closes" if s[0] == "o" else "opens"))
        # --- early stop?
        if solver == "Newton":
            early = n < case["nsteps"] + 1
            why = f"{n} of {case['nsteps'] + 1} rows"
        else:
            inside = n > 0 and run["span"][0] <= t[n - 1] <= run["span"][1]
            early = inside
            why = f"last load factor {t[n - 1] if n else float('nan'):.4g} inside the span {run['span']} after {n - 1} steps"
        outcomes.add(f"{solver}[{kind}]:{'early_stop' if early else 'complete'}")
        if early:
            nontrivial = True
            if not run["said"]:
                fail(f"{solver}: early stop without a message", f"place={place}: {why}, {run['nwarn']} warnings, none mentions the stop", place=place, rows=n)
        runs[place] = (system, obj, n, t, q)
        stats["rows"] = stats.get("rows", 0) + n

    # --- frame indifference
    base = runs.get("I")
    frame_ok = base is not None and not (kind in ("pm_plane", "riks_pm") and case.get("stiff") == "soft") and kind != "riks_truss"
    if frame_ok:
        _, obj0, n0, t0, q0 = base
        tolf = TOLF.get(case.get("opts", "tight"), 1e-6)
        for place in case["places"]:
            if place == "I" or runs.get(place) is None:
                continue
            c, A = S.placement(place, case.get("seed", 0))
            _, obj1, n1, t1, q1 = runs[place]
            m = min(n0, n1)
            if n0 != n1:
                stats["n_rowcount_differs_between_placements"] = stats.get("n_rowcount_differs_between_placements", 0) + 1
            if kind.startswith("riks"):
                if n0 != n1 or _absmax(t0[:m] - t1[:m]) > 1e-6:
                    stats["n_riks_paths_not_comparable"] = stats.get("n_riks_paths_not_comparable", 0) + 1
                    continue
            for i in range(m):
                P0 = _poses(kind, obj0, q0[i])
                P1 = _poses(kind, obj1, q1[i])
                er = max(_absmax(r1 - (c + A @ r0)) for (r0, _), (r1, _) in zip(P0, P1))
                eA = max([_absmax(A1 - A @ A0) for (_, A0), (_, A1) in zip(P0, P1) if A0 is not None and A1 is not None] or [0.0])
                evals += 1
                stat_max(f"max_frame_dev_{case.get('opts', 'tight')}", max(er, eA))
                if not (max(er, eA) <= tolf):
                    fail("moved problem does not return the moved equilibria", f"place={place} row {i}: position dev {er:.3e}, orientation dev {eA:.3e} > {tolf:.0e}",
                         place=place, row=i, value=max(er, eA), dev_r=er, dev_A=eA)
    return {"fails": list(fails.values()), "nontrivial": bool(nontrivial), "evals": evals, "states": evals, "transitions": evals,
            "outcome": sorted(outcomes), "stats": stats}


def extra_coverage(results, tier, seed):
    return {"note": "Riks.R omits W_N la_N (confirmed by reading): observable effect is an AssertionError as soon as a contact closes "
                    "(outcome 'Riks:raised:AssertionError' of the riks_pm cases), no point is returned in that situation"}
