"""Constrained mechanisms and residual recomputation for the integrator checks C17 / C19.

Every builder returns a freshly assembled System made of fresh objects.  Joint frames and gravity
are in general position (generic rotation Q) so that no constraint row is axis aligned.  Initial
velocities are made consistent by the harness (least-squares projection of a stated generic
velocity onto {u : g_dot(t0, q0, u) = 0}, computed on a throw-away twin), never by the library.
"""
import math
import numpy as np

GRAV = np.array([0.0, 0.0, -9.81])
_QAX = np.array([0.3, -1.2, 2.0])


def _Q():
    from vp.core.alphabet import axis_angle_quat, quat_to_A

    return quat_to_A(axis_angle_quat(_QAX, 0.7))


def options(tol=1e-10, **kw):
    from cardillo.solver import SolverOptions

    return SolverOptions(newton_atol=tol, newton_rtol=tol, fixed_point_atol=tol, fixed_point_rtol=tol,
                         fixed_point_max_iter=kw.pop("fixed_point_max_iter", 2000), newton_max_iter=kw.pop("newton_max_iter", 30), **kw)


def _rb(mass, theta, r, p, name):
    from cardillo.discrete import RigidBody

    p = np.asarray(p, float)
    q0 = np.concatenate([np.asarray(r, float), p / np.linalg.norm(p)])
    return RigidBody(mass, np.diag(np.asarray(theta, float)), q0, np.zeros(6), name=name)


def _spring(system, body, anchor, B_r, k, l_ref, name="spring", compliance_form=False):
    """linear spring (force form by default) between the inertial point `anchor` and the body point B_r"""
    from cardillo.interactions import TwoPointInteraction
    from cardillo.force_laws import Spring

    tpi = TwoPointInteraction(system.origin, body, B_r_CP1=np.asarray(anchor, float), B_r_CP2=np.asarray(B_r, float), name=name + "_tpi")
    return [tpi, Spring(tpi, k, l_ref=l_ref, compliance_form=compliance_form, name=name)]


def _moving_frame(from_rest=False):
    """frame that translates and rotates about a generic axis (rheonomic constraint partner); from_rest: the motion
    starts with zero velocity at t=0 (1 - cos instead of sin)"""
    from cardillo.discrete import Frame
    from vp.core.alphabet import skew

    n = np.array([0.6, -0.3, 0.74])
    n = n / np.linalg.norm(n)
    S = skew(n)
    a, w = 0.35, 1.3
    amp = np.array([0.2, -0.1, 0.15])
    th = lambda t: a * math.sin(w * t)
    th_t = lambda t: a * w * math.cos(w * t)
    th_tt = lambda t: -a * w * w * math.sin(w * t)
    A = lambda t: np.eye(3) + math.sin(th(t)) * S + (1 - math.cos(th(t))) * S @ S
    A_t = lambda t: th_t(t) * S @ A(t)
    A_tt = lambda t: th_tt(t) * S @ A(t) + th_t(t) ** 2 * S @ S @ A(t)
    r = lambda t: amp * math.sin(2.1 * t)
    r_t = lambda t: amp * 2.1 * math.cos(2.1 * t)
    r_tt = lambda t: -amp * 2.1 ** 2 * math.sin(2.1 * t)
    if from_rest:
        a, w = 0.9, 9.0  # fast enough that the frame really moves within the first 20 steps of the smallest step size too
        th = lambda t: a * (1 - math.cos(w * t))
        th_t = lambda t: a * w * math.sin(w * t)
        th_tt = lambda t: a * w * w * math.cos(w * t)
        r = lambda t: amp * (1 - math.cos(7.0 * t))
        r_t = lambda t: amp * 7.0 * math.sin(7.0 * t)
        r_tt = lambda t: amp * 49.0 * math.cos(7.0 * t)
    return Frame(r_OP=r, r_OP_t=r_t, r_OP_tt=r_tt, A_IB=A, A_IB_t=A_t, A_IB_tt=A_tt, name="drive")


def _contributions(scen, system, spring, grav=True):
    """(bodies, everything else) of scenario `scen`; positions satisfy the joints by construction"""
    from cardillo.discrete import PointMass
    from cardillo.constraints import Revolute, Spherical, Prismatic, Cylindrical, RigidConnection, FixedDistance
    from cardillo.forces import Force
    from vp.core.alphabet import axis_angle_quat

    Q = _Q()
    pg = axis_angle_quat([1.0, 0.4, -0.6], 0.9)  # generic body orientation
    O = system.origin
    bodies, rest = [], []

    def gravity(b, m):
        if grav:
            rest.append(Force(m * GRAV, b, name="grav_" + b.name))

    if scen == "rb_pend":
        b = _rb(1.3, (0.06, 0.09, 0.12), Q @ [0.7, 0.0, 0.0], pg, "pend")
        bodies = [b]
        rev = Revolute(O, b, 1, r_OJ0=np.zeros(3), A_IJ0=Q, name="rev")  # axis Q e_y: nearly horizontal
        rest.append(rev)
        gravity(b, 1.3)
        if spring:
            rest += _spring(system, b, [0.5, 0.5, 0.6], [0.1, 0.05, -0.1], 40.0, 0.4)
            # the "+spring" force letter also carries an actuator on the joint (W_tau la_tau couples to the constraint)
            from cardillo.actuators import PDcontroller

            rest.append(PDcontroller(rev, 6.0, 0.4, np.array([0.5, 0.0])))
    elif scen == "double_pend":
        b1 = _rb(1.0, (0.05, 0.08, 0.1), Q @ [0.5, 0.0, 0.0], pg, "b1")
        b2 = _rb(0.7, (0.03, 0.05, 0.04), Q @ [1.4, 0.0, 0.1], (1, 0, 0, 0), "b2")
        bodies = [b1, b2]
        rest.append(Spherical(O, b1, r_OJ0=np.zeros(3), name="sph"))
        rev = Revolute(b1, b2, 1, r_OJ0=Q @ [1.0, 0.0, 0.0], A_IJ0=Q, name="rev")
        rest.append(rev)
        gravity(b1, 1.0)
        gravity(b2, 0.7)
        if spring:
            rest += _spring(system, b2, [1.0, 1.0, 0.0], [0.1, 0.0, 0.0], 25.0, 0.8)
            from cardillo.actuators import Motor

            rest.append(Motor(rev, lambda t: 1.5 + 2.0 * t))
    elif scen == "pm_pend":
        d = np.array([0.8, 0.36, -0.48])
        pm = PointMass(2.0, q0=1.1 * d / np.linalg.norm(d), u0=np.zeros(3), name="pm")
        bodies = [pm]
        fd = FixedDistance(O, pm)
        fd.name = "rod"
        rest.append(fd)
        gravity(pm, 2.0)
        if spring:
            rest += _spring(system, pm, [0.0, 1.0, 0.5], [0.0, 0.0, 0.0], 30.0, 0.9)
    elif scen == "pm_chain":
        # three point masses in a chain hanging from the origin (used by C19)
        pts = [np.array([0.5, 0.1, -0.2]), np.array([1.0, 0.0, -0.5]), np.array([1.4, 0.3, -0.6])]
        pms = [PointMass(m, q0=p, u0=np.zeros(3), name=f"pm{i}") for i, (m, p) in enumerate(zip((1.0, 0.6, 0.8), pts))]
        bodies = pms
        prev = O
        for i, pm in enumerate(pms):
            fd = FixedDistance(prev, pm)
            fd.name = f"rod{i}"
            rest.append(fd)
            gravity(pm, pm.mass)
            prev = pm
        if spring:
            rest += _spring(system, pms[2], [2.0, 0.0, 0.0], [0.0, 0.0, 0.0], 20.0, 0.5)
    elif scen == "slider_crank":
        c, s = math.cos(1.0), math.sin(1.0)
        pin = Q @ [0.3 * c, 0.3 * s, 0.0]
        sl = Q @ [0.9, 0.0, 0.0]
        b1 = _rb(0.8, (0.01, 0.01, 0.02), 0.5 * pin, pg, "crank")
        b2 = _rb(0.5, (0.002, 0.02, 0.02), 0.5 * (pin + sl), (1, 0, 0, 0), "rod")
        b3 = _rb(1.1, (0.02, 0.03, 0.025), sl, pg, "slider")
        bodies = [b1, b2, b3]
        rest.append(Revolute(O, b1, 2, r_OJ0=np.zeros(3), A_IJ0=Q, name="rev"))
        rest.append(Spherical(b1, b2, r_OJ0=pin, name="sph1"))
        pr = Prismatic(O, b3, 0, r_OJ0=sl, A_IJ0=Q)
        pr.name = "prism"
        rest.append(pr)
        rest.append(Spherical(b2, b3, r_OJ0=sl, name="sph2"))
        gravity(b1, 0.8)
        gravity(b2, 0.5)
        gravity(b3, 1.1)
        if spring:
            rest += _spring(system, b3, Q @ [1.6, 0.0, 0.0], [0.0, 0.0, 0.0], 60.0, 0.6)
    elif scen == "rigid_pair":
        b1 = _rb(1.0, (0.05, 0.08, 0.1), [0.1, 0.0, 0.3], pg, "b1")
        b2 = _rb(0.6, (0.03, 0.02, 0.04), [0.5, 0.3, 0.2], (0.8, -0.2, 0.4, 0.4), "b2")
        bodies = [b1, b2]
        rc = RigidConnection(b1, b2, r_OJ0=np.array([0.3, 0.1, 0.25]), A_IJ0=Q, name="weld")
        rest.append(rc)
        gravity(b1, 1.0)
        gravity(b2, 0.6)
        if spring:
            rest += _spring(system, b2, [0.0, 0.0, 1.2], [0.1, 0.0, 0.05], 35.0, 0.7)
    elif scen == "cyl":
        rj = np.array([0.1, 0.2, 0.0])
        b = _rb(1.2, (0.04, 0.07, 0.05), rj + Q @ [0.2, 0.3, 0.0], pg, "b")
        bodies = [b]
        cy = Cylindrical(O, b, 0, r_OJ0=rj, A_IJ0=Q)
        cy.name = "cyl"
        rest.append(cy)
        gravity(b, 1.2)
        if spring:
            rest += _spring(system, b, rj + Q @ [1.0, 0.0, 0.0], [0.0, 0.0, 0.0], 30.0, 0.5)
    elif scen in ("driven_pend", "driven_pend_rest"):
        fr = _moving_frame(from_rest=scen.endswith("rest"))
        b = _rb(0.9, (0.04, 0.06, 0.05), fr.r_OP(0.0) + Q @ [0.0, 0.0, -0.6], pg, "pend")
        bodies = [b]
        rest.append(fr)
        rest.append(Revolute(fr, b, 1, r_OJ0=fr.r_OP(0.0), A_IJ0=fr.A_IB(0.0) @ Q, name="rev"))
        gravity(b, 0.9)
        if spring:
            rest += _spring(system, b, [0.6, 0.0, 0.0], [0.0, 0.05, 0.0], 30.0, 0.6)
    elif scen in ("spring_pend", "spring_pend_c"):
        # elastic pendulum: point mass on a force-form (compliance-form: _c) spring under gravity, no constraint (used by C19);
        # the spring direction W_c(q) turns with the mass (seeded C19-j)
        pm = PointMass(1.5, q0=np.array([0.6, 0.2, -0.5]), u0=np.zeros(3), name="pm")
        bodies = [pm]
        gravity(pm, 1.5)
        rest += _spring(system, pm, [0.0, 0.0, 0.0], [0.0, 0.0, 0.0], 80.0, 0.6, compliance_form=scen.endswith("_c"))
    elif scen == "free_top":
        # torque-free rigid body, no constraint (used by C19)
        b = _rb(1.0, (0.05, 0.08, 0.13), [0.0, 0.0, 0.0], pg, "top")
        bodies = [b]
    else:
        raise KeyError(scen)
    return bodies, rest


def _assemble(scen, spring, grav, u0=None, opts=None, t0=0.0):
    from cardillo import System
    from vp.core.quiet import quiet

    system = System(t0=t0)
    bodies, rest = _contributions(scen, system, spring, grav)
    if u0 is not None:
        k = 0
        for b in bodies:
            b.u0 = np.array(u0[k:k + b.nu], float)
            k += b.nu
    system.add(*bodies, *rest)
    with quiet():
        system.assemble(options=opts if opts is not None else options())
    return system


def desired_velocity(nu, level, seed=0):
    """generic velocity letter: level 0 = rest, 1 = moderate, 2 = fast"""
    from vp.core.alphabet import weyl

    if level == 0:
        return np.zeros(nu)
    return (1.5 if level == 1 else 3.5) * weyl(seed, 3 + level, nu)


def consistent_u0(scen, spring, level, seed=0, grav=True):
    """least-squares projection of the generic velocity letter onto g_dot(t0, q0, u) = 0 (harness side,
    dense, with the twin's own g_dot)"""
    import dataclasses

    twin = _assemble(scen, spring, grav, opts=dataclasses.replace(options(), compute_consistent_initial_conditions=False))
    u_des = desired_velocity(twin.nu, level, seed)
    if twin.nla_g == 0:
        return u_des
    t0, q0 = twin.t0, twin.q0
    chi = np.asarray(twin.g_dot(t0, q0, np.zeros(twin.nu)), float)
    G = np.array([np.asarray(twin.g_dot(t0, q0, e), float) - chi for e in np.eye(twin.nu)]).T  # nla_g x nu, exact (affine)
    corr, *_ = np.linalg.lstsq(G, G @ u_des + chi, rcond=None)
    return u_des - corr


def build(scen, spring=False, level=1, seed=0, grav=True, opts=None):
    u0 = consistent_u0(scen, spring, level, seed, grav)
    return _assemble(scen, spring, grav, u0=u0, opts=opts)


# --------------------------------------------------------------------------------------------
# running solvers
# --------------------------------------------------------------------------------------------
FIXED_STEP = ("Rattle", "BackwardEuler", "Moreau", "DSV_LU", "DSV_default", "DSV_LU_plain")


def run(system, solver, dt, nsteps, opts=None, dae_tol=(1e-7, 1e-9), ivp_tol=(1e-9, 1e-11)):
    import cardillo.solver as S
    from vp.core.quiet import quiet

    opts = opts if opts is not None else options()
    t1 = system.t0 + (nsteps - 0.5) * dt
    with quiet():
        if solver == "Rattle":
            return S.Rattle(system, t1, dt, options=opts).solve()
        if solver == "BackwardEuler":
            return S.BackwardEuler(system, t1, dt, options=opts).solve()
        if solver == "Moreau":
            return S.Moreau(system, t1, dt, options=opts).solve()
        if solver == "DSV_LU":
            return S.DualStormerVerlet(system, t1, dt, options=opts, linear_solver="LU").solve()
        if solver == "DSV_LU_varM":
            return S.DualStormerVerlet(system, t1, dt, options=opts, linear_solver="LU", constant_mass_matrix=False).solve()
        if solver == "DSV_default":
            return S.DualStormerVerlet(system, t1, dt, options=opts).solve()
        if solver == "DSV_LU_plain":
            return S.DualStormerVerlet(system, t1, dt, options=opts, linear_solver="LU", accelerated=False).solve()
        if solver == "ScipyDAE":
            return S.ScipyDAE(system, t1, dt, rtol=dae_tol[0], atol=dae_tol[1]).solve()
        if solver == "ScipyIVP":
            return S.ScipyIVP(system, t1, dt, rtol=ivp_tol[0], atol=ivp_tol[1]).solve()
    raise KeyError(solver)


def quat_slices(system):
    """qDOF index arrays of the orientation quaternions of all rigid bodies"""
    from cardillo.discrete import RigidBody

    return [np.asarray(c.qDOF[3:7]) for c in system.contributions if isinstance(c, RigidBody)]


def energy(system, t, q, u):
    """total mechanical energy from the System's own M and E_pot (RigidBody reports no E_kin)"""
    M = system.M(t, q).toarray()
    return 0.5 * float(u @ M @ u) + float(system.E_pot(t, q))
