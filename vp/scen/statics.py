"""Static scenarios for C23 (static solvers return equilibria and are frame-indifferent).

Every builder takes a rigid *placement* (c, A): the whole problem -- supports (frames), loads, reference and
initial configuration -- is the base problem moved by x -> c + A x.  Nothing is random; generic letters come
from vp.core.alphabet.weyl(seed, ...).
"""
import math
import numpy as np

from vp.core import alphabet as ab
from vp.core.quiet import quiet

LENGTH = 2.0
EI = (5.0, 1.3, 2.1)     # axial / shear stiffnesses (asymmetric on purpose)
FI = (0.7, 2.0, 3.1)     # torsion / bending stiffnesses

INTERPS = [("Quaternion", 1), ("Quaternion", 2), ("Quaternion", 3), ("SE3", 1), ("R12", 1), ("R12", 2)]
CONS = [None, [1, 2], [0, 1, 2], [1, 2, 4, 5], [0, 1, 2, 3, 4, 5]]


# ---------------------------------------------------------------------------------------------
# placements
# ---------------------------------------------------------------------------------------------
def placement(name, seed=0):
    """-> (c, A) ; A is built by the independent reference map quat_to_A"""
    if name == "I":
        return np.zeros(3), np.eye(3)
    if name == "rot90z":
        return np.zeros(3), ab.quat_to_A(np.array([1.0, 0.0, 0.0, 1.0]))      # exact quarter turn
    if name == "rot90x":
        return np.zeros(3), ab.quat_to_A(np.array([1.0, 1.0, 0.0, 0.0]))
    if name == "halfturn_y":
        return np.array([0.0, 1.0, 0.0]), ab.quat_to_A(np.array([0.0, 0.0, 1.0, 0.0]))  # p0 = 0
    if name == "trans":
        return ab.generic_vec(seed, 1, 3, 2.0), np.eye(3)
    if name == "near_halfturn_mixed":
        # rotation by almost pi about an axis with two nearly equal components of opposite sign: along a bending rod the nodal
        # quaternions straddle a change of their largest component (a sign convention chosen per node would differ between
        # neighbouring nodes; seeded C23-i)
        return np.array([0.3, -0.2, 0.1]), ab.quat_to_A(np.array([0.03, 0.7, -0.7, 0.14]))
    if name == "generic":
        return ab.generic_vec(seed, 4, 3, 1.5), ab.quat_to_A(ab.generic_quat(seed, 2, unit=True))
    raise KeyError(name)


def options(kind):
    from cardillo.solver import SolverOptions

    if kind == "tight":
        return SolverOptions(newton_atol=1e-10, newton_rtol=1e-10, newton_max_iter=30)
    if kind == "default":
        return SolverOptions()
    if kind.startswith("few"):      # 'few2', 'few3': natural early stops (too few Newton iterations)
        return SolverOptions(newton_atol=1e-10, newton_rtol=1e-10, newton_max_iter=int(kind[3:]))
    raise KeyError(kind)


# ---------------------------------------------------------------------------------------------
# cantilever
# ---------------------------------------------------------------------------------------------
def cantilever_loads(seed=0):
    """name -> (F, M, disp): spatial tip force (reference-frame components, moved by A), body-fixed tip moment, tip
    displacement of a displacement-controlled support (reference-frame components)"""
    g1 = ab.weyl(seed, 21, 3)
    g2 = ab.weyl(seed, 22, 3)
    Fg = 0.6 * g1 / np.linalg.norm(g1)
    Mg = 0.8 * g2 / np.linalg.norm(g2)
    z = np.zeros(3)
    return {
        "F-e2": (np.array([0.0, -0.6, 0.0]), z, None),
        "F+e2": (np.array([0.0, 0.6, 0.0]), z, None),
        "Fe3": (np.array([0.0, 0.0, 0.6]), z, None),
        "Fgen": (Fg, z, None),
        "Me3": (z, np.array([0.0, 0.0, 0.8]), None),
        "Mgen": (z, Mg, None),
        "FMgen": (Fg, Mg, None),
        # large loads: several load steps / many Newton iterations are needed
        "Fbig": (np.array([0.3, -4.0, 1.0]), z, None),
        "FMbig": (np.array([0.0, -3.0, 0.5]), np.array([0.5, 0.3, 4.0]), None),
        # DEAD loads (names starting with 'dead'): not scaled with t, the initial configuration is no equilibrium of load step 0
        # (a stop in the very first load step; seeded C23-e)
        "deadFbig": (np.array([0.3, -4.0, 1.0]), z, None),
        "deadFM": (np.array([0.0, -1.0, 0.3]), np.array([0.2, 0.1, 1.0]), None),
        # displacement control: the tip is held by a spherical joint on a support that moves with t
        "disp": (z, z, np.array([-0.15, 0.35, -0.25])),
        "dispF": (Fg, z, np.array([-0.1, -0.3, 0.2])),
    }


def make_rod(form, Q_of_Rod):
    from cardillo.rods import RectangularCrossSection, Simo1986
    from cardillo.rods.cosseratRod import make_CosseratRod

    Rod = make_CosseratRod(interpolation=form["interp"], mixed=form["mixed"], constraints=form["cons"], polynomial_degree=form["p"])
    mat = Simo1986(np.array(EI), np.array(FI))
    Q = np.asarray(Q_of_Rod(Rod), float)
    return Rod(RectangularCrossSection(0.1, 0.2), mat, form["nel"], Q=Q.copy(), q0=Q.copy())


def build_cantilever(form, load, place, seed=0, contact_gap=None):
    """clamped straight cantilever of length LENGTH along the placed e_x; returns (system, rod).
    contact_gap: if given, a frictionless plane (normal = placed e_y) lies `contact_gap` below the tip (in -e_y)."""
    from cardillo import System
    from cardillo.discrete import Frame
    from cardillo.constraints import RigidConnection, Spherical
    from cardillo.forces import Force, B_Moment
    from cardillo.contacts import Sphere2Plane
    from cardillo.solver import SolverOptions

    c, A = placement(place, seed)
    F, M, disp = cantilever_loads(seed)[load]
    with quiet():
        rod = make_rod(form, lambda Rod: Rod.straight_configuration(form["nel"], LENGTH, r_OP0=c, A_IB0=A))
        system = System()
        clamp_frame = Frame(r_OP=c, A_IB=A, name="clamp_frame")
        clamp = RigidConnection(clamp_frame, rod, xi2=(0,), name="clamp")
        system.add(clamp_frame, rod, clamp)
        if np.any(F):
            Fm = A @ F
            system.add(Force((lambda t, Fm=Fm: Fm) if load.startswith("dead") else (lambda t, Fm=Fm: t * Fm), rod, (1,), name="tip_force"))
        if np.any(M):
            system.add(B_Moment((lambda t, M=M: M) if load.startswith("dead") else (lambda t, M=M: t * M), rod, (1,), name="tip_moment"))
        if disp is not None:
            tip0 = c + A @ np.array([LENGTH, 0.0, 0.0])
            d = A @ disp
            support = Frame(r_OP=lambda t: tip0 + t * d, r_OP_t=lambda t: d, A_IB=A, name="tip_support")
            system.add(support, Spherical(support, rod, r_OJ0=tip0, xi2=(1,), name="tip_joint"))
        if contact_gap is not None:
            # plane frame: e_z of the frame is the plane normal -> placed e_y
            Ap = A @ np.column_stack([np.array([0.0, 0.0, 1.0]), np.array([1.0, 0.0, 0.0]), np.array([0.0, 1.0, 0.0])])
            r_plane = c + A @ np.array([LENGTH, -contact_gap, 0.0])
            plane = Frame(r_OP=r_plane, A_IB=Ap, name="plane")
            system.add(plane, Sphere2Plane(plane, rod, mu=0.0, r=0.0, xi=(1,), name="tip_contact"))
        system.assemble(options=SolverOptions(compute_consistent_initial_conditions=False))
    return system, rod


# ---------------------------------------------------------------------------------------------
# point mass / rigid body scenes with a unilateral contact
# ---------------------------------------------------------------------------------------------
PM_LOADS = {
    # name: (initial height above the plane, force at t=0, force at t=1) in plane-frame components (e_z = normal)
    "press": (0.04, (0.0, 0.0, 0.0), (0.3, -0.2, -3.0)),          # open -> closes during the load steps
    "lift": (0.0, (0.0, 0.0, -1.0), (0.2, 0.1, 2.5)),             # pressed at t=0 -> lifts off
    "stay_open": (0.06, (0.0, 0.0, 0.0), (0.4, 0.3, 0.5)),        # never touches: la_N = 0 throughout
    "stay_closed": (0.0, (0.0, 0.0, -0.5), (0.5, -0.3, -2.0)),    # always pressed: g_N = 0 throughout
    "big": (0.02, (0.0, 0.0, 0.0), (1.5, -1.0, -6.0)),            # sliding along the plane
}
PM_STIFF = {"stiff": (40.0, 20.0, 30.0), "soft": (4.0, 2.0, 3.0)}   # 'soft': displacements of the order of the spring lengths
#  (several equilibria, Newton may fail in a load step: natural early stops; no frame comparison there)


def build_pm_plane(load, place, spring="force", seed=0, stiff="stiff", contact=True):
    """point mass above the placed plane z=0 (normal placed e_z), held by three linear springs (PM_STIFF[stiff]) that are undeformed at
    the initial position; spring: 'force' | 'compliance'"""
    from cardillo import System
    from cardillo.discrete import Frame, PointMass
    from cardillo.forces import Force
    from cardillo.force_laws import Spring
    from cardillo.interactions import TwoPointInteraction
    from cardillo.contacts import Sphere2Plane
    from cardillo.solver import SolverOptions

    c, A = placement(place, seed)
    h0, f0, f1 = PM_LOADS[load]
    f0, f1 = A @ np.array(f0), A @ np.array(f1)
    R = 0.05
    with quiet():
        system = System()
        r0 = c + A @ np.array([0.1, -0.2, h0 + R])
        moving = spring.endswith("_u0")
        # "..._u0": the system carries NON-ZERO initial velocities and velocity-dependent (damper) forces; a static solve has to
        # ignore them (equilibrium is defined with u = 0)
        pm = PointMass(1.0, q0=r0, u0=(A @ np.array([0.7, -0.4, 0.3]) if moving else np.zeros(3)), name="pm")
        plane = Frame(r_OP=c, A_IB=A, name="plane")
        system.add(pm, plane)
        # three non-collinear springs (undeformed at the initial position) give a regular stiffness
        for k, (d, kk) in enumerate(zip([(0.0, 0.0, 1.0), (0.9, 0.1, 0.3), (-0.2, 1.1, 0.2)], PM_STIFF[stiff])):
            anchor = Frame(r_OP=r0 + A @ np.array(d), A_IB=A, name=f"anchor{k}")
            tpi = TwoPointInteraction(anchor, pm, name=f"tpi{k}")
            if spring.startswith("kelvin_voigt"):
                from cardillo.force_laws import KelvinVoigtElement

                sp = KelvinVoigtElement(tpi, kk, 0.3 * kk, l_ref=float(np.linalg.norm(d)), compliance_form=(k == 1), name=f"spring{k}")
            else:
                sp = Spring(tpi, kk, l_ref=float(np.linalg.norm(d)), compliance_form=(spring == "compliance"), name=f"spring{k}")
            system.add(anchor, tpi, sp)
        if contact:
            system.add(Sphere2Plane(plane, pm, mu=0.0, r=R, name="contact"))
        system.add(Force(lambda t: f0 + t * (f1 - f0), pm, name="load"))
        system.assemble(options=SolverOptions(compute_consistent_initial_conditions=False))
    return system, pm


RB_LOADS = {
    # force at the centre of mass in frame components: (at t=0, at t=1); plane normal = placed e_z, joint axis = placed e_y
    "press": ((0.0, 0.0, 0.0), (0.2, 0.0, -2.0)),
    "lift": ((0.0, 0.0, -0.6), (0.0, 0.0, 1.5)),
    "free": ((0.0, 0.0, 0.0), (0.3, 0.0, 1.2)),
}


def build_rb_arm(load, place, spring="compliance", contact=True, seed=0):
    """rigid body on a revolute joint (axis placed e_y) at the placed origin, centre of mass at distance 0.8 along the
    placed e_x, torsional spring on the joint (k=3), optional sphere (radius 0.1 about the centre of mass) against the
    placed plane z = -0.15 (initial gap 0.05)"""
    from cardillo import System
    from cardillo.discrete import Frame, RigidBody
    from cardillo.constraints import Revolute
    from cardillo.forces import Force
    from cardillo.force_laws import Spring
    from cardillo.contacts import Sphere2Plane
    from cardillo.solver import SolverOptions
    from cardillo.math import Log_SO3_quat

    c, A = placement(place, seed)
    f0, f1 = (A @ np.array(x) for x in RB_LOADS[load])
    with quiet():
        system = System()
        base = Frame(r_OP=c, A_IB=A, name="base")
        p0 = Log_SO3_quat(A)
        q0 = np.concatenate([c + A @ np.array([0.8, 0.0, 0.0]), p0])
        body = RigidBody(1.0, np.diag([0.3, 0.5, 0.6]), q0, name="arm")
        joint = Revolute(base, body, 1, r_OJ0=c, A_IJ0=A, name="rev")
        sp = Spring(joint, 3.0, l_ref=0.0, compliance_form=(spring == "compliance"), name="torsion")
        system.add(base, body, joint, sp, Force(lambda t: f0 + t * (f1 - f0), body, name="load"))
        if contact:
            plane = Frame(r_OP=c + A @ np.array([0.0, 0.0, -0.15]), A_IB=A, name="plane")
            system.add(plane, Sphere2Plane(plane, body, mu=0.0, r=0.1, name="contact"))
        system.assemble(options=SolverOptions(compute_consistent_initial_conditions=False))
    return system, body


# ---------------------------------------------------------------------------------------------
# 1-DOF von Mises truss of /repo/test/test_riks.py (analytic h_q instead of the complex step)
# ---------------------------------------------------------------------------------------------
class Truss2D:
    def __init__(self, stiffness=1.0, phi0=math.pi / 4, width=1.0, load_factor=1.0):
        self.stiffness = stiffness
        self.phi0 = phi0
        self.width = width
        self.load_factor = load_factor
        self.nu = self.nq = 1
        self.u0 = np.zeros(1)
        self.q0 = np.array([phi0])
        self.constant_mass_matrix = True
        self.name = "truss"

    def M(self, t, q):
        return np.eye(1)

    def internal(self, phi):
        return 2 * self.stiffness * (self.width / math.cos(phi) - self.width / math.cos(self.phi0)) * math.sin(phi)

    def h(self, t, q, u):
        return np.array([self.load_factor * t + self.internal(q[0])])

    def h_q(self, t, q, u):
        phi = q[0]
        k, w, c0 = self.stiffness, self.width, math.cos(self.phi0)
        s, c = math.sin(phi), math.cos(phi)
        return np.array([[2 * k * (w * s / c ** 2 * s + (w / c - w / c0) * c)]])


def build_truss(load_factor=1.0):
    from cardillo import System

    with quiet():
        system = System()
        truss = Truss2D(load_factor=load_factor)
        system.add(truss)
        system.assemble()
    return system, truss
