"""Scenario builders for contact checks (C06): assembled Systems with one contact, plus an
independent geometric reference model (no cardillo code) of the bodies involved.

Every builder returns a dict
    system, contact, parts=[RefPart1, RefPart2] (reference kinematics of the two contact partners),
    qdofs/udofs (global DOF of each partner), info (numbers that went into the construction)
Frames carry *analytic* time derivatives (cardillo differentiates callables numerically otherwise,
which would put 1e-4 noise into the oracle)."""
import math
import numpy as np
from vp.core.alphabet import quat_to_A, skew, axis_angle_quat, generic_unit, generic_vec, generic_quat


# ------------------------------------------------------------------------------------------------
# plane / frame orientation letters (constant in time)
# ------------------------------------------------------------------------------------------------
def rot_letters(seed):
    """I, three exact quarter turns (integer quaternions), a generic rotation (seed rotates it)"""
    return [
        ("I", np.array([1.0, 0, 0, 0])),
        ("x90", np.array([1.0, 1, 0, 0])),
        ("y90", np.array([1.0, 0, 1, 0])),
        ("z90", np.array([1.0, 0, 0, 1])),
        ("generic", generic_quat(seed, 3, unit=True)),
    ]


# ------------------------------------------------------------------------------------------------
# motions of a frame: analytic r(t), v(t), a(t)  /  A(t), A_t(t), A_tt(t)
# ------------------------------------------------------------------------------------------------
def translation(kind, r0, seed=0):
    r0 = np.asarray(r0, float)
    if kind == "fixed":
        return None
    # polynomial + harmonic: all derivatives non-zero, exact formulas
    c1 = generic_vec(seed, 21) * 0.7
    c2 = generic_vec(seed, 22) * 0.5
    c3 = generic_vec(seed, 23) * 0.3
    w = 1.3
    r = lambda t: r0 + c1 * t + c2 * t * t + c3 * math.sin(w * t)
    v = lambda t: c1 + 2 * c2 * t + c3 * w * math.cos(w * t)
    a = lambda t: 2 * c2 - c3 * w * w * math.sin(w * t)
    return r, v, a


def rotation_about(axis, A0, rate=0.9, acc=0.4):
    """A(t) = R(axis, rate t + acc t^2/2) A0 with analytic first and second derivative"""
    axis = np.asarray(axis, float) / np.linalg.norm(axis)
    K = skew(axis)
    K2 = K @ K

    def R(phi):
        return np.eye(3) + math.sin(phi) * K + (1 - math.cos(phi)) * K2

    def R1(phi):
        return math.cos(phi) * K + math.sin(phi) * K2

    def R2(phi):
        return -math.sin(phi) * K + math.cos(phi) * K2

    phi = lambda t: rate * t + 0.5 * acc * t * t
    phid = lambda t: rate + acc * t
    A = lambda t: R(phi(t)) @ A0
    A_t = lambda t: phid(t) * R1(phi(t)) @ A0
    A_tt = lambda t: (acc * R1(phi(t)) + phid(t) ** 2 * R2(phi(t))) @ A0
    return A, A_t, A_tt


class RefPart:
    """independent kinematics of one contact partner: centre point c, its velocity/acceleration,
    angular velocity/acceleration (inertial components) as functions of (t, q_local, u_local, ud_local)"""

    def __init__(self, kind, B_r_CP=None, frame_fns=None):
        self.kind = kind
        self.B = np.zeros(3) if B_r_CP is None else np.asarray(B_r_CP, float)
        self.f = frame_fns  # dict r,v,a,A,A_t,A_tt for frames

    def A(self, t, q):
        if self.kind == "RB":
            return quat_to_A(q[3:7])
        if self.kind == "PM":
            return np.eye(3)
        return self.f["A"](t)

    def c(self, t, q):
        if self.kind == "RB":
            return q[:3] + quat_to_A(q[3:7]) @ self.B
        if self.kind == "PM":
            return q[:3] + self.B
        return self.f["r"](t) + self.f["A"](t) @ self.B

    def omega(self, t, q, u):
        if self.kind == "RB":
            return quat_to_A(q[3:7]) @ u[3:6]
        if self.kind == "PM":
            return np.zeros(3)
        S = self.f["A_t"](t) @ self.f["A"](t).T
        return 0.5 * np.array([S[2, 1] - S[1, 2], S[0, 2] - S[2, 0], S[1, 0] - S[0, 1]])

    def v_c(self, t, q, u):
        if self.kind == "RB":
            return u[:3] + np.cross(self.omega(t, q, u), quat_to_A(q[3:7]) @ self.B)
        if self.kind == "PM":
            return u[:3].copy()
        return self.f["v"](t) + self.f["A_t"](t) @ self.B

    def v_material(self, t, q, u, x):
        """velocity of the material point of this partner that currently sits at inertial position x"""
        return self.v_c(t, q, u) + np.cross(self.omega(t, q, u), x - self.c(t, q))


def _frame(fr_kind, A0, r0, seed, rotating=False, rot_axis=None):
    from cardillo.discrete import Frame

    tr = translation("moving" if fr_kind in ("translating", "moving") else "fixed", r0, seed)
    kw = {}
    fns = {}
    if tr is None:
        kw.update(r_OP=np.asarray(r0, float))
        fns.update(r=lambda t: np.asarray(r0, float), v=lambda t: np.zeros(3), a=lambda t: np.zeros(3))
    else:
        kw.update(r_OP=tr[0], r_OP_t=tr[1], r_OP_tt=tr[2])
        fns.update(r=tr[0], v=tr[1], a=tr[2])
    if rotating:
        A, A_t, A_tt = rotation_about(rot_axis, A0)
        kw.update(A_IB=A, A_IB_t=A_t, A_IB_tt=A_tt)
        fns.update(A=A, A_t=A_t, A_tt=A_tt)
    else:
        kw.update(A_IB=A0)
        fns.update(A=lambda t: A0, A_t=lambda t: np.zeros((3, 3)), A_tt=lambda t: np.zeros((3, 3)))
    return Frame(**kw), fns


def _body(kind, q0, name):
    from cardillo.discrete import RigidBody, PointMass

    if kind == "RB":
        Theta = np.array([[1.1, 0.1, 0.0], [0.1, 0.9, 0.05], [0.0, 0.05, 1.4]])
        return RigidBody(1.7, Theta, q0=np.asarray(q0, float), name=name)
    return PointMass(0.8, q0=np.asarray(q0[:3], float), name=name)


def _assemble(system):
    from cardillo.solver import SolverOptions

    system.assemble(options=SolverOptions(compute_consistent_initial_conditions=False))


def build_s2p(rot_q, motion, sub, r, mu, aniso, brcp, seed=0, e_N=None, e_F=None, pad=True):
    """Sphere2Plane on an assembled system.  The sphere starts well above the plane (open gap)."""
    from cardillo import System
    from cardillo.discrete import PointMass
    from cardillo.contacts import Sphere2Plane

    A0 = quat_to_A(rot_q)
    r0 = np.array([0.3, -0.2, 0.1])
    frame, fns = _frame(motion, A0, r0, seed)
    B = np.zeros(3) if not brcp else np.array([0.2, -0.15, 0.25])
    # initial state: centre 1.5 + r above the plane along its normal, generic orientation
    c0 = r0 + A0 @ np.array([0.4, -0.3, 1.5 + r])
    if sub == "RB":
        p0 = np.array([1.0, 0.2, -0.1, 0.3])
        p0 = p0 / np.linalg.norm(p0)
        q0 = np.concatenate([c0 - quat_to_A(p0) @ B, p0])
    else:
        q0 = c0 - B
    body = _body(sub, q0, "ball")
    system = System()
    if pad:
        system.add(PointMass(1.0, q0=np.array([0.5, -0.5, 0.5]), name="pad"))  # shifts the DOF offsets
    kw = {}
    if e_N is not None:
        kw["e_N"] = e_N
    if e_F is not None:
        kw["e_F"] = e_F
    if brcp:
        contact = Sphere2Plane(frame, body, mu=mu, r=r, B_r_CP=B, anisotropy=np.asarray(aniso, float), **kw)
    else:
        # friction coefficient and radius in the documented POSITIONAL order
        contact = Sphere2Plane(frame, body, mu, r, anisotropy=np.asarray(aniso, float), **kw)
    system.add(frame, body, contact)
    _assemble(system)
    return dict(system=system, contact=contact, body=body, frame=frame,
                parts=[RefPart("FR", frame_fns=fns), RefPart(sub, B)],
                A0=A0, aniso=np.asarray(aniso, float), r=r, mu=mu, q0=q0)


def build_s2s(pair, radii, mu, sep, seed=0, e_N=None, e_F=None, pad=True, order="12", shift=None):
    """Sphere2Sphere on an assembled system.  pair = (kind1, kind2) with kinds RB | PM | FRfix | FRmov
    (FRmov = translating and rotating frame).  sep = initial centre separation vector (defines the
    reference contact basis)."""
    from cardillo import System
    from cardillo.discrete import PointMass
    from cardillo.contacts import Sphere2Sphere

    sep = np.asarray(sep, float)
    c1 = np.array([0.2, -0.1, 0.3]) + (np.zeros(3) if shift is None else np.asarray(shift, float))
    c2 = c1 + sep
    subs = []
    parts = []
    q0s = []
    for i, (kind, c) in enumerate(zip(pair, (c1, c2))):
        if kind in ("RB", "PM"):
            if kind == "RB":
                p0 = np.array([1.0, -0.3, 0.2, 0.1]) if i == 0 else np.array([0.8, 0.1, -0.4, 0.3])
                p0 = p0 / np.linalg.norm(p0)
                q0 = np.concatenate([c, p0])
            else:
                q0 = c.copy()
            subs.append(_body(kind, q0, f"ball{i+1}"))
            parts.append(RefPart(kind))
            q0s.append(q0)
        else:
            A0 = quat_to_A(generic_quat(seed, 5 + i, unit=True))
            moving = kind == "FRmov"
            fr, fns = _frame("moving" if moving else "fixed", A0, c, seed + 1, rotating=moving,
                             rot_axis=generic_unit(seed, 9))
            fr.name = f"frame{i+1}"
            subs.append(fr)
            parts.append(RefPart("FR", frame_fns=fns))
            q0s.append(np.zeros(0))
    system = System()
    if pad:
        system.add(PointMass(1.0, q0=np.array([0.5, -0.5, 0.5]), name="pad"))
    kw = {}
    if e_N is not None:
        kw["e_N"] = e_N
    if e_F is not None:
        kw["e_F"] = e_F
    contact = Sphere2Sphere(subs[0], subs[1], radii[0], radii[1], mu, **kw)
    if order == "21":
        # the second partner is registered BEFORE the first one: the contact's local layout [subsystem1, subsystem2]
        # is then not the order of the global coordinates
        system.add(subs[1], subs[0], contact)
    else:
        system.add(subs[0], subs[1], contact)
    _assemble(system)
    return dict(system=system, contact=contact, subs=subs, parts=parts, radii=tuple(radii), mu=mu, q0s=q0s,
                c1=c1, c2=c2)
