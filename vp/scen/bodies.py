"""Scenario builders shared by C04 (rigid body / point mass / frame kinematics) and C26 (memoised
kinematics).  Everything is deterministic; cardillo is imported lazily so that VERIF_REPO decides
which tree is exercised."""
import math
import numpy as np

from vp.core.alphabet import skew, generic_vec, generic_quat, int_quats

# ------------------------------------------------------------------------------------------------
# inertia letters
# ------------------------------------------------------------------------------------------------
_R = np.array([[0.36, 0.48, -0.8], [-0.8, 0.6, 0.0], [0.48, 0.64, 0.6]])  # exact rotation (3-4-5)
_TH = _R @ np.diag([0.7, 1.9, 2.3]) @ _R.T
INERTIAS = [
    ("diag123", 1.0, np.diag([1.0, 2.0, 3.0])),
    ("genericSPD", 2.5, 0.5 * (_TH + _TH.T)),  # symmetrised exactly: the input itself must be symmetric
    # extremes of scale: a 1 g box of 4 x 6 x 8 mm in SI units, and principal moments that differ by a few 1e-6 relative
    ("small_box_SI", 1.0e-3, np.diag([8.0 + 1.0 / 3.0, 6.0 + 2.0 / 3.0, 4.0 + 1.0 / 3.0]) * 1e-9),
    ("nearly_isotropic", 2.0, np.diag([2.0, 2.0 * (1 + 3e-6), 2.0 * (1 - 2e-6)])),
]


def rigid_body(inertia=0, q0=None, u0=None, name="rb"):
    from cardillo.discrete import RigidBody

    _, m, Th = INERTIAS[inertia]
    return RigidBody(m, Th.copy(), q0=None if q0 is None else np.array(q0, float), u0=u0, name=name)


def point_mass(mass=1.7, q0=None, name="pm"):
    from cardillo.discrete import PointMass

    return PointMass(mass, q0=q0, name=name)


# ------------------------------------------------------------------------------------------------
# C04 alphabets
# ------------------------------------------------------------------------------------------------
_SCALED_BASE = [(1, 0, 0, 0), (0, 1, 0, 0), (1, 1, 0, 0), (1, -1, 1, 0), (1, 1, 1, 1), (0, 1, -1, 1)]


def quat_letters(seed):
    """(name, P): all of {-1,0,1}^4\\0 up to sign (40), scaled copies x{1/2,3} of six of them, two
    generic non-unit quaternions"""
    L = [("int" + "".join("%+d" % int(x) for x in p), p) for p in int_quats(-1, 1, True)]
    for s, sn in ((0.5, "half"), (3.0, "x3")):
        for b in _SCALED_BASE:
            L.append((sn + "".join("%+d" % x for x in b), s * np.array(b, float)))
    for k in range(2):
        L.append((f"generic{k}", generic_quat(seed, k)))
    return L


def r_letters(seed):
    return [("zero", np.zeros(3)), ("g1", generic_vec(seed, 3, 3, 2.0)), ("g2", np.array([-4.0, 0.25, 10.0]))]


def offset_letters(seed):
    return [("zero", np.zeros(3)), ("e1", np.array([1.0, 0, 0])), ("e2", np.array([0, 1.0, 0])),
            ("e3", np.array([0, 0, 1.0])), ("generic", generic_vec(seed, 5, 3, 1.5))]


def vel_letters(seed, n, k0, tier):
    """generic base, zero, +e_i (and -e_i in the thorough tier)"""
    L = [("generic", generic_vec(seed, k0, n, 2.0)), ("zero", np.zeros(n))]
    for i in range(n):
        e = np.zeros(n)
        e[i] = 1.0
        L.append((f"+e{i}", e))
    if tier != "quick":
        for i in range(n):
            e = np.zeros(n)
            e[i] = -1.0
            L.append((f"-e{i}", e))
    return L


# ------------------------------------------------------------------------------------------------
# frame motions with exact derivatives (independent Rodrigues formula)
# ------------------------------------------------------------------------------------------------
def rodrigues(axis, th):
    a = np.asarray(axis, float)
    a = a / np.linalg.norm(a)
    K = skew(a)
    return np.eye(3) + math.sin(th) * K + (1 - math.cos(th)) * K @ K


def _rot_family(axis, th, th_t, th_tt):
    """A(t)=Rod(axis, th(t)) with exact first and second time derivative"""
    a = np.asarray(axis, float)
    a = a / np.linalg.norm(a)
    K = skew(a)
    A = lambda t: rodrigues(a, th(t))
    A_t = lambda t: A(t) @ K * th_t(t)
    A_tt = lambda t: A(t) @ (K @ K * th_t(t) ** 2 + K * th_tt(t))
    return A, A_t, A_tt


def frame_motions(seed):
    """name -> dict(r, r_t, r_tt, A, A_t, A_tt) ; entries are callables or constant arrays"""
    g = generic_vec(seed, 7, 3, 1.0)
    ax = generic_vec(seed, 8, 3, 1.0)
    w, al = 0.9 + 0.2 * abs(g[0]), 0.7
    M = {}
    A0 = rodrigues([1, 2, -2], 0.8)
    M["constant"] = dict(r=g.copy(), r_t=None, r_tt=None, A=A0, A_t=None, A_tt=None)
    r_pol = lambda t: np.array([g[0] + 2 * t - 0.5 * t**2, math.sin(1.3 * t), 0.3 * t**3 + g[2]])
    r_pol_t = lambda t: np.array([2 - t, 1.3 * math.cos(1.3 * t), 0.9 * t**2])
    r_pol_tt = lambda t: np.array([-1.0, -1.69 * math.sin(1.3 * t), 1.8 * t])
    M["translating"] = dict(r=r_pol, r_t=r_pol_t, r_tt=r_pol_tt, A=A0, A_t=None, A_tt=None)
    A, A_t, A_tt = _rot_family(ax, lambda t: w * t + 0.5 * al * t * t + 0.4, lambda t: w + al * t, lambda t: al)
    M["rot_fixed_axis"] = dict(r=g.copy(), r_t=None, r_tt=None, A=A, A_t=A_t, A_tt=A_tt)
    A1, A1_t, A1_tt = _rot_family([0, 0, 1], lambda t: 1.1 * t, lambda t: 1.1, lambda t: 0.0)
    A2, A2_t, A2_tt = _rot_family([1, 0, 0], lambda t: math.sin(0.8 * t) + 0.3, lambda t: 0.8 * math.cos(0.8 * t),
                                  lambda t: -0.64 * math.sin(0.8 * t))
    B = lambda t: A1(t) @ A2(t)
    B_t = lambda t: A1_t(t) @ A2(t) + A1(t) @ A2_t(t)
    B_tt = lambda t: A1_tt(t) @ A2(t) + 2 * A1_t(t) @ A2_t(t) + A1(t) @ A2_tt(t)
    M["two_axis_translating"] = dict(r=r_pol, r_t=r_pol_t, r_tt=r_pol_tt, A=B, A_t=B_t, A_tt=B_tt)
    # constant first derivative given as a non-callable (allowed by check_time_derivatives)
    v0 = np.array([0.3, -1.0, 2.0])
    M["uniform_translation_const_rt"] = dict(r=lambda t: g + v0 * t, r_t=v0.copy(), r_tt=np.zeros(3), A=A0, A_t=None, A_tt=None)
    # constant derivatives given as arrays TOGETHER with a rotating basis: the stored arrays are handed out on every
    # call (results of repeated evaluations must not accumulate in them)
    M["const_rt_arrays_rotating"] = dict(r=lambda t: g + v0 * t, r_t=v0.copy(), r_tt=np.zeros(3), A=A, A_t=A_t, A_tt=A_tt)
    return M


def make_frame(motion, with_derivatives=True):
    from cardillo.discrete import Frame

    m = motion
    if with_derivatives:
        return Frame(r_OP=m["r"], r_OP_t=m["r_t"], r_OP_tt=m["r_tt"], A_IB=m["A"], A_IB_t=m["A_t"], A_IB_tt=m["A_tt"])
    return Frame(r_OP=m["r"], A_IB=m["A"])


# ------------------------------------------------------------------------------------------------
# C26 builders
# ------------------------------------------------------------------------------------------------
ROD_KINDS = [("Quaternion", True), ("SE3", False), ("R12", False), ("Quaternion", False), ("SE3", True), ("R12", True)]
_ROD_CLS = {}


def rod_class(interp, mixed):
    from cardillo.rods.cosseratRod import make_CosseratRod

    k = (interp, mixed)
    if k not in _ROD_CLS:
        _ROD_CLS[k] = make_CosseratRod(interpolation=interp, mixed=mixed)
    return _ROD_CLS[k]


def rod_reference_configs(interp, mixed, nel=2, L=1.0):
    """Q letters: straight along e1; straight along a rotated axis with offset (second reference)"""
    Rod = rod_class(interp, mixed)
    Q0 = Rod.straight_configuration(nel, L)
    Q1 = Rod.straight_configuration(nel, 1.5 * L, r_OP0=np.array([0.1, -0.2, 0.3]), A_IB0=rodrigues([1, 2, 3], 0.7))
    return [np.asarray(Q0, float), np.asarray(Q1, float)]


def rod_deformed(Q, nnodes, k=0):
    """generic smooth deformation of a reference: positions perturbed, quaternions perturbed and
    made non-unit (deterministic)"""
    q = np.array(Q, float)
    nr = 3 * nnodes
    for i in range(q.size):
        q[i] += 0.05 * math.sin(1.7 * (i + 1) + 0.9 * k)
    for n in range(nnodes):
        idx = nr + n + nnodes * np.arange(4)
        q[idx] *= 1.0 + 0.1 * (n + 1) + 0.05 * k
    return q


def make_rod(interp, mixed, Q, q0=None, nel=2, assemble=True):
    from cardillo.rods import RectangularCrossSection, Simo1986, CrossSectionInertias
    from cardillo import System
    from cardillo.solver import SolverOptions

    Rod = rod_class(interp, mixed)
    cs = RectangularCrossSection(0.1, 0.2)
    mat = Simo1986(np.array([5.0, 1.0, 1.0]), np.array([0.5, 2.0, 2.0]))
    rod = Rod(cs, mat, nel, Q=np.array(Q, float), q0=np.array(Q if q0 is None else q0, float),
              cross_section_inertias=CrossSectionInertias(1.0, cs))
    system = None
    if assemble:
        system = System()
        system.add(rod)
        system.assemble(options=SolverOptions(compute_consistent_initial_conditions=False))
    return rod, system


S2S_Q = {
    # (q of body 1, q of body 2); bodies are RigidBody (7 coordinates each)
    "A": ([0.0, 0.0, 0.0, 1.0, 0.0, 0.0, 0.0], [1.0, 0.2, 0.3, 1.0, 0.5, 0.0, 0.0]),
    "B": ([0.0, 0.0, 0.0, 1.0, 0.0, 0.0, 0.0], [0.5, 0.9, -0.3, 1.0, 0.5, 0.0, 0.0]),
    "C": ([0.1, -0.2, 0.0, 1.0, 0.0, 0.2, 0.0], [-0.4, 0.3, 0.8, 0.7, 0.0, 0.0, 0.7]),
    # sphere 2 exactly on top of sphere 1 (Z), moved inside the x-z plane (X), and off that plane (Y): a step callback from Z to X
    # turns the reference contact basis about the inertial y-axis, so the y-components of t1, t2, n do not change
    "Z": ([0.0, 0.0, 0.0, 1.0, 0.0, 0.0, 0.0], [0.0, 0.0, 1.0, 1.0, 0.5, 0.0, 0.0]),
    "X": ([0.0, 0.0, 0.0, 1.0, 0.0, 0.0, 0.0], [0.6, 0.0, 0.8, 1.0, 0.5, 0.0, 0.0]),
    "Y": ([0.0, 0.0, 0.0, 1.0, 0.0, 0.0, 0.0], [0.3, 0.5, 0.7, 1.0, 0.5, 0.0, 0.0]),
}


def s2s_q(name, negzero=False):
    a, b = S2S_Q[name]
    q = np.array(list(a) + list(b), float)
    if negzero:
        q = np.where(q == 0.0, -0.0, q)
    return q


def make_s2s(q0name="A", second="rigid"):
    """two bodies + Sphere2Sphere with friction, assembled in a real System (no consistent-IC solve)"""
    from cardillo import System
    from cardillo.contacts import Sphere2Sphere
    from cardillo.solver import SolverOptions

    q = s2s_q(q0name)
    b1 = rigid_body(0, q[:7], name="b1")
    b2 = rigid_body(1, q[7:], name="b2")
    c = Sphere2Sphere(b1, b2, 0.3, 0.4, 0.5, e_N=0.1, e_F=0.0, name="s2s")
    s = System()
    s.add(b1, b2, c)
    s.assemble(options=SolverOptions(compute_consistent_initial_conditions=False))
    return s, b1, b2, c


def make_mesh(degree, nel, derivative_order=1, basis="Lagrange"):
    from cardillo.rods.discretization.lagrange import LagrangeKnotVector
    from cardillo.rods.discretization.mesh1D import Mesh1D

    kv = LagrangeKnotVector(degree, nel)
    return Mesh1D(kv, degree + 1, dim_q=3, derivative_order=derivative_order, basis=basis, quadrature="Gauss")
