"""Loads cardillo.math (algebra.py, rotations.py, ...) from $VERIF_REPO WITHOUT executing
cardillo/__init__.py.

`import cardillo` pulls in vtk/trimesh/scipy.sparse etc. (3 s idle, > 20 s per worker on a loaded
machine).  The rotation kernels only depend on numpy and on each other, so for C01-C03 the package
object is replaced by a bare namespace package whose __path__ is the real source directory; the
sub-package cardillo.math is then imported by the normal machinery from the real files.  If
cardillo is already imported (e.g. by another check in the same process) that module is used.

A failed import (transient, e.g. resource exhaustion while scipy is loaded by cardillo.math.prox)
is cleaned out of sys.modules before the exception is re-raised, so that the next case starts from
a clean state and reports the real error instead of a half-initialised package.
"""
import importlib
import os
import sys
import types

_OK = None


def math():
    global _OK
    if _OK is not None:
        return _OK
    repo = os.path.abspath(os.environ.get("VERIF_REPO", "/repo"))
    if "cardillo" not in sys.modules:
        pkgdir = os.path.join(repo, "cardillo")
        if not os.path.isfile(os.path.join(pkgdir, "math", "rotations.py")):
            raise RuntimeError("cardillo sources not found under " + repo)
        stub = types.ModuleType("cardillo")
        stub.__path__ = [pkgdir]
        stub.__file__ = os.path.join(pkgdir, "__init__.py")
        stub.__verif_stub__ = True
        sys.modules["cardillo"] = stub
    try:
        m = importlib.import_module("cardillo.math")
        rot = importlib.import_module("cardillo.math.rotations")
        alg = importlib.import_module("cardillo.math.algebra")
    except BaseException:
        for k in [k for k in sys.modules if k == "cardillo.math" or k.startswith("cardillo.math.")]:
            del sys.modules[k]
        raise
    for mod in (rot, alg):
        src = os.path.abspath(mod.__file__)
        if not src.startswith(repo + os.sep):
            raise RuntimeError(f"{mod.__name__} loaded from {src}, expected below {repo}")
    _OK = m
    return m
