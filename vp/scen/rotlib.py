"""Loads cardillo.math (algebra.py, rotations.py, ...) from $VERIF_REPO WITHOUT executing
cardillo/__init__.py.

`import cardillo` pulls in vtk/trimesh/scipy.sparse etc. (3 s idle, > 20 s per worker on a loaded
machine).  The rotation kernels only depend on numpy and on each other, so for C01-C03 the package
object is replaced by a bare namespace package whose __path__ is the real source directory; the
sub-package cardillo.math is then imported by the normal machinery from the real files.  If
cardillo is already imported (e.g. by another check in the same process) that module is used.
"""
import importlib
import os
import sys
import types


def math():
    if "cardillo" not in sys.modules:
        repo = os.environ.get("VERIF_REPO", "/repo")
        pkgdir = os.path.join(repo, "cardillo")
        if not os.path.isfile(os.path.join(pkgdir, "math", "rotations.py")):
            raise RuntimeError("cardillo sources not found under " + repo)
        stub = types.ModuleType("cardillo")
        stub.__path__ = [pkgdir]
        stub.__file__ = os.path.join(pkgdir, "__init__.py")
        stub.__verif_stub__ = True
        sys.modules["cardillo"] = stub
    m = importlib.import_module("cardillo.math")
    src = os.path.abspath(m.rotations.__file__)
    repo = os.path.abspath(os.environ.get("VERIF_REPO", "/repo"))
    if not src.startswith(repo + os.sep):
        raise RuntimeError(f"cardillo.math loaded from {src}, expected below {repo}")
    return m
