"""High-precision (mpmath) reference maps for the rotation-vector charts of SO(3)/SE(3)  (C02, C03).

Everything is written on plain python lists of mpf (no mp.matrix: much faster).  The maps are the
mathematical definitions:

  Exp(psi)   = I + alpha psi~ + beta2 psi~^2,   alpha = sin a / a, beta2 = (1 - cos a)/a^2
  T(psi)     = I - beta2 psi~ + c psi~^2,       c = (1 - alpha)/a^2          (body-fixed: R^T dR = skew(T dpsi))
  Tinv(psi)  = cofactor inverse of T(psi)       (no closed form used)
  Log(A)     = theta/s * axial(A),  s = |axial(A)|, theta = atan2(s, (tr A - 1)/2)        (theta < pi)
  ExpSE3(h)  = [[Exp psi, T(psi)^T r],[0 1]],   LogSE3(H) = (Tinv(psi)^T r, psi)

alpha, beta2, c are evaluated by their power series for a < 1e-4 (no cancellation, also for a = 0
and for the 1e-25 finite-difference perturbations of psi = 0) and by the closed forms otherwise
(which lose at most 2*log10(1/a) <= 8 of the 60 digits there).  `selfcheck()` binds the closed forms to definitions that do not share
them: mp.expm of the skew matrix / of the 4x4 twist, the body-fixed spin of Exp, Log(Exp)=id.
"""
import mpmath as mp

DPS = 60
mp.mp.dps = DPS

_0 = mp.mpf(0)
_1 = mp.mpf(1)


def mpf_vec(v):
    return [mp.mpf(float(x)) if not isinstance(x, mp.mpf) else x for x in v]


def coeffs(a2):
    """alpha, beta2, c as functions of a^2"""
    if a2 < mp.mpf("1e-8"):
        al_ = _0
        be_ = _0
        c_ = _0
        term = _1  # (-a2)^k
        k = 0
        f1 = _1  # (2k+1)!
        while True:
            f2 = f1 * (2 * k + 2)  # (2k+2)!
            f3 = f2 * (2 * k + 3)  # (2k+3)!
            al_ += term / f1
            be_ += term / f2
            c_ += term / f3
            k += 1
            term = -term * a2
            f1 = f3
            if k > 40 or (abs(term) / f1 < mp.mpf(10) ** (-(DPS + 10))):
                break
        return al_, be_, c_
    a = mp.sqrt(a2)
    al_ = mp.sin(a) / a
    return al_, (1 - mp.cos(a)) / a2, (1 - al_) / a2


def skew(v):
    return [[_0, -v[2], v[1]], [v[2], _0, -v[0]], [-v[1], v[0], _0]]


def unskew(S):
    return [(S[2][1] - S[1][2]) / 2, (S[0][2] - S[2][0]) / 2, (S[1][0] - S[0][1]) / 2]


def mm(A, B):
    return [[sum(A[i][k] * B[k][j] for k in range(len(B))) for j in range(len(B[0]))] for i in range(len(A))]


def mv(A, v):
    return [sum(A[i][k] * v[k] for k in range(len(v))) for i in range(len(A))]


def tr(A):
    return [[A[j][i] for j in range(len(A))] for i in range(len(A[0]))]


def eye(n=3):
    return [[_1 if i == j else _0 for j in range(n)] for i in range(n)]


def lin(*terms):
    """sum of coeff * matrix"""
    n, m = len(terms[0][1]), len(terms[0][1][0])
    return [[sum(c * M[i][j] for c, M in terms) for j in range(m)] for i in range(n)]


def skew2(v):
    """psi~ psi~ = psi psi^T - |psi|^2 I"""
    a2 = v[0] * v[0] + v[1] * v[1] + v[2] * v[2]
    return [[v[i] * v[j] - (a2 if i == j else _0) for j in range(3)] for i in range(3)]


def Exp(psi):
    psi = mpf_vec(psi)
    a2 = psi[0] * psi[0] + psi[1] * psi[1] + psi[2] * psi[2]
    al_, be_, _ = coeffs(a2)
    return lin((_1, eye()), (al_, skew(psi)), (be_, skew2(psi)))


def T(psi):
    psi = mpf_vec(psi)
    a2 = psi[0] * psi[0] + psi[1] * psi[1] + psi[2] * psi[2]
    _, be_, c_ = coeffs(a2)
    return lin((_1, eye()), (-be_, skew(psi)), (c_, skew2(psi)))


def inv3(M):
    a, b, c = M[0]
    d, e, f = M[1]
    g, h, i = M[2]
    A = e * i - f * h
    B = -(d * i - f * g)
    C = d * h - e * g
    det = a * A + b * B + c * C
    return [
        [A / det, -(b * i - c * h) / det, (b * f - c * e) / det],
        [B / det, (a * i - c * g) / det, -(a * f - c * d) / det],
        [C / det, -(a * h - b * g) / det, (a * e - b * d) / det],
    ]


def Tinv(psi):
    return inv3(T(psi))


def Log(A):
    """rotation vector of A for rotation angle < pi (A: 3x3 list of mpf, need not be exactly orthogonal)"""
    ax = unskew(A)
    s = mp.sqrt(ax[0] * ax[0] + ax[1] * ax[1] + ax[2] * ax[2])
    ca = (A[0][0] + A[1][1] + A[2][2] - 1) / 2
    if s == 0:
        return ax
    th = mp.atan2(s, ca)
    return [th / s * x for x in ax]


def ExpSE3(h):
    h = mpf_vec(h)
    r, psi = h[:3], h[3:]
    A = Exp(psi)
    t = mv(tr(T(psi)), r)
    return [A[0] + [t[0]], A[1] + [t[1]], A[2] + [t[2]], [_0, _0, _0, _1]]


def LogSE3(H):
    A = [row[:3] for row in H[:3]]
    r = [H[i][3] for i in range(3)]
    psi = Log(A)
    return mv(tr(Tinv(psi)), r) + psi


def to_np(M):
    import numpy as np

    return np.array([[float(x) for x in row] for row in M]) if isinstance(M[0], list) else np.array([float(x) for x in M])


def fd(f, x, v, h=None):
    """central difference of s -> f(x + s v) in mp arithmetic; f returns a list or a list of lists"""
    h = mp.mpf(10) ** (-(DPS * 5 // 12)) if h is None else h  # 1e-25 at 60 digits: truncation 1e-50, rounding 1e-35
    x = mpf_vec(x)
    v = mpf_vec(v)
    fp = f([xi + h * vi for xi, vi in zip(x, v)])
    fm = f([xi - h * vi for xi, vi in zip(x, v)])
    if isinstance(fp[0], list):
        return [[(p - m) / (2 * h) for p, m in zip(rp, rm)] for rp, rm in zip(fp, fm)]
    return [(p - m) / (2 * h) for p, m in zip(fp, fm)]


def spin(psi, psi_dot):
    """body-fixed spin of s -> Exp(psi + s psi_dot) at s = 0 from the definition skew(w) = R^T R'"""
    R = Exp(psi)
    dR = fd(Exp, psi, psi_dot)
    return unskew(mm(tr(R), dR))


def maxabs(A, B):
    if isinstance(A[0], list):
        return max(abs(a - b) for ra, rb in zip(A, B) for a, b in zip(ra, rb))
    return max(abs(a - b) for a, b in zip(A, B))


def selfcheck(psis, rs):
    """binds the closed forms to independent definitions; returns the largest discrepancy (mpf)"""
    worst = _0
    for psi in psis:
        psi = mpf_vec(psi)
        a = mp.sqrt(sum(x * x for x in psi))
        E = mp.expm(mp.matrix(skew(psi)))
        worst = max(worst, maxabs(Exp(psi), [[E[i, j] for j in range(3)] for i in range(3)]))
        for v in ([_1, _0, _0], [_0, _1, _0], [_0, _0, _1], [mp.mpf("0.3"), mp.mpf("-1.1"), mp.mpf("0.7")]):
            worst = max(worst, maxabs(spin(psi, v), mv(T(psi), v)))
        if a < mp.pi - mp.mpf("1e-15"):
            worst = max(worst, maxabs(Log(Exp(psi)), psi))
        for r in rs:
            tw = [row + [ri] for row, ri in zip(skew(psi), mpf_vec(r))] + [[_0] * 4]
            E4 = mp.expm(mp.matrix(tw))
            Hh = ExpSE3(list(r) + list(psi))
            worst = max(worst, maxabs(Hh, [[E4[i, j] for j in range(4)] for i in range(4)]))
            if a < mp.pi - mp.mpf("1e-15"):
                worst = max(worst, maxabs(LogSE3(Hh), mpf_vec(r) + psi))
    return worst
