"""Shared Cosserat-rod scenario builders for C10 / C11 (DESIGN 2.1: base o rigid motion o deviation).

A *formulation* is (interp, p, mixed, cons, nel, ref, mat[, full_int]).  Every rod lives alone in a
System (so System-level vectors/matrices are the rod's own, offset 0).  Nothing here is random:
the generic letters come from vp.core.alphabet.weyl(seed, k, n).
"""
import math
import numpy as np

from vp.core import alphabet as ab
from vp.core.quiet import quiet

INTERPS = [("Quaternion", 1), ("Quaternion", 2), ("Quaternion", 3), ("SE3", 1), ("R12", 1), ("R12", 2)]
CONS = [None, [1, 2, 4, 5], [0, 1, 2], [1, 2], [0, 1, 2, 3, 4, 5]]   # order: a short prefix has force and moment constraints
LENGTH = 2.0
EI = (5.0, 1.3, 2.1)
FI = (0.7, 2.0, 3.1)
KMAX = 5.0


def formulations(tier, refs_quick=("straight", "helix"), harsch=True):
    """complete product of the formulation alphabets, simplest first"""
    if tier == "quick":
        nels = (1, 2)
        refs = tuple(refs_quick)
    else:
        nels = (1, 2, 3)
        refs = ("straight", "straight_pose", "arc", "helix", "helix_nonunit", "sheared")
    out = []
    for nel in nels:
        for ref in refs:
            if nel == 3 and ref not in ("straight_pose", "helix", "sheared"):
                continue  # budget: three elements only on one straight and one curved reference
            # interpolation varies fastest so that a short prefix of the list already contains every
            # interpolation and both formulations (cheap --limit runs for mutant demonstrations)
            for cons in CONS:
                for mixed in (False, True):
                    for interp, p in INTERPS:
                        out.append({"interp": interp, "p": p, "mixed": mixed, "cons": cons, "nel": nel, "ref": ref,
                                    "mat": "Simo1986", "full_int": False})
            if nel == 2 and ref == "helix":
                # constraint sets whose impressed components are NOT a leading block of (0,1,2) / (3,4,5)
                for cons in ([0, 4], [0, 2, 3]):
                    for mixed in (False, True):
                        for interp, p in INTERPS:
                            out.append({"interp": interp, "p": p, "mixed": mixed, "cons": cons, "nel": nel, "ref": ref,
                                        "mat": "Simo1986", "full_int": False})
    if harsch:
        # user-defined law with a non-symmetric force/couple coupling (displacement-based rods only)
        for interp, p in INTERPS:
            out.append({"interp": interp, "p": p, "mixed": False, "cons": None, "nel": 2, "ref": "helix", "mat": "Coupled", "full_int": False})
        out.append({"interp": "Quaternion", "p": 2, "mixed": False, "cons": [1, 2], "nel": 2, "ref": "sheared", "mat": "Coupled", "full_int": False})
    if tier == "quick" and harsch:
        # second material on a curved and on a sheared reference (reference shear strains != 0; seeded C10-i)
        for interp, p in INTERPS:
            for ref in ("helix", "sheared"):
                out.append({"interp": interp, "p": p, "mixed": False, "cons": None, "nel": 2, "ref": ref, "mat": "Harsch2021", "full_int": False})
        for interp, p in INTERPS[:1] + INTERPS[3:5]:
            for mixed in (False, True):
                out.append({"interp": interp, "p": p, "mixed": mixed, "cons": None, "nel": 2, "ref": "sheared", "mat": "Simo1986", "full_int": False})
    if tier != "quick":
        # extra letters of the thorough tier: full integration; second material (displacement-based only)
        for interp, p in INTERPS:
            for mixed in (False, True):
                for cons in (None, [1, 2], [1, 2, 4, 5]):
                    out.append({"interp": interp, "p": p, "mixed": mixed, "cons": cons, "nel": 2, "ref": "helix",
                                "mat": "Simo1986", "full_int": True})
        if harsch:
            for interp, p in INTERPS:
                for cons in (None, [1, 2], [0, 1, 2]):
                    for nel in (1, 2):
                        for ref in ("helix", "sheared"):
                            out.append({"interp": interp, "p": p, "mixed": False, "cons": cons, "nel": nel, "ref": ref,
                                        "mat": "Harsch2021", "full_int": False})
    return out


def form_class(case):
    if case["cons"] is not None and len(case["cons"]) == 6:
        return "g-only"
    s = "MX" if case["mixed"] else "DB"
    return s + ("+g" if case["cons"] else "")


# ---------------------------------------------------------------------------------------------
# reference configurations
# ---------------------------------------------------------------------------------------------
def _rotz(a):
    c, s = math.cos(a), math.sin(a)
    return np.array([[c, -s, 0.0], [s, c, 0.0], [0.0, 0.0, 1.0]])


def reference(Rod, nel, ref, seed=0):
    L = LENGTH
    if ref == "straight":
        return Rod.straight_configuration(nel, L)
    if ref == "straight_pose":
        r0 = ab.generic_vec(seed, 3, 3, 1.5)
        A0 = ab.quat_to_A(ab.generic_quat(seed, 5))
        return Rod.straight_configuration(nel, L, r_OP0=r0, A_IB0=A0)
    if ref == "arc":
        # quarter circle of length L in the x-y plane, cross-sections rotate about e_z
        a = math.pi / 2
        R = L / a
        r = lambda xi: np.array([R * math.sin(a * xi), R * (1 - math.cos(a * xi)), 0.0])
        A = lambda xi: _rotz(a * xi)
        return Rod.pose_configuration(nel, r, A)
    if ref == "sheared":
        # straight centreline, cross-sections tilted against it (reference shear strains != 0) and twisting along the rod
        r = lambda xi: np.array([L * xi, 0.0, 0.0])
        A = lambda xi: _rotz(0.3) @ np.array([[1.0, 0.0, 0.0], [0.0, math.cos(0.8 * xi), -math.sin(0.8 * xi)], [0.0, math.sin(0.8 * xi), math.cos(0.8 * xi)]])
        return Rod.pose_configuration(nel, r, A, r_OP0=np.array([0.2, 0.1, -0.3]), A_IB0=ab.quat_to_A(np.array([1.0, 0.5, -0.2, 0.3])))
    if ref in ("helix", "helix_nonunit"):
        a = 1.7  # total turn angle (per-element relative rotation stays well below pi for nel=1)
        R = 0.8
        c = 0.9
        n = math.sqrt((R * a) ** 2 + c ** 2)

        def r(xi):
            return np.array([R * math.cos(a * xi), R * math.sin(a * xi), c * xi])

        def A(xi):
            ex = np.array([-R * a * math.sin(a * xi), R * a * math.cos(a * xi), c]) / n
            ey = np.array([-math.cos(a * xi), -math.sin(a * xi), 0.0])
            ez = np.cross(ex, ey)
            return np.vstack([ex, ey, ez]).T

        r0 = np.array([0.3, -0.2, 0.5])
        A0 = ab.quat_to_A(np.array([2.0, 1.0, -1.0, 0.5]))
        Q = Rod.pose_configuration(nel, r, A, r_OP0=r0, A_IB0=A0)
        if ref == "helix_nonunit":
            nn = (len(Q)) // 7
            P = Q[3 * nn:].reshape(4, nn)
            for k in range(nn):
                P[:, k] *= (0.5, 2.0, 1.3)[k % 3]
            Q = np.concatenate([Q[: 3 * nn], P.reshape(-1)])
        return Q
    raise ValueError(ref)


def coupled_material():
    """harness-side hyperelastic law with a NON-SYMMETRIC force/couple coupling block (a user-defined RodMaterialModel):
    W = 1/2 [dG, dK] [[Kn, C], [C^T, Km]] [dG, dK]^T  ->  B_n = Kn dG + C dK,  B_m = C^T dG + Km dK.
    The shipped laws have zero coupling blocks, which hides a mix-up of B_n_B_Kappa and B_m_B_Gamma (seeded C11-j)."""
    from cardillo.rods._material_models import RodMaterialModel

    Kn = np.diag(np.array(EI, float))
    Km = np.diag(np.array(FI, float))
    C = np.array([[0.30, -0.12, 0.05], [0.21, 0.08, -0.17], [-0.06, 0.14, 0.11]])

    class Coupled(RodMaterialModel):
        def potential(self, G, G0, K, K0):
            dG, dK = G - G0, K - K0
            return 0.5 * dG @ Kn @ dG + dG @ C @ dK + 0.5 * dK @ Km @ dK

        def B_n(self, G, G0, K, K0):
            return Kn @ (G - G0) + C @ (K - K0)

        def B_m(self, G, G0, K, K0):
            return C.T @ (G - G0) + Km @ (K - K0)

        def B_n_B_Gamma(self, G, G0, K, K0):
            return Kn

        def B_n_B_Kappa(self, G, G0, K, K0):
            return C

        def B_m_B_Gamma(self, G, G0, K, K0):
            return C.T

        def B_m_B_Kappa(self, G, G0, K, K0):
            return Km

    return Coupled()


def build(case, seed=0, q0=None):
    """-> rod, system, Q   (fresh objects); q0: initial configuration different from the reference Q"""
    from cardillo import System
    from cardillo.solver import SolverOptions
    from cardillo.rods import RectangularCrossSection, Simo1986, Harsch2021, CrossSectionInertias
    from cardillo.rods.cosseratRod import make_CosseratRod

    with quiet():
        Rod = make_CosseratRod(interpolation=case["interp"], mixed=case["mixed"], constraints=case["cons"],
                               polynomial_degree=case["p"], reduced_integration=not case.get("full_int", False))
        cs = RectangularCrossSection(0.1, 0.2)
        if case.get("mat") == "Coupled":
            mat = coupled_material()
        else:
            Mat = Simo1986 if case.get("mat", "Simo1986") == "Simo1986" else Harsch2021
            mat = Mat(np.array(EI), np.array(FI))
        Q = np.asarray(reference(Rod, case["nel"], case["ref"], seed), float)
        B_I = np.array([[0.7, 0.1, -0.05], [0.1, 1.1, 0.2], [-0.05, 0.2, 1.9]])
        rod = Rod(cs, mat, case["nel"], Q=Q.copy(), q0=Q.copy() if q0 is None else np.asarray(q0, float).copy(),
                  cross_section_inertias=CrossSectionInertias(A_rho0=1.3, B_I_rho0=B_I))
        system = System()
        system.add(rod)
        system.assemble(options=SolverOptions(compute_consistent_initial_conditions=False))
    return rod, system, Q


# ---------------------------------------------------------------------------------------------
# states: base o motion o deviation
# ---------------------------------------------------------------------------------------------
def rigid_motion(rod, q, c, pA):
    """r_i -> c + A r_i,  p_i -> pA o p_i   (A = independent reference rotation of pA; pA need not be unit)"""
    q = np.asarray(q, float)
    out = q.copy()
    A = ab.quat_to_A(pA) if pA is not None else np.eye(3)
    c = np.zeros(3) if c is None else np.asarray(c, float)
    for k in range(rod.nnodes_r):
        d = rod.nodalDOF_r[k]
        out[d] = c + A @ q[d]
    if pA is not None:
        for k in range(rod.nnodes_p):
            d = rod.nodalDOF_p[k]
            out[d] = ab.quat_mul(np.asarray(pA, float), q[d])
    return out


def motions(tier, seed, kind="c10"):
    """list of (name, c, pA, is_translation)"""
    gq = ab.generic_quat(seed, 2)           # non-unit generic quaternion
    gc = ab.generic_vec(seed, 1, 3, 2.0)
    M = [
        ("trans_generic", gc, None, True),
        ("rot90z_intquat", None, np.array([1.0, 0.0, 0.0, 1.0]), False),      # exact quarter turn, |pA| = sqrt 2
        ("generic_rot_trans", ab.generic_vec(seed, 4, 3, 1.5), gq, False),
    ]
    if tier != "quick":
        M += [
            ("trans_x", np.array([1.5, 0.0, 0.0]), None, True),
            ("trans_z_neg", np.array([0.0, 0.0, -3.0]), None, True),
            ("rot90x_intquat", None, np.array([1.0, 1.0, 0.0, 0.0]), False),
            ("rot90y_intquat", None, np.array([1.0, 0.0, 1.0, 0.0]), False),
            ("halfturn_x", np.array([0.0, 1.0, 0.0]), np.array([0.0, 1.0, 0.0, 0.0]), False),  # p0 = 0
        ]
    return M


def base_states(rod, Q, seed):
    """[(name, q)]: reference, generic deformed (unit nodal quaternions), the same with per-node quaternion
    rescaling x{1/2, 2} (non-unit nodal quaternions)"""
    nq = rod.nq
    w = ab.weyl(seed, 11, nq)
    q1 = np.asarray(Q, float).copy()
    for k in range(rod.nnodes_r):
        d = rod.nodalDOF_r[k]
        q1[d] += 0.12 * w[d]
    for k in range(rod.nnodes_p):
        d = rod.nodalDOF_p[k]
        p = q1[d] + 0.15 * w[d]
        q1[d] = p / np.linalg.norm(p)
    q2 = q1.copy()
    for k in range(rod.nnodes_p):
        d = rod.nodalDOF_p[k]
        q2[d] *= 0.5 if k % 2 == 0 else 2.0
    return [("reference", np.asarray(Q, float).copy()), ("deformed_unit", q1), ("deformed_nonunit", q2)]


def single_deviations(q, deltas):
    """all states that differ from q in exactly one coordinate (bound 1)"""
    for i in range(len(q)):
        for d in deltas:
            s = q.copy()
            s[i] += d
            yield (i, d), s


def pair_deviations_within_node(rod, q, d1, d2):
    """all states that differ from q in exactly two coordinates of one node (bound 2)"""
    for k in range(rod.nnodes_r):
        dofs = list(rod.nodalDOF_r[k]) + list(rod.nodalDOF_p[k])
        for a in range(len(dofs)):
            for b in range(a + 1, len(dofs)):
                s = q.copy()
                s[dofs[a]] += d1
                s[dofs[b]] += d2
                yield (int(dofs[a]), int(dofs[b])), s


def quat_norm_dev(rod, q):
    """max | |p_i| - 1 | over the nodes"""
    return float(max(abs(np.linalg.norm(q[rod.nodalDOF_p[k]]) - 1.0) for k in range(rod.nnodes_p)))


def nodal_xis(rod):
    return [float(x) for x in np.linspace(0.0, 1.0, rod.nnodes_r)]


# ---------------------------------------------------------------------------------------------
# 5-point FD Jacobian with shared stencil points (6 evaluations per column instead of 8)
# ---------------------------------------------------------------------------------------------
def fd_jac(f, x, h=None, cols=None):
    """d f / d x (shape f.shape + (n,)) by 5-point central stencils at h and h/2 and the measured error
    estimate max|D(h) - D(h/2)|.  Number of evaluations = 6 per column."""
    x = np.asarray(x, float)
    n = x.size
    if h is None:
        h = 1e-3 * max(1.0, float(np.max(np.abs(x))) if n else 1.0)
    cols = range(n) if cols is None else cols
    J = []
    est = 0.0
    nev = 0
    for i in cols:
        def at(s):
            y = x.copy()
            y[i] += s
            return np.array(f(y), float)
        fm2, fm1, fmh, fph, fp1, fp2 = at(-2 * h), at(-h), at(-h / 2), at(h / 2), at(h), at(2 * h)
        nev += 6
        D1 = (fm2 - 8 * fm1 + 8 * fp1 - fp2) / (12 * h)
        D2 = (fm1 - 8 * fmh + 8 * fph - fp1) / (6 * h)
        if D1.size:
            est = max(est, float(np.max(np.abs(D1 - D2))))
        J.append(D2)
    return (np.stack(J, axis=-1) if J else np.zeros((0, 0))), est, nev
