"""Shared scenario builders for C07 / C08 (force elements, force laws, actuators).

Everything is deterministic: numbers come from fixed special letters and from the Weyl generic
letters of vp.core.alphabet (rotated by VERIF_SEED only).

A *scene* is an assembled cardillo System made of
    carriers   (Frame / moving Frame / PointMass / RigidBody / small rod),
    a scalar-interaction subsystem (TwoPointInteraction | Revolute)          [optional]
    one element (force law, actuator, external force/moment, line load).
After assembling, `isolate(scene)` removes the carriers from the System's h/h_q/h_u/E_pot/q_dot*
contribution lists (public accessor System.get_contribution_list), so that System.h etc. are the
real scatter of the element under test only and the verdict of C07/C08 does not depend on the
carriers' own (gyroscopic / elastic) terms, which belong to other properties.
"""
import math
import numpy as np

from vp.core.alphabet import weyl, quat_to_A, quat_mul, axis_angle_quat, skew

PARAMS = [  # (k, d, eta)
    (10.0, 2.0, 3.0),
    (0.5, 0.5, 0.5),
    (1.0e3, 1.0e3, 1.0e3),
]

TPI_PAIRS_QUICK = ["origin_pm", "frame_pm", "pm_pm", "rb_rb", "rb_pm", "mframe_rb"]
TPI_PAIRS_MORE = ["pm_rb", "frame_rb", "mframe_pm"]
REV_PAIRS_QUICK = ["origin_rb", "rb_rb", "rb_mframe"]  # rb_mframe: rotating frame as SECOND partner (seeded C08-h)
REV_PAIRS_MORE = ["mframe_rb"]

# relative joint angles (rad) of the on-manifold states; 0, pi/2, pi, 3pi/2 are the quadrant
# boundaries of Revolute.l (x or y projection exactly/nearly zero)
REV_ANGLES = [0.0, 0.3, 0.5 * math.pi, 2.0, math.pi, -2.0, 1.5 * math.pi, -0.4]
TIMES = [0.0, 0.7]


def qconj(p):
    p = np.asarray(p, float)
    return np.concatenate([[p[0]], -p[1:]])


def unit(v):
    v = np.asarray(v, float)
    return v / np.linalg.norm(v)


def gen_quat(seed, k, unit_norm=False):
    v = weyl(seed, 31 + k, 4)
    v = v / np.linalg.norm(v)
    if unit_norm:
        return v
    return v * (0.8 + 0.5 * ((seed * 0.31 + (k + 1) * 0.6180339887498949) % 1.0))


def gen_theta(seed, k):
    """generic symmetric positive definite, non-spherical inertia tensor"""
    R = quat_to_A(gen_quat(seed, 90 + k, unit_norm=True))
    return R @ np.diag([0.7, 1.3, 2.1]) @ R.T


# ------------------------------------------------------------------------------------------------
# carriers
# ------------------------------------------------------------------------------------------------
class Carrier:
    """wraps a cardillo subsystem together with the pose letters used to generate its states"""

    def __init__(self, kind, obj, base_r, p0, frame_fun=None):
        self.kind = kind  # 'origin' | 'frame' | 'mframe' | 'pm' | 'rb'
        self.obj = obj
        self.base_r = np.asarray(base_r, float)
        self.p0 = np.asarray(p0, float)  # initial (unit) quaternion of the orientation
        self.frame_fun = frame_fun  # t -> (r, unit quaternion) for frames

    @property
    def has_q(self):
        return self.kind in ("pm", "rb")

    def pose0(self, t):
        if self.kind in ("frame", "mframe", "origin"):
            return self.frame_fun(t)
        return self.base_r, self.p0


def make_carrier(kind, slot, seed, special=False):
    """slot 0/1: first / second subsystem.  special=True: axis aligned poses with zero entries."""
    from cardillo.discrete import Frame, PointMass, RigidBody

    centre = np.array([0.0, 0.0, 0.0]) if slot == 0 else np.array([3.0, 1.5, -2.0])
    if special:
        r0 = np.array([0.0, 0.0, 0.0]) if slot == 0 else np.array([2.0, 0.0, 0.0])
        p0 = np.array([1.0, 0.0, 0.0, 0.0])
    else:
        r0 = centre + 0.4 * weyl(seed, 3 + slot, 3)
        p0 = gen_quat(seed, slot, unit_norm=True)
    name = f"{kind}{slot}"
    if kind == "pm":
        obj = PointMass(1.3 + slot, q0=r0.copy(), name=name)
        return Carrier(kind, obj, r0, np.array([1.0, 0, 0, 0]))
    if kind == "rb":
        q0 = np.concatenate([r0, p0])
        obj = RigidBody(2.0 + slot, gen_theta(seed, slot), q0=q0, name=name)
        return Carrier(kind, obj, r0, p0)
    if kind == "frame":
        A0 = quat_to_A(p0)
        obj = Frame(r_OP=r0.copy(), A_IB=A0.copy(), name=name)
        return Carrier(kind, obj, r0, p0, frame_fun=lambda t: (r0, p0))
    if kind == "mframe":
        n = unit(weyl(seed, 7 + slot, 3))
        w = 0.9
        amp = 0.3 * weyl(seed, 9 + slot, 3)
        S = skew(n)

        def pq(t):
            return quat_mul(axis_angle_quat(n, w * t), p0)

        def r(t):
            return r0 + amp * math.sin(1.3 * t)

        def r_t(t):
            return 1.3 * amp * math.cos(1.3 * t)

        def r_tt(t):
            return -1.69 * amp * math.sin(1.3 * t)

        def A(t):
            return quat_to_A(pq(t))

        def A_t(t):
            return w * S @ A(t)

        def A_tt(t):
            return w * w * S @ S @ A(t)

        obj = Frame(r_OP=r, r_OP_t=r_t, r_OP_tt=r_tt, A_IB=A, A_IB_t=A_t, A_IB_tt=A_tt, name=name)
        return Carrier(kind, obj, r0, p0, frame_fun=lambda t: (r(t), pq(t)))
    raise ValueError(kind)


def origin_carrier(system):
    z = np.zeros(3)
    e = np.array([1.0, 0, 0, 0])
    return Carrier("origin", system.origin, z, e, frame_fun=lambda t: (z, e))


def carrier_state(c, letter, seed, t):
    """(r, quaternion) of carrier c for state letter `letter` (0 = initial configuration)"""
    if not c.has_q:
        return c.pose0(t)
    if letter == 0:
        return c.base_r.copy(), c.p0.copy()
    slot = 0 if c.obj.name.endswith("0") else 1
    r = c.base_r + 0.45 * weyl(seed, 11 + 5 * letter + slot, 3)
    if c.kind == "pm":
        return r, np.array([1.0, 0, 0, 0])
    return r, gen_quat(seed, 2 + 3 * letter + slot)  # non-unit, norm in [0.8, 1.3]


def carrier_q(c, r, p):
    if c.kind == "pm":
        return np.asarray(r, float)
    if c.kind == "rb":
        return np.concatenate([r, p])
    return np.zeros(0)


# ------------------------------------------------------------------------------------------------
# scenes
# ------------------------------------------------------------------------------------------------
class Scene:
    def __init__(self):
        self.system = None
        self.carriers = []  # Carrier objects (in order subsystem1, subsystem2)
        self.extra_carriers = []  # cardillo objects to isolate in addition (rods)
        self.sub = None  # TwoPointInteraction | Revolute | None
        self.sub_kind = None
        self.element = None
        self.meta = {}

    # --- state assembly ----------------------------------------------------------------------
    def q_from(self, parts, internal=None):
        """parts: list of per-carrier q vectors; internal: value(s) of the element's own coordinates"""
        q = np.array(self.system.q0, float).copy()
        for c, qc in zip(self.carriers, parts):
            if c.has_q:
                q[c.obj.my_qDOF] = qc
        if internal is not None and hasattr(self.element, "my_qDOF"):
            q[self.element.my_qDOF] = internal
        return q

    def reset(self):
        self.system.reset()


def isolate(scene, props=("h", "h_q", "h_u", "E_pot", "q_dot", "q_dot_q", "q_dot_u")):
    objs = [c.obj for c in scene.carriers] + list(scene.extra_carriers)
    for p in props:
        lst = scene.system.get_contribution_list(p)
        for o in objs:
            while any(o is x for x in lst):
                for i, x in enumerate(lst):
                    if x is o:
                        del lst[i]
                        break


def _assemble(system):
    from cardillo.solver import SolverOptions

    system.assemble(options=SolverOptions(compute_consistent_initial_conditions=False))


def _pair_carriers(system, pair, seed, special):
    k1, k2 = pair.split("_")
    cs = []
    for slot, k in enumerate((k1, k2)):
        if k == "origin":
            cs.append(origin_carrier(system))
        else:
            c = make_carrier(k, slot, seed, special)
            system.add(c.obj)
            cs.append(c)
    return cs


def tpi_offsets(pair, seed, special):
    k1, k2 = pair.split("_")
    if special:
        return np.zeros(3), np.zeros(3)
    o1 = 0.3 * weyl(seed, 21, 3) if k1 in ("rb", "frame", "mframe") else np.zeros(3)
    o2 = 0.3 * weyl(seed, 22, 3) if k2 in ("rb", "frame", "mframe") else np.zeros(3)
    return o1, o2


def make_law(law, form, sub, par, l_ref, ld0=0.15):
    from cardillo.force_laws import Spring, KelvinVoigtElement, MaxwellElement

    k, d, eta = PARAMS[par]
    if law == "spring":
        return Spring(sub, k, l_ref=l_ref, compliance_form=(form == "compliance"), name="law")
    if law == "kv":
        return KelvinVoigtElement(sub, k, d, l_ref=l_ref, compliance_form=(form == "compliance"), name="law")
    if law == "maxwell":
        return MaxwellElement(sub, k, eta, l_ref=l_ref, q0=np.array([ld0]), name="law")
    raise ValueError(law)


def tau_fun(kind, n):
    """actuator input: constant or time function, n components"""
    if kind == "const":
        if n == 1:
            return 0.7
        return np.array([0.4, -0.3])
    if n == 1:
        return lambda t: 0.7 + 0.5 * math.sin(1.1 * t)
    return lambda t: np.array([0.4 + 0.2 * math.sin(0.9 * t), -0.3 + 0.6 * math.cos(1.3 * t)])


def make_actuator(act, sub, tau_kind):
    from cardillo.actuators import Motor, PDcontroller, PIDcontroller

    if act == "motor":
        e = Motor(sub, tau_fun(tau_kind, 1))
    elif act == "pd":
        e = PDcontroller(sub, 7.0, 1.7, tau_fun(tau_kind, 2))
    elif act == "pid":
        e = PIDcontroller(sub, 7.0, 2.3, 1.7, tau_fun(tau_kind, 2))
    else:
        raise ValueError(act)
    e.name = "act"
    return e


def scene_tpi(pair, seed, special=False, law=None, form="force", par=0, l_ref=1.1):
    from cardillo import System
    from cardillo.interactions import TwoPointInteraction

    sc = Scene()
    sc.system = System(t0=0.0)
    sc.carriers = _pair_carriers(sc.system, pair, seed, special)
    o1, o2 = tpi_offsets(pair, seed, special)
    sc.sub = TwoPointInteraction(sc.carriers[0].obj, sc.carriers[1].obj, B_r_CP1=o1, B_r_CP2=o2, name="tpi")
    sc.sub_kind = "tpi"
    sc.system.add(sc.sub)
    if law is not None:
        sc.element = make_law(law, form, sc.sub, par, l_ref)
        sc.system.add(sc.element)
    _assemble(sc.system)
    sc.meta = dict(pair=pair, offsets=(o1, o2))
    return sc


def scene_rev(pair, axis, seed, special=False, law=None, form="force", par=0, l_ref=0.2, angle0=0.0,
              act=None, tau_kind="const"):
    """Revolute joint between the two carriers, assembled in a configuration on the joint manifold
    with relative angle 0 (the angle reported there is angle0)."""
    from cardillo import System
    from cardillo.constraints import Revolute

    sc = Scene()
    sc.system = System(t0=0.0)
    sc.carriers = _pair_carriers(sc.system, pair, seed, special)
    c1, c2 = sc.carriers
    if special:
        pJ0 = np.array([1.0, 0, 0, 0])
        rJ0 = np.array([1.0, 0.0, 0.0])
    else:
        pJ0 = gen_quat(seed, 40, unit_norm=True)
        rJ0 = np.array([1.2, 0.5, -0.7]) + 0.4 * weyl(seed, 41, 3)
    sc.sub = Revolute(c1.obj, c2.obj, axis=axis, angle0=angle0, r_OJ0=rJ0.copy(), A_IJ0=quat_to_A(pJ0), name="rev")
    sc.sub_kind = "rev"
    sc.system.add(sc.sub)
    if law is not None:
        sc.element = make_law(law, form, sc.sub, par, l_ref)
        sc.system.add(sc.element)
    if act is not None:
        sc.element = make_actuator(act, sc.sub, tau_kind)
        sc.system.add(sc.element)
    _assemble(sc.system)
    # body-fixed joint data of the assembled configuration (t0 = 0), harness-side copy
    r10, p10 = c1.pose0(0.0)
    r20, p20 = c2.pose0(0.0)
    sc.meta = dict(
        pair=pair, axis=axis, pJ0=pJ0, rJ0=rJ0,
        pK1J=quat_mul(qconj(p10), pJ0), pK2J=quat_mul(qconj(p20), pJ0),
        B1_r=quat_to_A(p10).T @ (rJ0 - r10), B2_r=quat_to_A(p20).T @ (rJ0 - r20),
    )
    return sc


def rev_state(sc, letter, angle, seed, t, scale2=None, tilt=None):
    """State on the joint manifold: carrier 1 at its state letter, carrier 2 rotated about the joint
    axis by `angle` through the joint point.  Returns per-carrier q parts.  If carrier 2 is a frame
    (prescribed), carrier 1 is placed instead (rotation by -angle about the same axis)."""
    c1, c2 = sc.carriers
    m = sc.meta
    ax = np.zeros(3)
    ax[m["axis"]] = 1.0
    if c2.has_q:
        r1, p1 = carrier_state(c1, letter, seed, t)
        p1u = p1 / np.linalg.norm(p1)
        A1 = quat_to_A(p1u)
        rJ = r1 + A1 @ m["B1_r"]
        pJ1 = quat_mul(p1u, m["pK1J"])
        pJ2 = quat_mul(pJ1, axis_angle_quat(ax, angle))
        if tilt is not None:
            # OFF the joint manifold: additional tilt about an in-plane axis of the joint frame (tilt = (axis index, angle))
            et = np.zeros(3)
            et[tilt[0]] = 1.0
            pJ2 = quat_mul(pJ2, axis_angle_quat(et, tilt[1]))
        p2u = quat_mul(pJ2, qconj(m["pK2J"]))
        s2 = scale2 if scale2 is not None else (1.0 if letter == 0 else 0.8 + 0.5 * ((0.37 * letter + 0.11 * seed) % 1.0))
        r2 = rJ - quat_to_A(p2u) @ m["B2_r"]
        return [carrier_q(c1, r1, p1), carrier_q(c2, r2, p2u * s2)]
    # carrier 2 prescribed, carrier 1 has coordinates
    r2, p2 = c2.pose0(t)
    p2u = p2 / np.linalg.norm(p2)
    rJ = r2 + quat_to_A(p2u) @ m["B2_r"]
    pJ2 = quat_mul(p2u, m["pK2J"])
    pJ1 = quat_mul(pJ2, axis_angle_quat(ax, -angle))
    if tilt is not None:
        et = np.zeros(3)
        et[tilt[0]] = 1.0
        pJ1 = quat_mul(pJ1, axis_angle_quat(et, tilt[1]))
    p1u = quat_mul(pJ1, qconj(m["pK1J"]))
    s1 = 1.0 if letter == 0 else 0.8 + 0.5 * ((0.37 * letter + 0.11 * seed) % 1.0)
    r1 = rJ - quat_to_A(p1u) @ m["B1_r"]
    return [carrier_q(c1, r1, p1u * s1), carrier_q(c2, r2, p2)]


def tpi_state(sc, letter, seed, t):
    return [carrier_q(c, *carrier_state(c, letter, seed, t)) for c in sc.carriers]


def gen_u(system, seed, k, scale=1.0):
    return scale * weyl(seed, 50 + k, system.nu) if system.nu else np.zeros(0)


# ------------------------------------------------------------------------------------------------
# rods and external forces
# ------------------------------------------------------------------------------------------------
def make_rod(seed, interpolation="Quaternion", degree=1, mixed=False, nelements=2, name="rod"):
    from cardillo.rods import RectangularCrossSection, Simo1986, CrossSectionInertias
    from cardillo.rods.cosseratRod import make_CosseratRod

    Rod = make_CosseratRod(interpolation=interpolation, mixed=mixed, polynomial_degree=degree)
    cs = RectangularCrossSection(0.1, 0.2)
    mat = Simo1986(np.array([5.0, 1.0, 1.3]), np.array([0.5, 2.0, 2.4]))
    L = 2.0
    A_IB0 = quat_to_A(gen_quat(seed, 60, unit_norm=True))
    r0 = 0.3 * weyl(seed, 61, 3)
    Q = Rod.straight_configuration(nelements, L, r_OP0=r0, A_IB0=A_IB0)
    inert = CrossSectionInertias(A_rho0=1.2, B_I_rho0=np.diag([0.3, 0.11, 0.23]))
    rod = Rod(cs, mat, nelements, Q=Q, q0=Q.copy(), cross_section_inertias=inert, name=name)
    return rod


def rod_state(rod, letter, seed):
    """generic deformed rod configuration (letter 0 = reference)"""
    q = np.array(rod.q0, float).copy()
    if letter == 0:
        return q
    return q + 0.12 * weyl(seed, 70 + letter, q.size)


def force_fun(kind, seed, k=0):
    """kinds ending in _list / _tuple: the same load handed over as a plain Python list / tuple (constant or returned by the callable)"""
    form = None
    for sfx in ("_list", "_tuple"):
        if kind.endswith(sfx):
            kind, form = kind[: -len(sfx)], sfx[1:]
    f0 = np.array([0.0, 0.0, -9.81]) if kind == "const_axis" else 2.0 * weyl(seed, 80 + k, 3)
    conv = {None: (lambda v: v), "list": (lambda v: [float(x) for x in v]), "tuple": (lambda v: tuple(float(x) for x in v))}[form]
    if kind in ("const", "const_axis"):
        return conv(f0)
    a = 1.5 * weyl(seed, 84 + k, 3)
    if form is not None:
        return lambda t: conv(f0 + a * math.sin(1.7 * t))
    a = 1.5 * weyl(seed, 84 + k, 3)
    return lambda t: f0 + a * math.sin(1.7 * t)


def scene_force(elem, carrier_kind, fkind, seed, xi=None, offset=True):
    """external Force / B_Force / Moment / B_Moment on a point mass, rigid body or rod cross-section"""
    from cardillo import System
    from cardillo.forces import Force, B_Force, Moment, B_Moment

    sc = Scene()
    sc.system = System(t0=0.0)
    f = force_fun(fkind, seed)
    if carrier_kind == "rod" or carrier_kind.startswith("rod:"):
        parts = carrier_kind.split(":")
        interp = parts[1] if len(parts) > 1 else "Quaternion"
        deg = int(parts[2]) if len(parts) > 2 else 1
        rod = make_rod(seed, interpolation=interp, degree=deg)
        sc.system.add(rod)
        sc.extra_carriers = [rod]
        sc.meta["rod"] = rod
        target = rod
        kw = dict(xi=(xi,))
        off = 0.2 * weyl(seed, 23, 3) if offset else np.zeros(3)
    else:
        c = make_carrier(carrier_kind, 1, seed)
        sc.system.add(c.obj)
        sc.carriers = [c]
        target = c.obj
        kw = {}
        off = 0.3 * weyl(seed, 23, 3) if (carrier_kind == "rb" and offset) else np.zeros(3)
    if elem == "Force":
        e = Force(f, target, B_r_CP=off, name="ext", **kw)
    elif elem == "B_Force":
        e = B_Force(f, target, B_r_CP=off, name="ext", **kw)
    elif elem == "Moment":
        e = Moment(f, target, name="ext", **kw)
    elif elem == "B_Moment":
        e = B_Moment(f, target, name="ext", **kw)
    else:
        raise ValueError(elem)
    sc.element = e
    sc.system.add(e)
    _assemble(sc.system)
    sc.meta["offset"] = off
    return sc


def scene_state(sc, letter, seed, t):
    """state of a scene without interaction subsystem (external forces, gyroscopic scenes)"""
    q = np.array(sc.system.q0, float).copy()
    for c in sc.carriers:
        if c.has_q:
            q[c.obj.my_qDOF] = carrier_q(c, *carrier_state(c, letter, seed, t))
    rod = sc.meta.get("rod")
    if rod is not None:
        q[rod.my_qDOF] = rod_state(rod, letter, seed)
    return q


# ------------------------------------------------------------------------------------------------
# shared check helpers (C07, C08)
# ------------------------------------------------------------------------------------------------
class LibFail(Exception):
    def __init__(self, site, exc):
        self.site = site
        self.exc = exc


def lib(site, fn, *a, **k):
    """library call whose failure is a classified failure of the case"""
    try:
        return fn(*a, **k)
    except Exception as e:  # noqa
        if type(e).__name__ == "CaseTimeout":  # the runner's per-case alarm (runner runs as __main__)
            raise
        raise LibFail(site, e)


def libfail_record(e):
    import traceback

    tb = traceback.extract_tb(e.exc.__traceback__)
    where = ""
    for fr in tb:
        if "/cardillo/" in fr.filename:
            where = f"{fr.filename.split('/cardillo/')[-1]}:{fr.name}"
    return {"site": f"{e.site} raises", "msg": f"{type(e.exc).__name__}: {e.exc} (in {where})",
            "data": {"exc": type(e.exc).__name__, "where": where}}


class Acc:
    def __init__(self):
        self.fails = []
        self.evals = 0
        self.nontrivial = False
        self.stats = {}
        self.excluded = 0
        self._sites = set()

    def stat_max(self, key, v):
        if v == v:
            self.stats[key] = max(self.stats.get(key, 0.0), float(v))

    def fail(self, site, msg, data):
        if site in self._sites:
            return
        self._sites.add(site)
        self.fails.append({"site": site, "msg": msg, "data": data})

    def result(self, **kw):
        self.stats["n_illcond"] = self.excluded
        r = {"fails": self.fails, "nontrivial": self.nontrivial, "evals": self.evals, "stats": self.stats}
        r.update(kw)
        return r


def check_manifold(sc, t, q):
    g = sc.system.g(t, q)
    if g.size and np.max(np.abs(g)) > 1e-10:
        raise RuntimeError(f"harness: state not on the joint manifold, |g|={np.max(np.abs(g))}")


