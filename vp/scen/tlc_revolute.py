"""E4: TLC cross-check of the revolute angle tracker (DESIGN 1, E4).

models/RevoluteTracker.tla is explored by TLC (`-dump dot,actionlabels`); the dumped state graph is
parsed and every model edge that the implementation can take is replayed on a fresh real Revolute
joint: after each replayed history the implementation's (previous_quadrant, n_full_rotations) must
be a model successor of the model state for that increment, and the reported angle must equal
angle0 + accumulated rotation.  Model states that differ from the implementation only by the
quadrant chosen on a coordinate axis (where rounding decides) are unreachable for the
implementation and are counted as such.
"""
import math
import os
import re
import shutil
import subprocess
import tempfile
import numpy as np

HERE = os.path.dirname(os.path.dirname(os.path.dirname(os.path.abspath(__file__))))


def run_tlc(N=16, K=3, B=40, timeout=600):
    """returns (states: id -> (acc, turns, quad), edges: list of (src, dst, k), init id, tlc summary line)"""
    tmp = tempfile.mkdtemp(prefix="vp_tlc_c25_")
    try:
        shutil.copy(os.path.join(HERE, "models", "RevoluteTracker.tla"), tmp)
        with open(os.path.join(tmp, "RevoluteTracker.cfg"), "w") as f:
            f.write(f"CONSTANTS\n  N = {N}\n  K = {K}\n  B = {B}\nINIT Init\nNEXT Next\nINVARIANT AngleIsAccumulated\n")
        cmd = ["tlc", "-workers", "1", "-noGenerateSpecTE", "-deadlock", "-metadir", os.path.join(tmp, "meta"),
               "-dump", "dot,actionlabels", os.path.join(tmp, "graph"), "RevoluteTracker.tla"]
        p = subprocess.run(cmd, cwd=tmp, capture_output=True, text=True, timeout=timeout)
        out = p.stdout + p.stderr
        if "No error has been found" not in out:
            return None, None, None, out[-2000:]
        summary = next((l for l in reversed(out.splitlines()) if "distinct states found" in l and "Progress" not in l), "")
        states, edges, init = {}, [], None
        node_re = re.compile(r'^(-?\d+) \[label="(.*?)"(,|\])')
        edge_re = re.compile(r'^(-?\d+) -> (-?\d+) \[label="Step\((-?\d+)\)"')
        with open(os.path.join(tmp, "graph.dot")) as f:
            for line in f:
                m = edge_re.match(line)
                if m:
                    edges.append((m.group(1), m.group(2), int(m.group(3))))
                    continue
                m = node_re.match(line)
                if m:
                    lab = m.group(2)
                    vals = {k: int(v) for k, v in re.findall(r"(acc|turns|quad) = (-?\d+)", lab)}
                    states[m.group(1)] = (vals["acc"], vals["turns"], vals["quad"])
                    if "style = filled" in line:
                        init = m.group(1)
        return states, edges, init, summary
    finally:
        shutil.rmtree(tmp, ignore_errors=True)


def build_joint(axis=2, angle0=0.0):
    """origin -- Revolute -- rigid body; returns (system, joint, set_angle) where set_angle(theta)
    gives the generalized coordinates of the system for relative rotation theta about the axis"""
    from cardillo import System
    from cardillo.constraints import Revolute
    from cardillo.discrete import RigidBody
    from vp.core.quiet import quiet
    from vp.core.alphabet import axis_angle_quat

    system = System()
    q0 = np.array([0.0, 0.0, 0.0, 1.0, 0.0, 0.0, 0.0])
    body = RigidBody(1.0, np.diag([1.0, 2.0, 3.0]), q0, np.zeros(6), name="b")
    joint = Revolute(system.origin, body, axis, angle0=angle0, r_OJ0=np.zeros(3), A_IJ0=np.eye(3), name="rev")
    system.add(body, joint)
    with quiet():
        system.assemble()
    e = np.eye(3)[axis]

    def q_of(theta):
        q = system.q0.copy()
        q[body.qDOF[3:]] = axis_angle_quat(e, theta)
        return q

    return system, joint, q_of


def conformance(N=16, K=3, B=40, axis=2, angle0=0.3):
    """replay of the model graph against the implementation; returns dict(report)"""
    states, edges, init, summary = run_tlc(N, K, B)
    if states is None:
        return {"ok": False, "error": "TLC failed: " + str(summary)}
    succ = {}
    for s, d, k in edges:
        succ.setdefault((s, k), set()).add(d)
    by_val = {v: k for k, v in states.items()}
    step = 2 * math.pi / N

    def impl_after(path):
        system, joint, q_of = build_joint(axis, angle0)
        acc = 0
        ang = joint.l(system.t0, q_of(0.0)[joint.qDOF])
        for k in path:
            acc += k
            ang = joint.l(system.t0, q_of(acc * step)[joint.qDOF])
        return acc, int(joint.n_full_rotations), int(joint.previous_quadrant), float(ang)

    fails = []
    acc, turns, quad, ang = impl_after([])
    if (acc, turns, quad) != states[init]:
        fails.append(f"initial tracker state {(acc, turns, quad)} is not the model's initial state {states[init]}")
    reached = {init: []}
    frontier = [init]
    validated = 0
    out_of_bound = 0
    while frontier:
        s = frontier.pop(0)
        path = reached[s]
        for k in range(-K, K + 1):
            if (s, k) not in succ:
                out_of_bound += 1  # acc would leave the model's bound
                continue
            acc, turns, quad, ang = impl_after(path + [k])
            d = by_val.get((acc, turns, quad))
            if d is None or d not in succ[(s, k)]:
                fails.append(f"after history {path + [k]} the implementation is in (acc,turns,quad)={(acc, turns, quad)}, "
                             f"not a model successor {[states[x] for x in succ[(s, k)]]} of {states[s]}")
                continue
            if abs(ang - (angle0 + acc * step)) > 1e-9:
                fails.append(f"after history {path + [k]} reported angle {ang} != angle0 + accumulated {angle0 + acc * step}")
            validated += 1
            if d not in reached:
                reached[d] = path + [k]
                frontier.append(d)
    return {
        "ok": not fails, "fails": fails[:10], "model_states": len(states), "model_edges": len(edges), "tlc": summary.strip(),
        "impl_reachable_model_states": len(reached), "edges_validated_against_impl": validated, "edges_outside_bound": out_of_bound,
        "model_states_unreachable_for_impl": len(states) - len(reached), "N": N, "K": K, "B": B,
    }


if __name__ == "__main__":
    import json, sys

    sys.path[:0] = [HERE]
    print(json.dumps(conformance(), indent=1))
