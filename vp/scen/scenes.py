"""Contact scenes (spheres and planes) for the nonsmooth-integrator checks (C18 author's file).

Every builder returns a freshly assembled cardillo System; nothing is shared between calls.
`SCENES[name]` carries the static facts the oracle needs (is the scene free of applied and
gyroscopic forces, how many contacts, ...).
"""
import numpy as np

G = 9.81
R = 0.1  # sphere radius
THETA = 0.4 * 1.0 * R * R  # solid sphere m = 1


def solver_options(tol=1e-10, max_iter=1000):
    from cardillo.solver import SolverOptions

    return SolverOptions(newton_atol=tol, newton_rtol=tol, fixed_point_atol=tol, fixed_point_rtol=tol, fixed_point_max_iter=max_iter,
                         newton_max_iter=50)


def _rb(name, r, v=(0, 0, 0), om=(0, 0, 0), mass=1.0, p=(1, 0, 0, 0), theta=(1.0, 1.0, 1.0)):
    from cardillo.discrete import RigidBody

    th = 0.4 * mass * R * R  # spherical inertia (theta = (1,1,1)): no gyroscopic force
    p = np.asarray(p, float)
    q0 = np.concatenate([np.asarray(r, float), p / np.linalg.norm(p)])
    u0 = np.concatenate([np.asarray(v, float), np.asarray(om, float)])
    return RigidBody(mass, th * np.diag(np.asarray(theta, float)), q0, u0, name=name)


def _pm(name, r, v=(0, 0, 0), mass=1.0):
    from cardillo.discrete import PointMass

    return PointMass(mass, q0=np.asarray(r, float), u0=np.asarray(v, float), name=name)


def _incline_A():
    """rotation of the plane frame: 20 degrees about a generic horizontal-ish axis followed by a spin about the normal,
    so that n, t1, t2 all have generic components"""
    from vp.core.alphabet import axis_angle_quat, quat_to_A

    A1 = quat_to_A(axis_angle_quat([0.3, 1.0, 0.0], np.deg2rad(20.0)))
    A2 = quat_to_A(axis_angle_quat([0.0, 0.0, 1.0], 0.7))
    return A1 @ A2


# name -> facts.  force_free: no applied and no gyroscopic forces (kinetic-energy clause applies for mu = 0)
SCENES = {
    "rb_drop": dict(force_free=False, contacts=1, what="rigid ball dropped on the plane with tangential velocity and spin"),
    "pm_drop": dict(force_free=False, contacts=1, what="point mass with contact radius dropped on the plane with tangential velocity"),
    "rb_rest": dict(force_free=False, contacts=1, what="rigid ball resting on the plane"),
    "rb_slide": dict(force_free=False, contacts=1, what="rigid ball touching the plane, sliding without spin (slip -> roll transition)"),
    "rb_aniso_slide": dict(force_free=False, contacts=1, what="body with principal inertias 1:4:2.5 and a spherical contact surface sliding at an angle to its principal axes (the two tangential entries of diag(W_F^T M^-1 W_F) differ)"),
    "rb_incline": dict(force_free=False, contacts=1, what="rigid ball at rest on a plane inclined by 20 degrees (rotated frame)"),
    "pm_incline": dict(force_free=False, contacts=1, what="point mass sliding down/along a plane inclined by 20 degrees (rotated frame)"),
    "rb_moving_plane": dict(force_free=False, contacts=1, what="rigid ball dropped on a plane that oscillates vertically and horizontally (explicit time dependence: g_N_dot(t,q,0) != 0)"),
    "rb_hit_free": dict(force_free=True, contacts=1, what="spinning rigid ball hitting the plane obliquely, no gravity"),
    "s2s_headon": dict(force_free=True, contacts=1, what="two rigid spheres, head-on, no gravity"),
    "s2s_oblique": dict(force_free=True, contacts=1, what="rigid sphere and point-mass sphere, oblique impact with spin, no gravity"),
    "two_balls_mixed": dict(force_free=False, contacts=2, what="a heavy ball on a FRICTIONLESS contact registered first, a light sliding and spinning ball on a frictional contact (numbering of active friction laws differs from that of active normal contacts)"),
    "stack": dict(force_free=False, contacts=2, what="ball resting on the plane, second ball dropped onto it slightly off-centre"),
}


def build(scene, e_N, mu, t0=0.0, options=None):
    from cardillo import System
    from cardillo.discrete import Frame
    from cardillo.forces import Force
    from cardillo.contacts import Sphere2Plane, Sphere2Sphere
    from vp.core.quiet import quiet

    system = System(t0=t0)
    grav = np.array([0.0, 0.0, -G])
    e_F = 0.0
    if scene == "rb_drop":
        b = _rb("ball", (0, 0, R + 0.03), v=(0.5, 0.1, -0.6), om=(0.0, 3.0, 1.0))
        system.add(b, Force(1.0 * grav, b, name="grav"), Sphere2Plane(system.origin, b, mu=mu, r=R, e_N=e_N, e_F=e_F, name="floor"))
    elif scene == "pm_drop":
        b = _pm("ball", (0, 0, R + 0.02), v=(0.4, -0.2, -0.5))
        system.add(b, Force(1.0 * grav, b, name="grav"), Sphere2Plane(system.origin, b, mu=mu, r=R, e_N=e_N, e_F=e_F, name="floor"))
    elif scene == "rb_rest":
        b = _rb("ball", (0, 0, R))
        system.add(b, Force(1.0 * grav, b, name="grav"), Sphere2Plane(system.origin, b, mu=mu, r=R, e_N=e_N, e_F=e_F, name="floor"))
    elif scene == "rb_slide":
        b = _rb("ball", (0, 0, R), v=(0.8, 0.3, 0.0), p=(1.0, 0.2, -0.3, 0.1))
        system.add(b, Force(1.0 * grav, b, name="grav"), Sphere2Plane(system.origin, b, mu=mu, r=R, e_N=e_N, e_F=e_F, name="floor"))
    elif scene == "rb_aniso_slide":
        b = _rb("ball", (0, 0, R), v=(1.0, 0.7, 0.0), theta=(1.0, 4.0, 2.5))
        system.add(b, Force(1.0 * grav, b, name="grav"), Sphere2Plane(system.origin, b, mu=mu, r=R, e_N=e_N, e_F=e_F, name="floor"))
    elif scene in ("rb_incline", "pm_incline"):
        A = _incline_A()
        r_OQ = np.array([0.2, -0.1, 0.3])
        fr = Frame(r_OP=r_OQ, A_IB=A, name="incline")
        r0 = r_OQ + A @ np.array([0.05, -0.02, R])
        if scene == "rb_incline":
            b = _rb("ball", r0)
        else:
            b = _pm("ball", r0, v=A @ np.array([0.1, 0.25, 0.0]))
        system.add(fr, b, Force(1.0 * grav, b, name="grav"), Sphere2Plane(fr, b, mu=mu, r=R, e_N=e_N, e_F=e_F, name="floor"))
    elif scene == "rb_moving_plane":
        a, w1, c, w2 = 0.03, 4.0, 0.02, 6.0
        fr = Frame(r_OP=lambda t: np.array([a * np.sin(w1 * t), 0.0, c * np.sin(w2 * t)]),
                   r_OP_t=lambda t: np.array([a * w1 * np.cos(w1 * t), 0.0, c * w2 * np.cos(w2 * t)]),
                   r_OP_tt=lambda t: np.array([-a * w1 * w1 * np.sin(w1 * t), 0.0, -c * w2 * w2 * np.sin(w2 * t)]), name="table")
        b = _rb("ball", (0, 0, R + 0.015), v=(0.1, 0.05, -0.3), om=(1.0, 0.0, 0.0))
        system.add(fr, b, Force(1.0 * grav, b, name="grav"), Sphere2Plane(fr, b, mu=mu, r=R, e_N=e_N, e_F=e_F, name="floor"))
    elif scene == "rb_hit_free":
        b = _rb("ball", (0, 0, R + 0.02), v=(0.3, -0.2, -0.7), om=(2.0, -1.0, 0.5))
        system.add(b, Sphere2Plane(system.origin, b, mu=mu, r=R, e_N=e_N, e_F=e_F, name="floor"))
    elif scene == "s2s_headon":
        b1 = _rb("s1", (0, 0, 0), v=(0.8, 0, 0))
        b2 = _rb("s2", (2 * R + 0.03, 0, 0), v=(-0.5, 0, 0), mass=0.6)
        system.add(b1, b2, Sphere2Sphere(b1, b2, R, R, mu=mu, e_N=e_N, e_F=e_F, name="s2s"))
    elif scene == "s2s_oblique":
        b1 = _rb("s1", (0, 0, 0), v=(0.8, 0.1, 0.0), om=(0.5, -1.0, 2.0), p=(1.0, -0.1, 0.2, 0.3))
        b2 = _pm("s2", (2 * R + 0.025, 0.06, -0.04), v=(-0.5, 0.0, 0.1), mass=0.6)
        system.add(b1, b2, Sphere2Sphere(b1, b2, R, R, mu=mu, e_N=e_N, e_F=e_F, name="s2s"))
    elif scene == "two_balls_mixed":
        b1 = _rb("heavy", (0, 0, R), mass=3.0)
        b2 = _rb("light", (0.6, 0.2, R), v=(0.7, -0.4, 0.0), om=(0.0, 2.0, 0.0), mass=0.4)
        system.add(b1, b2, Force(3.0 * grav, b1, name="grav1"), Force(0.4 * grav, b2, name="grav2"),
                   Sphere2Plane(system.origin, b1, mu=0.0, r=R, e_N=e_N, e_F=e_F, name="floor_frictionless"),
                   Sphere2Plane(system.origin, b2, mu=mu, r=R, e_N=e_N, e_F=e_F, name="floor_friction"))
    elif scene == "stack":
        b1 = _rb("lower", (0, 0, R))
        b2 = _rb("upper", (0.012, -0.005, 3 * R + 0.02), v=(0, 0, -0.5), mass=0.5)
        system.add(b1, b2, Force(1.0 * grav, b1, name="grav1"), Force(0.5 * grav, b2, name="grav2"),
                   Sphere2Plane(system.origin, b1, mu=mu, r=R, e_N=e_N, e_F=e_F, name="floor"),
                   Sphere2Sphere(b1, b2, R, R, mu=mu, e_N=e_N, e_F=e_F, name="s2s"))
    else:
        raise KeyError(scene)
    with quiet():
        system.assemble(options=options if options is not None else solver_options())
    return system


def make_solver(name, system, t1, dt, options=None):
    import cardillo.solver as S

    options = options if options is not None else solver_options()
    if name == "DualStormerVerlet_LU":
        return S.DualStormerVerlet(system, t1, dt, options=options, linear_solver="LU")
    if name == "DualStormerVerlet_plain":
        return S.DualStormerVerlet(system, t1, dt, options=options, accelerated=False)
    return getattr(S, name)(system, t1, dt, options=options)
