"""Small mechanical scenarios shared by the solver-level checks (lead's file)."""
import numpy as np


def _quiet_assemble(system, **kw):
    from vp.core.quiet import quiet

    with quiet():
        system.assemble(**kw)
    return system


def rb(mass=1.0, theta=(0.6, 0.9, 1.2), r=(0, 0, 0), p=(1, 0, 0, 0), v=(0, 0, 0), om=(0, 0, 0), name="rb"):
    from cardillo.discrete import RigidBody

    q0 = np.concatenate([np.asarray(r, float), np.asarray(p, float) / np.linalg.norm(p)])
    u0 = np.concatenate([np.asarray(v, float), np.asarray(om, float)])
    return RigidBody(mass, np.diag(np.asarray(theta, float)), q0, u0, name=name)


def pendulum(t0=0.0, axis=1, L=0.7, om0=0.8, grav=(0, 0, -9.81), options=None, spring=None):
    """rigid body on a revolute joint at the origin, centre of mass at distance L along e_x"""
    from cardillo import System
    from cardillo.constraints import Revolute
    from cardillo.forces import Force

    system = System(t0=t0)
    e = np.eye(3)[axis]
    r0 = np.array([L, 0.0, 0.0])
    om = om0 * e
    v = np.cross(om, r0)
    body = rb(mass=1.3, r=r0, v=v, om=om, name="pend")
    joint = Revolute(system.origin, body, axis, r_OJ0=np.zeros(3), A_IJ0=np.eye(3), name="rev")
    system.add(body, joint, Force(1.3 * np.asarray(grav, float), body, name="grav"))
    if spring is not None:
        from cardillo.force_laws import KelvinVoigtElement

        system.add(KelvinVoigtElement(joint, spring[0], spring[1], l_ref=0.0, name="sd"))
    kw = {} if options is None else {"options": options}
    return _quiet_assemble(system, **kw)


def pm_pendulum(t0=0.0, L=1.0, v0=0.5, grav=(0, 0, -9.81), options=None):
    from cardillo import System
    from cardillo.discrete import PointMass
    from cardillo.constraints import FixedDistance
    from cardillo.forces import Force

    system = System(t0=t0)
    pm = PointMass(2.0, q0=np.array([L, 0.0, 0.0]), u0=np.array([0.0, v0, 0.0]), name="pm")
    fd = FixedDistance(system.origin, pm)
    fd.name = "rod"
    system.add(pm, fd, Force(2.0 * np.asarray(grav, float), pm, name="grav"))
    kw = {} if options is None else {"options": options}
    return _quiet_assemble(system, **kw)


def ball_on_plane(t0=0.0, mu=0.3, e_N=0.0, e_F=0.0, radius=0.1, height=None, v=(0.4, 0.0, 0.0), om=(0.0, 0.0, 0.0),
                  grav=(0, 0, -9.81), body="rb", options=None):
    """sphere resting (height=None: touching) on / dropped onto the plane z=0"""
    from cardillo import System
    from cardillo.discrete import PointMass
    from cardillo.contacts import Sphere2Plane
    from cardillo.forces import Force

    system = System(t0=t0)
    z = radius if height is None else height
    if body == "rb":
        b = rb(mass=1.0, theta=(0.004, 0.004, 0.004), r=(0, 0, z), v=v, om=om, name="ball")
        m = 1.0
    else:
        b = PointMass(1.0, q0=np.array([0.0, 0.0, z]), u0=np.asarray(v, float), name="ball")
        m = 1.0
    c = Sphere2Plane(system.origin, b, mu=mu, r=radius, e_N=e_N, e_F=e_F, name="floor")
    system.add(b, Force(m * np.asarray(grav, float), b, name="grav"), c)
    kw = {} if options is None else {"options": options}
    return _quiet_assemble(system, **kw)
