"""Shared scenario builders for the joint family (C05, C09, C25).

Everything is deterministic; `seed` only rotates the generic letters (vp.core.alphabet.weyl).
Subsystem kinds:
  F0   fixed Frame (constant generic pose)
  Fm   prescribed-motion Frame with ANALYTIC first/second time derivatives (the finite-difference
       defaults of Frame are C04's business and would be a false-alarm source here)
  PM   PointMass
  RB   RigidBody with a generic pose and a NON-UNIT quaternion in q0
  ROD  Quaternion-interpolated Cosserat rod, p=2, nel=2 (nodes at xi = 0, .25, .5, .75, 1), generic
       deformed q0 with non-unit nodal quaternions; the cross-section is selected with xi
"""
import math

import numpy as np

from vp.core import alphabet as ab

T0 = 0.2
ROD_NODAL_XI = (0.0, 0.25, 0.5, 0.75, 1.0)


def is_nodal(xi):
    return xi is None or any(abs(xi - x) < 1e-14 for x in ROD_NODAL_XI)


def rot(axis, angle):
    """independent Rodrigues rotation matrix"""
    n = np.asarray(axis, float)
    n = n / np.linalg.norm(n)
    K = ab.skew(n)
    return np.eye(3) + math.sin(angle) * K + (1 - math.cos(angle)) * (K @ K)


def generic_rotation(seed, k):
    return ab.quat_to_A(ab.generic_quat(seed, k, unit=True))


class MovingFrameFns:
    """r(t) = c + a sin(w t) + b t^2 ;  A(t) = A0 R(n, th(t)),  th = th0 + th1 t + th2 t^2"""

    def __init__(self, seed, k):
        self.c = ab.generic_vec(seed, 40 + k, 3, 1.0)
        self.a = ab.generic_vec(seed, 41 + k, 3, 0.7)
        self.b = ab.generic_vec(seed, 42 + k, 3, 0.5)
        self.w = 1.3
        self.A0 = generic_rotation(seed, 43 + k)
        n = ab.generic_unit(seed, 44 + k)
        self.K = ab.skew(n)
        self.K2 = self.K @ self.K
        self.th = (0.4, 0.9, 0.35)

    def r(self, t):
        return self.c + self.a * math.sin(self.w * t) + self.b * t * t

    def r_t(self, t):
        return self.a * self.w * math.cos(self.w * t) + 2 * self.b * t

    def r_tt(self, t):
        return -self.a * self.w**2 * math.sin(self.w * t) + 2 * self.b

    def _th(self, t):
        th0, th1, th2 = self.th
        return th0 + th1 * t + th2 * t * t, th1 + 2 * th2 * t, 2 * th2

    def A(self, t):
        th, _, _ = self._th(t)
        return self.A0 @ (np.eye(3) + math.sin(th) * self.K + (1 - math.cos(th)) * self.K2)

    def A_t(self, t):
        th, thd, _ = self._th(t)
        return self.A0 @ (math.cos(th) * self.K + math.sin(th) * self.K2) * thd

    def A_tt(self, t):
        th, thd, thdd = self._th(t)
        R1 = math.cos(th) * self.K + math.sin(th) * self.K2
        R2 = -math.sin(th) * self.K + math.cos(th) * self.K2
        return self.A0 @ (R2 * thd * thd + R1 * thdd)


def make_rod(seed, k, name="rod"):
    from cardillo.rods import RectangularCrossSection, Simo1986
    from cardillo.rods.cosseratRod import make_CosseratRod

    Rod = make_CosseratRod(interpolation="Quaternion", mixed=True, polynomial_degree=2)
    nel = 2
    A0 = generic_rotation(seed, 60 + k)
    r0 = ab.generic_vec(seed, 61 + k, 3, 0.8)
    Q = Rod.straight_configuration(nel, 1.0, r_OP0=r0, A_IB0=A0)
    nn = 2 * nel + 1
    q0 = np.array(Q, float).copy()
    # generic deformation: perturb nodal positions and quaternions, then scale quaternions (non-unit)
    dr = ab.weyl(seed, 62 + k, 3 * nn, -0.08, 0.08)
    dp = ab.weyl(seed, 63 + k, 4 * nn, -0.15, 0.15)
    q0[: 3 * nn] += dr
    q0[3 * nn :] += dp
    sc = 0.8 + 0.5 * (ab.weyl(seed, 64 + k, nn, 0.0, 1.0))
    # nodal ordering of the quaternion block: component-major (p0 of all nodes, p1 of all nodes, ...)
    P = q0[3 * nn :].reshape(4, nn)
    P *= sc[None, :]
    q0[3 * nn :] = P.reshape(-1)
    rod = Rod(
        RectangularCrossSection(0.1, 0.1),
        Simo1986(np.array([5.0, 1.0, 1.0]), np.array([0.5, 2.0, 2.0])),
        nel,
        Q=Q,
        q0=q0,
        name=name,
    )
    return rod


def make_subsystem(kind, seed, slot, system=None, q0=None, name=None):
    """returns the cardillo object (not yet added)"""
    from cardillo.discrete import Frame, PointMass, RigidBody

    k = 10 * slot
    name = name or f"{kind.lower()}{slot}"
    if kind == "O":
        return system.origin
    if kind == "F0":
        return Frame(r_OP=ab.generic_vec(seed, 30 + k, 3, 1.0), A_IB=generic_rotation(seed, 31 + k), name=name)
    if kind == "Fm":
        f = MovingFrameFns(seed, k)
        fr = Frame(r_OP=f.r, r_OP_t=f.r_t, r_OP_tt=f.r_tt, A_IB=f.A, A_IB_t=f.A_t, A_IB_tt=f.A_tt, name=name)
        fr._verif_fns = f
        return fr
    if kind == "PM":
        if q0 is None:
            q0 = ab.generic_vec(seed, 32 + k, 3, 1.0)
        return PointMass(1.3, q0=np.array(q0, float), name=name)
    if kind == "RB":
        if q0 is None:
            q0 = np.concatenate([ab.generic_vec(seed, 33 + k, 3, 1.0), ab.generic_quat(seed, 34 + k)])
        th = np.diag([0.7, 1.1, 1.6])
        return RigidBody(1.7, th, q0=np.array(q0, float), name=name)
    if kind == "ROD":
        return make_rod(seed, k, name=name)
    raise ValueError(kind)


def split_kind(s):
    """'ROD@0.5' -> ('ROD', 0.5) ; 'RB' -> ('RB', None)"""
    if "@" in s:
        a, b = s.split("@")
        return a, float(b)
    return s, None


JOINTS = (
    [("Spherical", None), ("RigidConnection", None)]
    + [(n, a) for n in ("Revolute", "Prismatic", "Cylindrical", "Planarizer") for a in (0, 1, 2)]
    + [("FixedDistance", None)]
)


def make_joint(jname, axis, s1, s2, xi1=None, xi2=None, r_OJ0=None, A_IJ0=None, off1=None, off2=None, angle0=0.0):
    import cardillo.constraints as cc
    from cardillo.constraints.fixed_distance import FixedDistance

    if jname == "Spherical":
        return cc.Spherical(s1, s2, r_OJ0, xi1=xi1, xi2=xi2)
    if jname == "RigidConnection":
        return cc.RigidConnection(s1, s2, r_OJ0=r_OJ0, A_IJ0=A_IJ0, xi1=xi1, xi2=xi2)
    if jname == "Revolute":
        return cc.Revolute(s1, s2, axis, angle0=angle0, r_OJ0=r_OJ0, A_IJ0=A_IJ0, xi1=xi1, xi2=xi2)
    if jname in ("Prismatic", "Cylindrical", "Planarizer"):
        return getattr(cc, jname)(s1, s2, axis, r_OJ0=r_OJ0, A_IJ0=A_IJ0, xi1=xi1, xi2=xi2)
    if jname == "FixedDistance":
        kw = {}
        if off1 is not None:
            kw["B1_r_P1J1"] = np.asarray(off1, float)
        if off2 is not None:
            kw["B2_r_P2J2"] = np.asarray(off2, float)
        return FixedDistance(s1, s2, xi1=xi1, xi2=xi2, **kw)
    raise ValueError(jname)


def assemble(system):
    """assemble without the consistent-initial-condition solve (C16's business; it can be singular
    for systems that consist of one joint only)"""
    from cardillo.solver import SolverOptions

    system.assemble(options=SolverOptions(compute_consistent_initial_conditions=False))


def raw_q0(system):
    """the contributions' own q0 stacked in DOF order (System.assemble normalises quaternions in
    system.q0; the joints are defined with the subsystems' raw q0)"""
    q = np.zeros(system.nq)
    u = np.zeros(system.nu)
    for c in system.contributions:
        if hasattr(c, "nq") and c.nq:
            q[c.my_qDOF] = np.asarray(c.q0, float)
        if hasattr(c, "nu") and c.nu:
            u[c.my_uDOF] = np.asarray(c.u0, float)
    return q, u


def body_pose_q(r, A=None, quat=None, scale=1.0):
    """rigid-body coordinates from position and a quaternion (w,x,y,z)"""
    return np.concatenate([np.asarray(r, float), scale * np.asarray(quat, float)])
