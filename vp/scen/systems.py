"""Scenario builders and the dense reference assembly shared by C14 / C16.

* Item / pools of contributions (real cardillo objects + one synthetic all-quantities contribution)
* ref_layout: DOF layout computed from the *intrinsic* dimensions of the items (known before any
  assembly) - independent of System.assemble
* METHODS: one row per System evaluation method: how System is called and which local quantity of a
  contribution is placed at which (row, column) index sets
* ref_eval: dense reference scatter  out[rows, cols] += local
"""
import numpy as np

from vp.core.alphabet import weyl

KINDS = ["q", "u", "la_g", "la_gamma", "la_c", "la_tau", "tau", "la_S", "la_N", "la_F"]
DIMATTR = {"q": "nq", "u": "nu", "la_g": "nla_g", "la_gamma": "nla_gamma", "la_c": "nla_c", "la_tau": "nla_tau",
           "tau": "ntau", "la_S": "nla_S", "la_N": "nla_N", "la_F": "nla_F"}
DOFATTR = {"q": "my_qDOF", "u": "my_uDOF", "la_g": "la_gDOF", "la_gamma": "la_gammaDOF", "la_c": "la_cDOF",
           "la_tau": "la_tauDOF", "tau": "tauDOF", "la_S": "la_SDOF", "la_N": "la_NDOF", "la_F": "la_FDOF"}
SYSDIM = dict(DIMATTR)


# ------------------------------------------------------------------------------------------------
# synthetic contribution: provides every local quantity System can scatter, with distinct values
# ------------------------------------------------------------------------------------------------
def _B(tag, shape, k=0):
    """deterministic generic block; values in +-[0.25, 1.25], all distinct per tag"""
    s = sum((i + 1) * ord(ch) for i, ch in enumerate(tag)) + 131 * k
    n = int(np.prod(shape)) if len(shape) else 1
    v = np.array([((s * 0.6180339887 + (i + 1) * 0.4142135623 + (i * i) * 0.0917) % 1.0) for i in range(n)])
    sign = np.where((np.arange(n) + s) % 3 == 0, -1.0, 1.0)
    return (sign * (0.25 + v)).reshape(shape)


class Synth:
    """User-defined contribution with own coordinates and one block of every multiplier kind.  All local
    maps are smooth generic functions of *all* their arguments (so a wrongly sliced argument changes the
    value) and are chosen such that the default assemble() finds the initial state consistent:
    g(q0)=g_S(q0)=0, g_dot/gamma vanish at (q0,u0=0), g_ddot and gamma_dot are affine in u_dot with the
    slopes g_dot_u / gamma_u, g_N(q0)=1 (open contact)."""

    def __init__(self, k=0, nq=3, nu=3, name="synth", with_contact=True):
        self.k = k
        self.nq, self.nu = nq, nu
        self.nla_g = 1
        self.nla_gamma = 1
        self.nla_c = 2
        self.nla_tau = 1
        self.ntau = 2
        self.nla_S = 1
        if with_contact:
            from cardillo.math.prox import Sphere

            self.nla_N = 1
            self.nla_F = 2
            self.e_N = np.array([0.5])
            self.e_F = np.array([0.25, 0.125])
            self.friction_laws = [([0], [0, 1], Sphere(0.3))]
        else:
            # no contact block: hide the contact methods from System's callable() test
            for nm in ("g_N", "gamma_F", "gamma_F_q"):
                setattr(self, nm, None)
        self.q0 = 0.5 * _B("q0", (nq,), k)
        self._qref = self.q0.copy()  # configuration at which g, g_S, ... vanish
        self.u0 = np.zeros(nu)
        self.name = name
        self._M0 = 3.0 * np.eye(nu) + 0.1 * (_B("M", (nu, nu), k) + _B("M", (nu, nu), k).T)

    # generic scalar of all arguments; vanishes nowhere special
    def _s(self, tag, t=0.0, q=None, u=None, a=None, la=None):
        s = 1.0 + 0.25 * t
        for nm, x in (("q", q), ("u", u), ("a", a), ("la", la)):
            if x is not None:
                x = np.asarray(x, float)
                s = s + 0.125 * float(_B(tag + nm, (x.size,), self.k) @ x)
        return s

    def _dq(self, tag, q):
        return float(_B(tag + "dq", (self.nq,), self.k) @ (np.asarray(q, float) - self._qref))

    def assembler_callback(self):
        self.qDOF = self.my_qDOF.copy()
        self.uDOF = self.my_uDOF.copy()

    # kinematics
    def q_dot(self, t, q, u):
        return _B("q_dot", (self.nq,), self.k) * self._s("q_dot", t, q, u)

    def q_dot_q(self, t, q, u):
        return _B("q_dot_q", (self.nq, self.nq), self.k) * self._s("q_dot_q", t, q, u)

    def q_dot_u(self, t, q):
        return _B("q_dot_u", (self.nq, self.nu), self.k) * self._s("q_dot_u", t, q)

    def step_callback(self, t, q, u):
        # a projection-like map: identity at (q0, u0 = 0), non-trivial elsewhere
        q[0] = self._qref[0] + 0.5 * (q[0] - self._qref[0])
        u[-1] = 0.25 * u[-1]
        return q, u

    def E_pot(self, t, q):
        return 0.75 * self._s("E_pot", t, q)

    def E_kin(self, t, q, u):
        return 1.25 * self._s("E_kin", t, q, u)

    # dynamics (variable mass matrix => System.I_M branch)
    def M(self, t, q):
        return self._M0 * (1.0 + 0.01 * np.tanh(self._dq("M", q)))

    def Mu_q(self, t, q, u):
        return _B("Mu_q", (self.nu, self.nq), self.k) * self._s("Mu_q", t, q, u)

    def h(self, t, q, u):
        return _B("h", (self.nu,), self.k) * self._s("h", t, q, u)

    def h_q(self, t, q, u):
        return _B("h_q", (self.nu, self.nq), self.k) * self._s("h_q", t, q, u)

    def h_u(self, t, q, u):
        return _B("h_u", (self.nu, self.nu), self.k) * self._s("h_u", t, q, u)

    # compliance
    def la_c(self, t, q, u):
        return _B("la_c", (self.nla_c,), self.k) * self._s("la_c", t, q, u)

    def c(self, t, q, u, la_c):
        # vanishes at la_c = la_c(t, q, u) (consistent force law), generic elsewhere
        return (_B("c", (self.nla_c, self.nla_c), self.k) @ (np.asarray(la_c, float) - self.la_c(t, q, u))) * self._s("c", t, q, u)

    def c_q(self, t, q, u, la_c):
        return _B("c_q", (self.nla_c, self.nq), self.k) * self._s("c_q", t, q, u, la=la_c)

    def c_u(self, t, q, u, la_c):
        return _B("c_u", (self.nla_c, self.nu), self.k) * self._s("c_u", t, q, u, la=la_c)

    def c_la_c(self):
        return _B("c_la_c", (self.nla_c, self.nla_c), self.k)

    def W_c(self, t, q):
        return _B("W_c", (self.nu, self.nla_c), self.k) * self._s("W_c", t, q)

    def Wla_c_q(self, t, q, la_c):
        return _B("Wla_c_q", (self.nu, self.nq), self.k) * self._s("Wla_c_q", t, q, la=la_c)

    # actuators
    def W_tau(self, t, q):
        return _B("W_tau", (self.nu, self.nla_tau), self.k) * self._s("W_tau", t, q)

    def la_tau(self, t, q, u):
        return _B("la_tau", (self.nla_tau,), self.k) * self._s("la_tau", t, q, u)

    def Wla_tau_q(self, t, q, u):
        return _B("Wla_tau_q", (self.nu, self.nq), self.k) * self._s("Wla_tau_q", t, q, u)

    def Wla_tau_u(self, t, q, u):
        return _B("Wla_tau_u", (self.nu, self.nu), self.k) * self._s("Wla_tau_u", t, q, u)

    def tau(self, t):
        return _B("tau", (self.ntau,), self.k) * (1.0 + t)

    # bilateral constraints, position level
    def g(self, t, q):
        return _B("g", (self.nla_g,), self.k) * self._dq("g", q)

    def g_q(self, t, q):
        return _B("g_q", (self.nla_g, self.nq), self.k) * self._s("g_q", t, q)

    def g_q_T_mu_q(self, t, q, mu):
        return _B("g_q_T_mu_q", (self.nq, self.nq), self.k) * self._s("g_q_T_mu_q", t, q, la=mu)

    def W_g(self, t, q):
        return _B("W_g", (self.nu, self.nla_g), self.k) * self._s("W_g", t, q)

    def Wla_g_q(self, t, q, la_g):
        return _B("Wla_g_q", (self.nu, self.nq), self.k) * self._s("Wla_g_q", t, q, la=la_g)

    def g_dot_u(self, t, q):
        return _B("g_dot_u", (self.nla_g, self.nu), self.k) * self._s("g_dot_u", t, q)

    def g_dot(self, t, q, u):
        return self.g_dot_u(t, q) @ u + _B("g_dot", (self.nla_g,), self.k) * self._dq("g_dot", q)

    def g_dot_q(self, t, q, u):
        return _B("g_dot_q", (self.nla_g, self.nq), self.k) * self._s("g_dot_q", t, q, u)

    def g_ddot(self, t, q, u, u_dot):
        return self.g_dot_u(t, q) @ u_dot + _B("g_ddot", (self.nla_g,), self.k) * (self._s("g_ddot", t, q, u) - 0.5)

    # bilateral constraints, velocity level
    def gamma_u(self, t, q):
        return _B("gamma_u", (self.nla_gamma, self.nu), self.k) * self._s("gamma_u", t, q)

    def gamma(self, t, q, u):
        return self.gamma_u(t, q) @ u + _B("gamma", (self.nla_gamma,), self.k) * self._dq("gamma", q)

    def gamma_q(self, t, q, u):
        return _B("gamma_q", (self.nla_gamma, self.nq), self.k) * self._s("gamma_q", t, q, u)

    def gamma_dot(self, t, q, u, u_dot):
        return self.gamma_u(t, q) @ u_dot + _B("gamma_dot", (self.nla_gamma,), self.k) * (self._s("gamma_dot", t, q, u) - 0.5)

    def gamma_dot_q(self, t, q, u, u_dot):
        return _B("gamma_dot_q", (self.nla_gamma, self.nq), self.k) * self._s("gamma_dot_q", t, q, u, u_dot)

    def gamma_dot_u(self, t, q, u, u_dot):
        return _B("gamma_dot_u", (self.nla_gamma, self.nu), self.k) * self._s("gamma_dot_u", t, q, u, u_dot)

    def W_gamma(self, t, q):
        return _B("W_gamma", (self.nu, self.nla_gamma), self.k) * self._s("W_gamma", t, q)

    def Wla_gamma_q(self, t, q, la_gamma):
        return _B("Wla_gamma_q", (self.nu, self.nq), self.k) * self._s("Wla_gamma_q", t, q, la=la_gamma)

    # stabilisation
    def g_S(self, t, q):
        return _B("g_S", (self.nla_S,), self.k) * self._dq("g_S", q)

    def g_S_q(self, t, q):
        return _B("g_S_q", (self.nla_S, self.nq), self.k) * self._s("g_S_q", t, q)

    # contact (open at q0)
    def g_N(self, t, q):
        return np.array([1.0 + 0.25 * self._dq("g_N", q) + 0.125 * t])

    def g_N_q(self, t, q):
        return _B("g_N_q", (1, self.nq), self.k) * self._s("g_N_q", t, q)

    def W_N(self, t, q):
        return _B("W_N", (self.nu, 1), self.k) * self._s("W_N", t, q)

    def g_N_dot(self, t, q, u):
        return _B("g_N_dot", (1,), self.k) * self._s("g_N_dot", t, q, u)

    def g_N_dot_q(self, t, q, u):
        return _B("g_N_dot_q", (1, self.nq), self.k) * self._s("g_N_dot_q", t, q, u)

    def g_N_dot_u(self, t, q):
        return _B("g_N_dot_u", (1, self.nu), self.k) * self._s("g_N_dot_u", t, q)

    def g_N_ddot(self, t, q, u, u_dot):
        return _B("g_N_ddot", (1,), self.k) * self._s("g_N_ddot", t, q, u, u_dot)

    def Wla_N_q(self, t, q, la_N):
        return _B("Wla_N_q", (self.nu, self.nq), self.k) * self._s("Wla_N_q", t, q, la=la_N)

    def gamma_F(self, t, q, u):
        return _B("gamma_F", (2,), self.k) * self._s("gamma_F", t, q, u)

    def gamma_F_q(self, t, q, u):
        return _B("gamma_F_q", (2, self.nq), self.k) * self._s("gamma_F_q", t, q, u)

    def gamma_F_u(self, t, q):
        return _B("gamma_F_u", (2, self.nu), self.k) * self._s("gamma_F_u", t, q)

    def gamma_F_dot(self, t, q, u, u_dot):
        return _B("gamma_F_dot", (2,), self.k) * self._s("gamma_F_dot", t, q, u, u_dot)

    def gamma_F_dot_q(self, t, q, u, u_dot):
        return _B("gamma_F_dot_q", (2, self.nq), self.k) * self._s("gamma_F_dot_q", t, q, u, u_dot)

    def gamma_F_dot_u(self, t, q, u, u_dot):
        return _B("gamma_F_dot_u", (2, self.nu), self.k) * self._s("gamma_F_dot_u", t, q, u, u_dot)

    def W_F(self, t, q):
        return _B("W_F", (self.nu, 2), self.k) * self._s("W_F", t, q)

    def Wla_F_q(self, t, q, la_F):
        return _B("Wla_F_q", (self.nu, self.nq), self.k) * self._s("Wla_F_q", t, q, la=la_F)


class SynthLink:
    """Synthetic contribution without own coordinates acting on the coordinates of two other
    contributions (like a joint / interaction): overlapping DOF sets with its subsystems."""

    def __init__(self, sub1, sub2, k=7, name="synth_link"):
        self.subsystem1, self.subsystem2 = sub1, sub2
        self.k = k
        self.nla_g = 2
        self.nla_gamma = 1
        self.name = name

    def assembler_callback(self):
        self.qDOF = np.concatenate([self.subsystem1.qDOF, self.subsystem2.qDOF])
        self.uDOF = np.concatenate([self.subsystem1.uDOF, self.subsystem2.uDOF])
        self._nq, self._nu = len(self.qDOF), len(self.uDOF)

    _s = Synth._s

    def E_pot(self, t, q):
        return 0.5 * self._s("lE_pot", t, q)

    def h(self, t, q, u):
        return _B("lh", (self._nu,), self.k) * self._s("lh", t, q, u)

    def h_q(self, t, q, u):
        return _B("lh_q", (self._nu, self._nq), self.k) * self._s("lh_q", t, q, u)

    def h_u(self, t, q, u):
        return _B("lh_u", (self._nu, self._nu), self.k) * self._s("lh_u", t, q, u)

    def g(self, t, q):
        return _B("lg", (2,), self.k) * self._s("lg", t, q)

    def g_q(self, t, q):
        return _B("lg_q", (2, self._nq), self.k) * self._s("lg_q", t, q)

    def g_q_T_mu_q(self, t, q, mu):
        return _B("lg_q_T_mu_q", (self._nq, self._nq), self.k) * self._s("lgqq", t, q, la=mu)

    def W_g(self, t, q):
        return _B("lW_g", (self._nu, 2), self.k) * self._s("lW_g", t, q)

    def Wla_g_q(self, t, q, la_g):
        return _B("lWla_g_q", (self._nu, self._nq), self.k) * self._s("lWla", t, q, la=la_g)

    def g_dot(self, t, q, u):
        return _B("lg_dot", (2,), self.k) * self._s("lg_dot", t, q, u)

    def g_dot_u(self, t, q):
        return _B("lg_dot_u", (2, self._nu), self.k) * self._s("lg_dot_u", t, q)

    def g_dot_q(self, t, q, u):
        return _B("lg_dot_q", (2, self._nq), self.k) * self._s("lg_dot_q", t, q, u)

    def g_ddot(self, t, q, u, u_dot):
        return _B("lg_ddot", (2,), self.k) * self._s("lg_ddot", t, q, u, u_dot)

    def gamma(self, t, q, u):
        return _B("lgamma", (1,), self.k) * self._s("lgamma", t, q, u)

    def gamma_q(self, t, q, u):
        return _B("lgamma_q", (1, self._nq), self.k) * self._s("lgamma_q", t, q, u)

    def gamma_u(self, t, q):
        return _B("lgamma_u", (1, self._nu), self.k) * self._s("lgamma_u", t, q)

    def gamma_dot(self, t, q, u, u_dot):
        return _B("lgamma_dot", (1,), self.k) * self._s("lgamma_dot", t, q, u, u_dot)

    def gamma_dot_q(self, t, q, u, u_dot):
        return _B("lgamma_dot_q", (1, self._nq), self.k) * self._s("lgdq", t, q, u, u_dot)

    def gamma_dot_u(self, t, q, u, u_dot):
        return _B("lgamma_dot_u", (1, self._nu), self.k) * self._s("lgdu", t, q, u, u_dot)

    def W_gamma(self, t, q):
        return _B("lW_gamma", (self._nu, 1), self.k) * self._s("lW_gamma", t, q)

    def Wla_gamma_q(self, t, q, la_gamma):
        return _B("lWla_gamma_q", (self._nu, self._nq), self.k) * self._s("lWlag", t, q, la=la_gamma)


# ------------------------------------------------------------------------------------------------
# items, reference layout
# ------------------------------------------------------------------------------------------------
class Item:
    def __init__(self, key, obj, deps=(), qu=None, tags=()):
        self.key = key
        self.obj = obj
        self.deps = tuple(deps)
        self.qu = qu  # None: own coordinates; else f(L) -> (qDOF, uDOF) from the reference layout L
        self.tags = tuple(tags)
        # intrinsic dimensions, read from the fresh object before any assembly
        self.dims = {k: int(getattr(obj, a)) for k, a in DIMATTR.items() if hasattr(obj, a)}
        self.q0 = np.array(obj.q0, float).copy() if "q" in self.dims else np.zeros(0)
        self.u0 = np.array(obj.u0, float).copy() if "u" in self.dims else np.zeros(0)


def cat(*arrs):
    arrs = [np.asarray(a, int) for a in arrs]
    return np.concatenate(arrs) if arrs else np.zeros(0, int)


def ref_layout(items):
    """items: registered Items in registration order -> (L, totals): L[key] = dict(kind -> index array,
    'qDOF','uDOF' -> evaluation index arrays)"""
    off = dict.fromkeys(KINDS, 0)
    L = {}
    for it in items:
        d = {}
        for k in KINDS:
            if k in it.dims:
                d[k] = np.arange(it.dims[k]) + off[k]
                off[k] += it.dims[k]
        L[it.key] = d
    for it in items:
        d = L[it.key]
        if it.qu is None:
            d["qDOF"] = d.get("q", np.zeros(0, int))
            d["uDOF"] = d.get("u", np.zeros(0, int))
        else:
            d["qDOF"], d["uDOF"] = it.qu(L)
    return L, off


class State:
    pass


def make_state(totals, q0, seed, k, dev=0.05):
    S = State()
    S.t = 0.3 + 0.1 * k
    S.q = np.asarray(q0, float) + dev * weyl(seed, 11 + 7 * k, totals["q"])
    S.u = weyl(seed, 12 + 7 * k, totals["u"])
    S.u_dot = weyl(seed, 13 + 7 * k, totals["u"])
    for j, kind in enumerate(["la_g", "la_gamma", "la_c", "la_N", "la_F"]):
        setattr(S, kind, weyl(seed, 14 + 7 * k + j, totals[kind]))
    # a second ("pre") state for xi_N / xi_F
    S.t_pre = S.t - 0.05
    S.q_pre = np.asarray(q0, float) - dev * weyl(seed, 3 + 7 * k, totals["q"])
    S.u_pre = weyl(seed, 4 + 7 * k, totals["u"])
    return S


# (name, kind, rows, cols, owner attrs, System call, local call)        kind: v vector, m matrix, s scalar
# D = dict from ref_layout (D['qDOF'], D['uDOF'], D['la_g'] ...);  q,u = global arrays
def _q(S, D):
    return S.q[D["qDOF"]]


def _u(S, D):
    return S.u[D["uDOF"]]


def _a(S, D):
    return S.u_dot[D["uDOF"]]


def _z(D):
    return np.zeros(len(D["uDOF"]))


METHODS = [
    ("q_dot", "v", "q", None, ["q_dot"], lambda y, S: y.q_dot(S.t, S.q, S.u), lambda c, S, D: c.q_dot(S.t, _q(S, D), _u(S, D))),
    ("q_dot_q", "m", "q", "qDOF", ["q_dot_q"], lambda y, S: y.q_dot_q(S.t, S.q, S.u), lambda c, S, D: c.q_dot_q(S.t, _q(S, D), _u(S, D))),
    ("q_dot_u", "m", "q", "uDOF", ["q_dot_u"], lambda y, S: y.q_dot_u(S.t, S.q), lambda c, S, D: c.q_dot_u(S.t, _q(S, D))),
    ("E_pot", "s", None, None, ["E_pot"], lambda y, S: y.E_pot(S.t, S.q), lambda c, S, D: c.E_pot(S.t, _q(S, D))),
    ("E_kin", "s", None, None, ["E_kin"], lambda y, S: y.E_kin(S.t, S.q, S.u), lambda c, S, D: c.E_kin(S.t, _q(S, D), _u(S, D))),
    ("M", "m", "uDOF", "uDOF", ["M"], lambda y, S: y.M(S.t, S.q), lambda c, S, D: c.M(S.t, _q(S, D))),
    ("Mu_q", "m", "uDOF", "qDOF", ["Mu_q"], lambda y, S: y.Mu_q(S.t, S.q, S.u), lambda c, S, D: c.Mu_q(S.t, _q(S, D), _u(S, D))),
    ("h", "v", "uDOF", None, ["h"], lambda y, S: y.h(S.t, S.q, S.u), lambda c, S, D: c.h(S.t, _q(S, D), _u(S, D))),
    ("h_q", "m", "uDOF", "qDOF", ["h_q"], lambda y, S: y.h_q(S.t, S.q, S.u), lambda c, S, D: c.h_q(S.t, _q(S, D), _u(S, D))),
    ("h_u", "m", "uDOF", "uDOF", ["h_u"], lambda y, S: y.h_u(S.t, S.q, S.u), lambda c, S, D: c.h_u(S.t, _q(S, D), _u(S, D))),
    # compliance
    ("la_c", "v", "la_c", None, ["c", "la_c"], lambda y, S: y.la_c(S.t, S.q, S.u), lambda c, S, D: c.la_c(S.t, _q(S, D), _u(S, D))),
    ("c", "v", "la_c", None, ["c"], lambda y, S: y.c(S.t, S.q, S.u, S.la_c), lambda c, S, D: c.c(S.t, _q(S, D), _u(S, D), S.la_c[D["la_c"]])),
    ("c_q", "m", "la_c", "qDOF", ["c_q"], lambda y, S: y.c_q(S.t, S.q, S.u, S.la_c), lambda c, S, D: c.c_q(S.t, _q(S, D), _u(S, D), S.la_c[D["la_c"]])),
    ("c_u", "m", "la_c", "uDOF", ["c_u"], lambda y, S: y.c_u(S.t, S.q, S.u, S.la_c), lambda c, S, D: c.c_u(S.t, _q(S, D), _u(S, D), S.la_c[D["la_c"]])),
    ("c_la_c", "m", "la_c", "la_c", ["c", "c_la_c"], lambda y, S: y.c_la_c(), lambda c, S, D: c.c_la_c()),
    ("W_c", "m", "uDOF", "la_c", ["c", "W_c"], lambda y, S: y.W_c(S.t, S.q), lambda c, S, D: c.W_c(S.t, _q(S, D))),
    ("Wla_c_q", "m", "uDOF", "qDOF", ["c_q", "Wla_c_q"], lambda y, S: y.Wla_c_q(S.t, S.q, S.la_c), lambda c, S, D: c.Wla_c_q(S.t, _q(S, D), S.la_c[D["la_c"]])),
    # actuators
    ("W_tau", "m", "uDOF", "la_tau", ["la_tau", "W_tau"], lambda y, S: y.W_tau(S.t, S.q), lambda c, S, D: c.W_tau(S.t, _q(S, D))),
    ("la_tau", "v", "la_tau", None, ["la_tau"], lambda y, S: y.la_tau(S.t, S.q, S.u), lambda c, S, D: c.la_tau(S.t, _q(S, D), _u(S, D))),
    ("Wla_tau_q", "m", "uDOF", "qDOF", ["la_tau", "Wla_tau_q"], lambda y, S: y.Wla_tau_q(S.t, S.q, S.u), lambda c, S, D: c.Wla_tau_q(S.t, _q(S, D), _u(S, D))),
    ("Wla_tau_u", "m", "uDOF", "uDOF", ["la_tau", "Wla_tau_u"], lambda y, S: y.Wla_tau_u(S.t, S.q, S.u), lambda c, S, D: c.Wla_tau_u(S.t, _q(S, D), _u(S, D))),
    ("tau", "v", "tau", None, ["tau"], lambda y, S: y.tau(S.t), lambda c, S, D: c.tau(S.t)),
    # bilateral constraints on position level
    ("g", "v", "la_g", None, ["g"], lambda y, S: y.g(S.t, S.q), lambda c, S, D: c.g(S.t, _q(S, D))),
    ("g_q", "m", "la_g", "qDOF", ["g", "g_q"], lambda y, S: y.g_q(S.t, S.q), lambda c, S, D: c.g_q(S.t, _q(S, D))),
    ("g_q_T_mu_q", "m", "qDOF", "qDOF", ["g", "g_q_T_mu_q"], lambda y, S: y.g_q_T_mu_q(S.t, S.q, S.la_g), lambda c, S, D: c.g_q_T_mu_q(S.t, _q(S, D), S.la_g[D["la_g"]])),
    ("W_g", "m", "uDOF", "la_g", ["g", "W_g"], lambda y, S: y.W_g(S.t, S.q), lambda c, S, D: c.W_g(S.t, _q(S, D))),
    ("Wla_g_q", "m", "uDOF", "qDOF", ["g", "Wla_g_q"], lambda y, S: y.Wla_g_q(S.t, S.q, S.la_g), lambda c, S, D: c.Wla_g_q(S.t, _q(S, D), S.la_g[D["la_g"]])),
    ("g_dot", "v", "la_g", None, ["g", "g_dot"], lambda y, S: y.g_dot(S.t, S.q, S.u), lambda c, S, D: c.g_dot(S.t, _q(S, D), _u(S, D))),
    ("chi_g", "v", "la_g", None, ["g", "g_dot"], lambda y, S: y.chi_g(S.t, S.q), lambda c, S, D: c.g_dot(S.t, _q(S, D), _z(D))),
    ("g_dot_u", "m", "la_g", "uDOF", ["g", "g_dot_u"], lambda y, S: y.g_dot_u(S.t, S.q), lambda c, S, D: c.g_dot_u(S.t, _q(S, D))),
    ("g_dot_q", "m", "la_g", "qDOF", ["g", "g_dot_q"], lambda y, S: y.g_dot_q(S.t, S.q, S.u), lambda c, S, D: c.g_dot_q(S.t, _q(S, D), _u(S, D))),
    ("g_ddot", "v", "la_g", None, ["g", "g_ddot"], lambda y, S: y.g_ddot(S.t, S.q, S.u, S.u_dot), lambda c, S, D: c.g_ddot(S.t, _q(S, D), _u(S, D), _a(S, D))),
    ("zeta_g", "v", "la_g", None, ["g", "g_ddot"], lambda y, S: y.zeta_g(S.t, S.q, S.u), lambda c, S, D: c.g_ddot(S.t, _q(S, D), _u(S, D), _z(D))),
    # bilateral constraints on velocity level
    ("gamma", "v", "la_gamma", None, ["gamma"], lambda y, S: y.gamma(S.t, S.q, S.u), lambda c, S, D: c.gamma(S.t, _q(S, D), _u(S, D))),
    ("chi_gamma", "v", "la_gamma", None, ["gamma"], lambda y, S: y.chi_gamma(S.t, S.q), lambda c, S, D: c.gamma(S.t, _q(S, D), _z(D))),
    ("gamma_q", "m", "la_gamma", "qDOF", ["gamma", "gamma_q"], lambda y, S: y.gamma_q(S.t, S.q, S.u), lambda c, S, D: c.gamma_q(S.t, _q(S, D), _u(S, D))),
    ("gamma_u", "m", "la_gamma", "uDOF", ["gamma", "gamma_u"], lambda y, S: y.gamma_u(S.t, S.q), lambda c, S, D: c.gamma_u(S.t, _q(S, D))),
    ("gamma_dot", "v", "la_gamma", None, ["gamma", "gamma_dot"], lambda y, S: y.gamma_dot(S.t, S.q, S.u, S.u_dot), lambda c, S, D: c.gamma_dot(S.t, _q(S, D), _u(S, D), _a(S, D))),
    ("gamma_dot_q", "m", "la_gamma", "qDOF", ["gamma", "gamma_dot_q"], lambda y, S: y.gamma_dot_q(S.t, S.q, S.u, S.u_dot), lambda c, S, D: c.gamma_dot_q(S.t, _q(S, D), _u(S, D), _a(S, D))),
    ("gamma_dot_u", "m", "la_gamma", "uDOF", ["gamma", "gamma_dot_u"], lambda y, S: y.gamma_dot_u(S.t, S.q, S.u, S.u_dot), lambda c, S, D: c.gamma_dot_u(S.t, _q(S, D), _u(S, D), _a(S, D))),
    ("zeta_gamma", "v", "la_gamma", None, ["gamma", "gamma_dot"], lambda y, S: y.zeta_gamma(S.t, S.q, S.u), lambda c, S, D: c.gamma_dot(S.t, _q(S, D), _u(S, D), _z(D))),
    ("W_gamma", "m", "uDOF", "la_gamma", ["gamma", "W_gamma"], lambda y, S: y.W_gamma(S.t, S.q), lambda c, S, D: c.W_gamma(S.t, _q(S, D))),
    ("Wla_gamma_q", "m", "uDOF", "qDOF", ["gamma", "Wla_gamma_q"], lambda y, S: y.Wla_gamma_q(S.t, S.q, S.la_gamma), lambda c, S, D: c.Wla_gamma_q(S.t, _q(S, D), S.la_gamma[D["la_gamma"]])),
    # stabilisation
    ("g_S", "v", "la_S", None, ["g_S"], lambda y, S: y.g_S(S.t, S.q), lambda c, S, D: c.g_S(S.t, _q(S, D))),
    ("g_S_q", "m", "la_S", "qDOF", ["g_S", "g_S_q"], lambda y, S: y.g_S_q(S.t, S.q), lambda c, S, D: c.g_S_q(S.t, _q(S, D))),
    # normal contacts
    ("g_N", "v", "la_N", None, ["g_N"], lambda y, S: y.g_N(S.t, S.q), lambda c, S, D: c.g_N(S.t, _q(S, D))),
    ("g_N_q", "m", "la_N", "qDOF", ["g_N", "g_N_q"], lambda y, S: y.g_N_q(S.t, S.q), lambda c, S, D: c.g_N_q(S.t, _q(S, D))),
    ("W_N", "m", "uDOF", "la_N", ["g_N", "W_N"], lambda y, S: y.W_N(S.t, S.q), lambda c, S, D: c.W_N(S.t, _q(S, D))),
    ("g_N_dot", "v", "la_N", None, ["g_N", "g_N_dot"], lambda y, S: y.g_N_dot(S.t, S.q, S.u), lambda c, S, D: c.g_N_dot(S.t, _q(S, D), _u(S, D))),
    ("g_N_ddot", "v", "la_N", None, ["g_N", "g_N_ddot"], lambda y, S: y.g_N_ddot(S.t, S.q, S.u, S.u_dot), lambda c, S, D: c.g_N_ddot(S.t, _q(S, D), _u(S, D), _a(S, D))),
    ("xi_N", "v", "la_N", None, ["g_N", "g_N_dot"], lambda y, S: y.xi_N(S.t_pre, S.t, S.q_pre, S.q, S.u_pre, S.u),
     lambda c, S, D: c.g_N_dot(S.t, _q(S, D), _u(S, D)) + c.e_N * c.g_N_dot(S.t_pre, S.q_pre[D["qDOF"]], S.u_pre[D["uDOF"]])),
    ("xi_N_q", "m", "la_N", "qDOF", ["g_N", "g_N_dot_q"], lambda y, S: y.xi_N_q(S.t, S.q, S.u), lambda c, S, D: c.g_N_dot_q(S.t, _q(S, D), _u(S, D))),
    ("chi_N", "v", "la_N", None, ["g_N", "g_N_dot"], lambda y, S: y.chi_N(S.t, S.q), lambda c, S, D: c.g_N_dot(S.t, _q(S, D), _z(D))),
    ("g_N_dot_u", "m", "la_N", "uDOF", ["g_N", "g_N_dot_u"], lambda y, S: y.g_N_dot_u(S.t, S.q), lambda c, S, D: c.g_N_dot_u(S.t, _q(S, D))),
    ("Wla_N_q", "m", "uDOF", "qDOF", ["g_N", "Wla_N_q"], lambda y, S: y.Wla_N_q(S.t, S.q, S.la_N), lambda c, S, D: c.Wla_N_q(S.t, _q(S, D), S.la_N[D["la_N"]])),
    # friction
    ("gamma_F", "v", "la_F", None, ["gamma_F"], lambda y, S: y.gamma_F(S.t, S.q, S.u), lambda c, S, D: c.gamma_F(S.t, _q(S, D), _u(S, D))),
    ("gamma_F_dot", "v", "la_F", None, ["gamma_F", "gamma_F_dot"], lambda y, S: y.gamma_F_dot(S.t, S.q, S.u, S.u_dot), lambda c, S, D: c.gamma_F_dot(S.t, _q(S, D), _u(S, D), _a(S, D))),
    ("xi_F", "v", "la_F", None, ["gamma_F"], lambda y, S: y.xi_F(S.t_pre, S.t, S.q_pre, S.q, S.u_pre, S.u),
     lambda c, S, D: c.gamma_F(S.t, _q(S, D), _u(S, D)) + c.e_F * c.gamma_F(S.t_pre, S.q_pre[D["qDOF"]], S.u_pre[D["uDOF"]])),
    ("xi_F_q", "m", "la_F", "qDOF", ["gamma_F", "gamma_F_q"], lambda y, S: y.xi_F_q(S.t, S.q, S.u), lambda c, S, D: c.gamma_F_q(S.t, _q(S, D), _u(S, D))),
    ("gamma_F_q", "m", "la_F", "qDOF", ["gamma_F_q"], lambda y, S: y.gamma_F_q(S.t, S.q, S.u), lambda c, S, D: c.gamma_F_q(S.t, _q(S, D), _u(S, D))),
    ("gamma_F_u", "m", "la_F", "uDOF", ["gamma_F", "gamma_F_u"], lambda y, S: y.gamma_F_u(S.t, S.q), lambda c, S, D: c.gamma_F_u(S.t, _q(S, D))),
    ("gamma_F_dot_q", "m", "la_F", "qDOF", ["gamma_F", "gamma_F_dot_q"], lambda y, S: y.gamma_F_dot_q(S.t, S.q, S.u, S.u_dot), lambda c, S, D: c.gamma_F_dot_q(S.t, _q(S, D), _u(S, D), _a(S, D))),
    ("gamma_F_dot_u", "m", "la_F", "uDOF", ["gamma_F", "gamma_F_dot_u"], lambda y, S: y.gamma_F_dot_u(S.t, S.q, S.u, S.u_dot), lambda c, S, D: c.gamma_F_dot_u(S.t, _q(S, D), _u(S, D), _a(S, D))),
    ("W_F", "m", "uDOF", "la_F", ["gamma_F", "W_F"], lambda y, S: y.W_F(S.t, S.q), lambda c, S, D: c.W_F(S.t, _q(S, D))),
    ("Wla_F_q", "m", "uDOF", "qDOF", ["gamma_F", "Wla_F_q"], lambda y, S: y.Wla_F_q(S.t, S.q, S.la_F), lambda c, S, D: c.Wla_F_q(S.t, _q(S, D), S.la_F[D["la_F"]])),
]
# index-set name -> which total gives the global size
_SIZE = {"qDOF": "q", "uDOF": "u"}


def _dense(x):
    if hasattr(x, "toarray"):
        x = x.toarray()
    return np.asarray(x, float)


class LocalProblem(Exception):
    """the contribution's own local quantity is missing / raises / has the wrong shape: the reference
    cannot be formed and the scatter property says nothing (counted, never failed)"""


def ref_eval(meth, items, L, totals, S):
    """dense reference: sum of the contributions' local quantities placed at their index sets"""
    name, kind, rk, ck, owners, _, loc = meth
    if kind == "s":
        out = 0.0
    elif kind == "v":
        out = np.zeros(totals[_SIZE.get(rk, rk)])
    else:
        out = np.zeros((totals[_SIZE.get(rk, rk)], totals[_SIZE.get(ck, ck)]))
    n_contrib = 0
    for it in items:
        c = it.obj
        D = L[it.key]
        if not callable(getattr(c, owners[0], None)):
            continue
        if (rk is not None and rk not in D) or (ck is not None and ck not in D):
            continue
        for o in owners[1:]:
            if not callable(getattr(c, o, None)):
                raise LocalProblem(f"{type(c).__name__} has {owners[0]} but no {o}")
        try:
            val = loc(c, S, D)
        except Exception as e:  # noqa
            raise LocalProblem(f"{type(c).__name__}.{owners[-1]} raises {type(e).__name__}: {e}")
        n_contrib += 1
        if kind == "s":
            out = out + float(val)
            continue
        val = _dense(val)
        rows = D[rk]
        if kind == "v":
            if val.ndim == 0 and len(rows) == 1:
                val = val.reshape(1)
            if val.shape != (len(rows),):
                raise LocalProblem(f"{type(c).__name__}.{owners[-1]} returns shape {val.shape} for {len(rows)} rows")
            np.add.at(out, rows, val)
        else:
            cols = D[ck]
            if val.ndim == 0 and len(rows) == 1 and len(cols) == 1:
                val = val.reshape(1, 1)
            elif val.ndim == 1 and len(rows) == 1:
                val = val.reshape(1, -1)
            if val.shape != (len(rows), len(cols)):
                raise LocalProblem(f"{type(c).__name__}.{owners[-1]} returns shape {val.shape} for block {(len(rows), len(cols))}")
            if rows.size and cols.size:
                np.add.at(out, (rows[:, None], cols[None, :]), val)
    return out, n_contrib


def ref_step_callback(items, L, S):
    q, u = S.q.copy(), S.u.copy()
    n = 0
    for it in items:
        c = it.obj
        if callable(getattr(c, "step_callback", None)):
            D = L[it.key]
            qq, uu = c.step_callback(S.t, q[D["qDOF"]], u[D["uDOF"]])
            q[D["qDOF"]], u[D["uDOF"]] = qq, uu
            n += 1
    return q, u, n


# ------------------------------------------------------------------------------------------------
# pools
# ------------------------------------------------------------------------------------------------
def zquat(phi):
    return np.array([np.cos(phi / 2), 0.0, 0.0, np.sin(phi / 2)])


def history_pool(system, seed):
    """pool for the C14 history exploration: two RigidBodies with the same default name, a PointMass, a
    Revolute depending on both bodies, a Force, a Sphere2Plane contact (open, with friction) and the
    synthetic all-quantities contribution.  Initial state consistent (both bodies spin about the joint
    axis e_z through the joint point O)."""
    from cardillo.discrete import RigidBody, PointMass
    from cardillo.constraints import Revolute
    from cardillo.forces import Force
    from cardillo.contacts import Sphere2Plane

    w = weyl(seed, 1, 8)
    w1, w2 = 0.8 + 0.5 * w[0], -0.6 + 0.4 * w[1]
    A = RigidBody(1.5, np.diag([0.1, 0.2, 0.3]), q0=np.concatenate([[1.0, 0, 0], zquat(0.4 + 0.3 * w[2])]),
                  u0=np.array([0.0, w1 * 1.0, 0.0, 0, 0, w1]))
    B = RigidBody(2.0, np.diag([0.3, 0.1, 0.2]), q0=np.concatenate([[0.0, 2.0, 0], zquat(-0.7 + 0.3 * w[3])]),
                  u0=np.array([-2.0 * w2, 0.0, 0.0, 0, 0, w2]))
    # a third contribution with the SAME name as the two bodies (names are user-assignable): collisions of collisions
    P = PointMass(0.7, q0=np.array([0.3 + 0.2 * w[4], -0.2, 0.5]), u0=0.5 * w[5:8], name="rigid_body")
    R = Revolute(A, B, axis=2, r_OJ0=np.zeros(3), A_IJ0=np.eye(3))
    F = Force(np.array([0.3, -1.1, 2.0]) * (1 + 0.2 * w[0]), A, B_r_CP=np.array([0.1, -0.2, 0.3]))
    C = Sphere2Plane(system.origin, P, mu=0.3, r=0.1, e_N=0.5, e_F=0.0)
    X = Synth(k=seed % 5)
    return [
        Item("A", A),
        Item("B", B),
        Item("P", P),
        Item("R", R, deps=("A", "B"), qu=lambda L: (cat(L["A"]["q"], L["B"]["q"]), cat(L["A"]["u"], L["B"]["u"]))),
        Item("F", F, deps=("A",), qu=lambda L: (L["A"]["q"], L["A"]["u"])),
        Item("C", C, deps=("P",), qu=lambda L: (L["P"]["q"], L["P"]["u"]), tags=("s2p",)),
        Item("X", X),
    ]


# ------------------------------------------------------------------------------------------------
# pair part: contribution types, each built on lazily shared bodies (so that pairs overlap)
# ------------------------------------------------------------------------------------------------
PAIR_TYPES = [
    "RigidBody", "PointMass", "Frame", "Revolute", "Spherical", "RigidConnection", "Prismatic", "Cylindrical",
    "FixedDistance", "Force", "B_Force", "Moment", "Spring_h", "Spring_c", "KelvinVoigt_c", "Maxwell", "Motor", "PD",
    "PID", "S2P_mu0", "S2P_mu", "S2S", "Rod", "RodTipForce", "Synth", "SynthLink",
    # force law between two points of the SAME body: the contribution lists the body's coordinates twice (repeated indices must be summed)
    "SelfSpring",
]


def _two(k1, k2):
    return lambda L: (cat(L[k1]["qDOF"], L[k2]["qDOF"]), cat(L[k1]["uDOF"], L[k2]["uDOF"]))


class PairContext:
    def __init__(self, system, seed):
        self.system = system
        self.seed = seed
        self.shared = {}
        self.w = weyl(seed, 2, 12)

    def get(self, key):
        """shared base contributions -> list of Items (dependencies first)"""
        if key in self.shared:
            return self.shared[key]
        from cardillo.discrete import RigidBody, PointMass, Frame

        w = self.w
        if key == "A":
            q = np.array([1.0, 0.2, -0.3, 0.9, 0.1 + 0.1 * w[0], -0.3, 0.2])
            q[3:] /= np.linalg.norm(q[3:])
            its = [Item("A", RigidBody(1.5, np.diag([0.1, 0.2, 0.3]), q0=q, u0=0.5 * weyl(self.seed, 5, 6)))]
        elif key == "B":
            q = np.array([-0.4, 2.0, 0.5, 0.7, -0.2, 0.4 + 0.1 * w[1], 0.5])
            q[3:] /= np.linalg.norm(q[3:])
            its = [Item("B", RigidBody(2.0, np.diag([0.3, 0.1, 0.2]), q0=q, u0=0.5 * weyl(self.seed, 6, 6), name="rigid_body"))]
        elif key == "P":
            its = [Item("P", PointMass(0.7, q0=np.array([0.3 + 0.2 * w[2], -1.2, 0.8]), u0=0.5 * weyl(self.seed, 7, 3)))]
        elif key == "Fm":
            r = lambda t: np.array([0.1 * t, 0.2, -0.1 * t * t])
            its = [Item("Fm", Frame(r_OP=r, name="moving_frame"))]
        elif key == "X":
            its = [Item("X", Synth(k=self.seed % 5))]
        elif key == "Rev":
            from cardillo.constraints import Revolute

            its = self.get("A") + self.get("B") + [Item("Rev", Revolute(self.obj("A"), self.obj("B"), axis=1), deps=("A", "B"), qu=_two("A", "B"))]
        elif key == "Rod":
            from cardillo.rods import RectangularCrossSection, Simo1986, CrossSectionInertias
            from cardillo.rods.cosseratRod import make_CosseratRod

            Rod = make_CosseratRod(interpolation="Quaternion", mixed=False)
            cs = RectangularCrossSection(0.1, 0.1)
            Q = Rod.straight_configuration(2, 1.0, r_OP0=np.array([0.0, -3.0, 0.0]))
            rod = Rod(cs, Simo1986(np.array([5.0, 1, 1]), np.array([0.5, 2, 2])), 2, Q=Q, q0=Q,
                      cross_section_inertias=CrossSectionInertias(A_rho0=1.0, B_I_rho0=np.diag([2e-3, 1e-3, 1e-3])))
            its = [Item("Rod", rod)]
        else:
            raise KeyError(key)
        self.shared[key] = its
        return its

    def obj(self, key):
        return self.get(key)[-1].obj

    def build(self, tname):
        from cardillo import constraints as cn, forces as fo, force_laws as fl, actuators as ac, contacts as co
        from cardillo.interactions import TwoPointInteraction

        g = self.get
        o = self.obj
        if tname == "RigidBody":
            return g("A")
        if tname == "PointMass":
            return g("P")
        if tname == "Frame":
            return g("Fm")
        if tname == "Synth":
            return g("X")
        if tname == "Rod":
            return g("Rod")
        if tname == "Revolute":
            return g("Rev")
        AB = g("A") + g("B")
        if tname == "Spherical":
            return AB + [Item(tname, cn.Spherical(o("A"), o("B"), r_OJ0=np.array([0.2, 0.5, 0.1])), ("A", "B"), _two("A", "B"))]
        if tname == "RigidConnection":
            return AB + [Item(tname, cn.RigidConnection(o("A"), o("B")), ("A", "B"), _two("A", "B"))]
        if tname == "Prismatic":
            return AB + [Item(tname, cn.Prismatic(o("B"), o("A"), axis=0), ("A", "B"), _two("B", "A"))]
        if tname == "Cylindrical":
            return AB + [Item(tname, cn.Cylindrical(o("A"), o("B"), axis=2), ("A", "B"), _two("A", "B"))]
        if tname == "FixedDistance":
            return g("P") + g("A") + [Item(tname, cn.FixedDistance(o("P"), o("A")), ("P", "A"), _two("P", "A"))]
        if tname == "Force":
            return g("A") + [Item(tname, fo.Force(np.array([0.3, -1.1, 2.0]), o("A"), B_r_CP=np.array([0.1, -0.2, 0.3])), ("A",), lambda L: (L["A"]["q"], L["A"]["u"]))]
        if tname == "B_Force":
            return g("A") + [Item(tname, fo.B_Force(lambda t: np.array([1.0 + t, -0.5, 0.25]), o("A"), B_r_CP=np.array([0.3, 0.1, -0.2]), name="b_force"), ("A",), lambda L: (L["A"]["q"], L["A"]["u"]))]
        if tname == "Moment":
            return g("B") + [Item(tname, fo.Moment(np.array([0.7, 0.1, -0.4]), o("B")), ("B",), lambda L: (L["B"]["q"], L["B"]["u"]))]
        tpi = lambda a, b: TwoPointInteraction(o(a), o(b), B_r_CP1=np.array([0.1, 0.0, 0.2]) if a != "P" else np.zeros(3), B_r_CP2=np.array([0.0, -0.1, 0.1]))
        if tname == "Spring_h":
            return AB + [Item(tname, fl.Spring(tpi("A", "B"), 30.0, l_ref=1.5, compliance_form=False, name="spring_h"), ("A", "B"), _two("A", "B"))]
        if tname == "SelfSpring":
            tp = TwoPointInteraction(o("A"), o("A"), B_r_CP1=np.array([0.5, 0.0, 0.1]), B_r_CP2=np.array([0.0, 0.7, 0.2]))
            return g("A") + [Item(tname, fl.Spring(tp, 10.0, l_ref=0.3, compliance_form=False, name="self_spring"), ("A",), _two("A", "A"))]
        if tname == "Spring_c":
            return AB + [Item(tname, fl.Spring(tpi("B", "A"), 40.0, l_ref=1.2, compliance_form=True), ("A", "B"), _two("B", "A"))]
        if tname == "KelvinVoigt_c":
            return g("P") + g("A") + [Item(tname, fl.KelvinVoigtElement(tpi("P", "A"), 25.0, 3.0, l_ref=1.0, compliance_form=True), ("P", "A"), _two("P", "A"))]
        def reg_tpi(a, b):
            # Maxwell / PD / PID read subsystem.qDOF in their assembler_callback: the interaction itself has to be
            # registered (before them), as test_maxwell_element.py does
            key = f"tpi_{a}{b}"
            if key not in self.shared:
                self.shared[key] = g(a) + g(b) + [Item(key, tpi(a, b), (a, b), _two(a, b))]
                self.shared[key][-1].obj.name = key
            return self.shared[key]

        if tname == "Maxwell":
            return reg_tpi("A", "B") + [Item(tname, fl.MaxwellElement(o("tpi_AB"), 20.0, 2.0, l_ref=1.0, q0=np.array([0.3])), ("tpi_AB",),
                              lambda L: (cat(L[tname]["q"], L["A"]["q"], L["B"]["q"]), cat(L["A"]["u"], L["B"]["u"])))]
        if tname == "Motor":
            return g("Rev") + [Item(tname, ac.Motor(o("Rev"), lambda t: 2.5 + t), ("Rev",), _two("A", "B"))]
        if tname == "PD":
            # (actuators on a TwoPointInteraction are not usable: TwoPointInteraction.W_l is 1-D where W_tau needs (nu, 1))
            return g("Rev") + [Item(tname, ac.PDcontroller(o("Rev"), 3.0, 0.5, np.array([1.0, 0.1])), ("Rev",), _two("A", "B"))]
        if tname == "PID":
            return g("Rev") + [Item(tname, ac.PIDcontroller(o("Rev"), 3.0, 0.7, 0.5, lambda t: np.array([1.0 + t, 0.1])), ("Rev",),
                                           lambda L: (cat(L[tname]["q"], L["A"]["q"], L["B"]["q"]), cat(L["A"]["u"], L["B"]["u"])))]
        if tname == "S2P_mu0":
            return g("P") + [Item(tname, co.Sphere2Plane(self.system.origin, o("P"), mu=0.0, r=0.1, e_N=0.5, name="s2p_frictionless"), ("P",), lambda L: (L["P"]["q"], L["P"]["u"]), tags=("s2p",))]
        if tname == "S2P_mu":
            return g("A") + [Item(tname, co.Sphere2Plane(self.system.origin, o("A"), mu=0.3, r=0.2, e_N=0.25, e_F=0.5, B_r_CP=np.array([0.1, 0.0, -0.1])), ("A",), lambda L: (L["A"]["q"], L["A"]["u"]), tags=("s2p",))]
        if tname == "S2S":
            return g("P") + g("B") + [Item(tname, co.Sphere2Sphere(o("P"), o("B"), 0.1, 0.2, mu=0.4, e_N=0.5, e_F=0.1), ("P", "B"), _two("P", "B"), tags=("s2s",))]
        if tname == "RodTipForce":
            rod = o("Rod")
            lq, lu = rod.local_qDOF_P((1,)), rod.local_uDOF_P((1,))
            return g("Rod") + [Item(tname, fo.Force(np.array([0.0, 0.5, -1.0]), rod, (1,), name="tip_force"), ("Rod",), lambda L: (L["Rod"]["q"][lq], L["Rod"]["u"][lu]))]
        if tname == "SynthLink":
            return g("X") + g("A") + [Item(tname, SynthLink(o("X"), o("A")), ("X", "A"), _two("X", "A"))]
        raise KeyError(tname)


# ------------------------------------------------------------------------------------------------
# C16: mechanisms x attachments x contacts x initial states
# ------------------------------------------------------------------------------------------------
MECHS = ["free", "pendulum", "double_pendulum", "slider", "pm_fixed_distance", "rigid_pair", "synth", "mixed_rod", "belt"]
ATTACH = ["none", "gravity", "spring_h", "spring_c", "kelvin_voigt_c", "maxwell", "motor", "pd", "pid"]
CONTACTS = ["none", "rest_mu0", "stick_mu", "slide_mu", "open_mu", "two_spheres", "two_spheres_slide", "accel_plane", "spin_offcentre",
            "ceiling_mu", "ceiling_mu0", "incline_stick", "open_then_stick",
            # sliding exactly along one tangent axis of the contact frame (one component of gamma_F is exactly zero; seeded C16-e)
            "slide_x", "slide_y",
            # sliding body with principal inertias 1:4:2.5 (the tangential entries of diag(W_F^T M^-1 W_F) differ; found via seeded C18-h)
            "slide_aniso",
            # closed but separating contact (g_N = 0, g_N_dot > 0): not persistent, must stay force-free (seeded C16-i)
            "leaving_mu",
            # a closed FRICTIONLESS contact of a heavier ball registered before the sliding frictional one (the k-th active friction law
            # is not the k-th active normal contact; normal forces differ; seeded C16-j)
            "frictionless_then_slide",
            # slow sliding (|gamma_F| = 2.2e-4 and 3e-7): still sliding, the friction force has full magnitude
            "slide_slow", "slide_tiny",
            # creeping (1e-7, above the stick tolerance) under a large normal force (1e5 kg ball): both extremes at once
            "slide_tiny_heavy",
            # a closed contact on the mechanism's own tip body: the contact force loads the joints (seeded C16-f)
            "tip_plane_mu0", "tip_plane_mu"]
INITS = ["rest", "spin"]
INCONSISTENT = ["joint_velocity", "position_offset", "joint_offset", "penetration", "approaching", "s2s_penetration"]
GRAV = 9.81


def _cross(a, b):
    return np.cross(np.asarray(a, float), np.asarray(b, float))


def _rb(mass, theta, r, P, v=None, omega_I=None, name="rigid_body"):
    from cardillo.discrete import RigidBody
    from vp.core.alphabet import quat_to_A

    P = np.asarray(P, float) / np.linalg.norm(P)
    A = quat_to_A(P)
    u0 = np.zeros(6)
    if v is not None:
        u0[:3] = v
    if omega_I is not None:
        u0[3:] = A.T @ np.asarray(omega_I, float)
    return RigidBody(mass, np.diag(theta), q0=np.concatenate([np.asarray(r, float), P]), u0=u0, name=name)


def build_c16(case):
    """-> dict(system, mu (per S2P/S2S contact or None), expect_raise: bool, prepare: callable run after a first
    assemble for the 'joint_offset' variant)"""
    from cardillo import System
    from cardillo.discrete import PointMass
    from cardillo import constraints as cn, forces as fo, force_laws as fl, actuators as ac, contacts as co
    from cardillo.interactions import TwoPointInteraction

    seed = case.get("seed", 0)
    w = weyl(seed, 3, 12)
    spin = case["init"] == "spin"
    bad = case.get("bad")
    system = System()
    O = system.origin
    contr = []
    bodies = []  # (body, mass) for gravity
    joint = None
    P1 = np.array([0.9, 0.2 + 0.1 * w[0], -0.3, 0.25])
    P2 = np.array([0.7, -0.3, 0.2 + 0.1 * w[1], 0.5])
    ey = np.array([0.0, 1.0, 0.0])
    w1 = (0.9 + 0.4 * w[2]) if spin else 0.0
    w2 = (-0.7 + 0.3 * w[3]) if spin else 0.0
    mech = case["mech"]
    tip = None
    if mech == "free":
        b = _rb(1.3, [0.1, 0.2, 0.3], [0.0, 0.0, 3.0], P1, v=0.5 * w[4:7] if spin else None, omega_I=w[7:10] if spin else None)
        contr += [b]
        bodies += [(b, 1.3)]
        tip = b
    elif mech == "pendulum":
        rJ = np.array([0.0, 0.0, 2.5])
        rC = rJ + np.array([0.6, 0.0, -0.3])
        vbad = np.array([0.0, 0.3, 0.0]) if bad == "joint_velocity" else 0.0
        b = _rb(1.3, [0.1, 0.2, 0.3], rC, P1, v=_cross(w1 * ey, rC - rJ) + vbad, omega_I=w1 * ey)
        joint = cn.Revolute(O, b, axis=1, r_OJ0=rJ, A_IJ0=np.eye(3))
        contr += [b, joint]
        bodies += [(b, 1.3)]
        tip = b
    elif mech == "double_pendulum":
        rJ1 = np.array([0.0, 0.0, 2.5])
        rC1 = rJ1 + np.array([0.6, 0.0, -0.3])
        rJ2 = rC1 + np.array([0.5, 0.0, -0.4])
        rC2 = rJ2 + np.array([0.4, 0.0, -0.5])
        om1, om2 = w1 * ey, (w1 + w2) * ey
        vJ2 = _cross(om1, rJ2 - rJ1)
        wbad = np.array([0.2, 0.0, 0.0]) if bad == "joint_velocity" else 0.0
        b1 = _rb(1.3, [0.1, 0.2, 0.3], rC1, P1, v=_cross(om1, rC1 - rJ1), omega_I=om1, name="link1")
        b2 = _rb(0.8, [0.05, 0.07, 0.04], rC2, P2, v=vJ2 + _cross(om2, rC2 - rJ2), omega_I=om2 + wbad, name="link2")
        joint = cn.Revolute(O, b1, axis=1, r_OJ0=rJ1, A_IJ0=np.eye(3), name="joint1")
        j2 = cn.Revolute(b1, b2, axis=1, r_OJ0=rJ2, A_IJ0=np.eye(3), name="joint2")
        contr += [b1, b2, joint, j2]
        bodies += [(b1, 1.3), (b2, 0.8)]
        tip = b2
    elif mech == "slider":
        rC = np.array([0.4, 0.3, 2.8])
        s = (0.6 + 0.3 * w[2]) if spin else 0.0
        vbad = np.array([0.0, 0.0, 0.2]) if bad == "joint_velocity" else 0.0
        b = _rb(1.3, [0.1, 0.2, 0.3], rC, P1, v=np.array([s, 0.0, 0.0]) + vbad)
        joint = cn.Prismatic(O, b, axis=0, r_OJ0=rC, A_IJ0=np.eye(3))
        contr += [b, joint]
        bodies += [(b, 1.3)]
        tip = b
    elif mech == "pm_fixed_distance":
        r = np.array([0.6, 0.3, 2.2])
        t = _cross(r, [0.0, 0.0, 1.0])
        v = (0.8 + 0.3 * w[2]) * t / np.linalg.norm(t) if spin else np.zeros(3)
        if bad == "joint_velocity":
            v = v + 0.2 * r
        pm = PointMass(0.9, q0=r, u0=v)
        joint = cn.FixedDistance(O, pm)
        joint.name = "fixed_distance"
        contr += [pm, joint]
        bodies += [(pm, 0.9)]
        tip = pm
    elif mech == "rigid_pair":
        r1, r2 = np.array([0.0, 0.0, 3.0]), np.array([0.7, 0.2, 3.1])
        om = w[7:10] if spin else np.zeros(3)
        v1 = 0.5 * w[4:7] if spin else np.zeros(3)
        vbad = np.array([0.0, 0.2, 0.0]) if bad == "joint_velocity" else 0.0
        b1 = _rb(1.3, [0.1, 0.2, 0.3], r1, P1, v=v1, omega_I=om, name="body1")
        b2 = _rb(0.8, [0.05, 0.07, 0.04], r2, P2, v=v1 + _cross(om, r2 - r1) + vbad, omega_I=om, name="body2")
        joint = cn.RigidConnection(b1, b2)
        contr += [b1, b2, joint]
        bodies += [(b1, 1.3), (b2, 0.8)]
        tip = b2
    elif mech == "mixed_rod":
        # clamped mixed (compliance-form) rod whose reference is NOT arc-length parametrised (stretch varies along every element),
        # started pre-strained (q0 != Q): la_c0 comes from the rod's force-form la_c(), element by element (seeded C16-k)
        from cardillo.rods import RectangularCrossSection, Simo1986, CrossSectionInertias
        from cardillo.rods.cosseratRod import make_CosseratRod
        from vp.scen import rods as RR

        Rod = make_CosseratRod(interpolation="Quaternion", mixed=True, polynomial_degree=2)
        L = 1.2
        Q = np.asarray(Rod.pose_configuration(3, lambda xi: np.array([L * (xi + 0.6 * xi * xi) / 1.6, 0.0, 2.0]), lambda xi: np.eye(3)), float)
        rod = Rod(RectangularCrossSection(0.1, 0.2), Simo1986(np.array([5.0, 1.3, 2.1]), np.array([0.6, 0.9, 1.4])), 3, Q=Q.copy(), q0=Q.copy(),
                  cross_section_inertias=CrossSectionInertias(A_rho0=1.3, B_I_rho0=np.diag([0.02, 0.01, 0.015])), name="rod")
        q0 = RR.base_states(rod, Q, seed)[1][1]
        # keep the clamped cross-section where the clamp is defined
        for dofs in (rod.nodalDOF_r[0], rod.nodalDOF_p[0]):
            q0[dofs] = Q[dofs]
        rod.q0 = q0.copy()
        if spin:
            rod.u0 = 0.3 * weyl(seed, 9, rod.nu)
            rod.u0[rod.nodalDOF_r_u[0]] = 0.0
            rod.u0[rod.nodalDOF_p_u[0]] = 0.0
        clamp = cn.RigidConnection(O, rod, xi2=0, name="clamp")
        contr += [rod, clamp]
        tip = None
    elif mech == "belt":
        # block on a moving belt: friction element with a constant force reservoir and no unilateral contact (nla_N = 0, nla_F = 1);
        # init 'rest' = block slower than the belt (sliding), 'spin' = block moving with the belt (sticking)
        from vp.props.c21 import _Belt

        bl = _Belt()
        if spin:
            bl.u0 = np.array([bl.u_b])
        contr += [bl]
        tip = None
    elif mech == "synth":
        contr += [Synth(k=seed % 5, with_contact=False)]
    else:
        raise KeyError(mech)

    att = case["attach"]
    if att == "gravity":
        for b, m in bodies:
            contr.append(fo.Force(np.array([0.0, 0.0, -m * GRAV]), b, name=f"gravity_{b.name}"))
    elif att in ("spring_h", "spring_c", "kelvin_voigt_c", "maxwell"):
        kw = {} if isinstance(tip, PointMass) else {"B_r_CP2": np.array([0.1, -0.05, 0.2])}
        tpi = TwoPointInteraction(O, tip, **kw)
        if att == "spring_h":
            contr.append(fl.Spring(tpi, 30.0, l_ref=1.5, compliance_form=False))
        elif att == "spring_c":
            contr.append(fl.Spring(tpi, 30.0, l_ref=1.5, compliance_form=True))
        elif att == "kelvin_voigt_c":
            contr.append(fl.KelvinVoigtElement(tpi, 30.0, 4.0, l_ref=1.5, compliance_form=True))
        else:
            contr += [tpi, fl.MaxwellElement(tpi, 30.0, 4.0, l_ref=1.5, q0=np.array([0.4]))]
    elif att == "motor":
        contr.append(ac.Motor(joint, lambda t: 2.5 + t))
    elif att == "pd":
        contr.append(ac.PDcontroller(joint, 3.0, 0.5, np.array([0.7, 0.2])))
    elif att == "pid":
        contr.append(ac.PIDcontroller(joint, 3.0, 0.7, 0.5, lambda t: np.array([0.7 + t, 0.2])))

    # ---- contacts on a separate ball (and a second ball on top of it)
    con = case["contact"]
    mus = {}
    if con in ("tip_plane_mu0", "tip_plane_mu"):
        from cardillo.discrete import Frame

        rad = 0.2
        mu = 0.0 if con == "tip_plane_mu0" else 0.3
        r_tip = np.asarray(tip.q0[:3], float)
        plane = Frame(r_OP=r_tip - np.array([0.0, 0.0, rad]), name="tip_support")
        mt = dict((id(b), m) for b, m in bodies)[id(tip)]
        contr += [plane, fo.Force(np.array([0.05, -0.03, -1.0]) * mt * GRAV, tip, name="tip_load"),
                  co.Sphere2Plane(plane, tip, mu=mu, r=rad, e_N=0.0, e_F=0.0, name="tip_contact")]
        mus["tip_contact"] = mu
    elif con != "none" or bad in ("penetration", "approaching", "s2s_penetration"):
        rad, mb = 0.25, 0.6
        mu = 0.0 if con in ("rest_mu0", "ceiling_mu0") else 0.3
        z = rad
        v = np.zeros(3)
        ft = np.zeros(3)
        if con == "open_mu":
            z = rad + 0.4
            v = np.array([0.3, -0.2, 0.5])
        if con in ("stick_mu", "open_then_stick"):
            ft = np.array([0.12, -0.07, 0.0]) * mb * GRAV  # well inside the friction cone even for a rolling sphere
        if con == "open_then_stick":
            # an OPEN frictional contact of another ball, moving tangentially, is registered BEFORE the persistent one:
            # the active-set numbering of the friction forces differs from the global numbering
            ball0 = _rb(mb, [0.4 * mb * rad**2] * 3, [-1.0, 2.0, rad + 0.4], [1.0, 0, 0, 0], v=np.array([0.6, -0.9, 0.0]), name="ball0")
            contr += [ball0, fo.Force(np.array([0.0, 0.0, -mb * GRAV]), ball0, name="ball0_load"),
                      co.Sphere2Plane(O, ball0, mu=0.3, r=rad, e_N=0.0, e_F=0.0, name="ball0_plane")]
            mus["ball0_plane"] = 0.3
        if con in ("slide_mu", "frictionless_then_slide"):
            v = np.array([0.7, -0.4, 0.0])
        if con == "frictionless_then_slide":
            m0 = 3.0 * mb
            ball0 = _rb(m0, [0.4 * m0 * rad**2] * 3, [-1.0, 2.0, rad], [1.0, 0, 0, 0], name="ball0")
            contr += [ball0, fo.Force(np.array([0.0, 0.0, -m0 * GRAV]), ball0, name="ball0_load"),
                      co.Sphere2Plane(O, ball0, mu=0.0, r=rad, e_N=0.0, name="ball0_plane")]
            mus["ball0_plane"] = 0.0
        if con == "slide_aniso":
            v = np.array([0.7, -0.4, 0.0])
        if con == "slide_slow":
            v = np.array([2e-4, -1e-4, 0.0])
        if con == "slide_tiny":
            v = np.array([3e-7, 0.0, 0.0])
        if con == "slide_tiny_heavy":
            v = np.array([1e-7, 0.0, 0.0])
            mb = 1.0e5
        if con == "leaving_mu":
            v = np.array([0.2, -0.1, 0.3])
        if con == "slide_x":
            v = np.array([0.7, 0.0, 0.0])
        if con == "slide_y":
            v = np.array([0.0, -0.4, 0.0])
        if bad == "penetration":
            z = rad - 0.01
        if bad == "approaching":
            v = np.array([0.1, 0.0, -0.3])
        th = 0.4 * mb * rad**2
        plane = O
        kw = {}
        om = None
        if con == "accel_plane":
            # plane accelerating upwards and sideways from rest (zeta_N, zeta_F != 0): the ball has to follow
            from cardillo.discrete import Frame

            acc = np.array([0.8, -0.5, 2.0])
            plane = Frame(r_OP=lambda t: 0.5 * acc * t * t, r_OP_t=lambda t: acc * t, r_OP_tt=lambda t: acc, name="moving_plane")
            contr.append(plane)
        ball_pos = [2.0, -1.0, z]
        if con in ("ceiling_mu", "ceiling_mu0"):
            # ball pressed from below against a plane whose normal points DOWN: the contact reaction lowers the
            # acceleration components (sign-sensitive convergence tests, normals other than +e_z)
            from cardillo.discrete import Frame

            plane = Frame(A_IB=np.diag([1.0, -1.0, -1.0]), name="ceiling")
            contr.append(plane)
            ball_pos = [2.0, -1.0, -rad]
            ft = np.array([0.1, -0.05, 2.0]) * mb * GRAV
        if con == "incline_stick":
            # ball resting on a plane inclined by 0.2 rad about a generic horizontal axis (tan 0.2 < mu for a sliding block;
            # a sphere rolls, the initial state is at rest so friction is static)
            from cardillo.discrete import Frame

            ax = np.array([0.6, 0.8, 0.0])
            ang = 0.2
            K = np.array([[0, -ax[2], ax[1]], [ax[2], 0, -ax[0]], [-ax[1], ax[0], 0]])
            A_pl = np.eye(3) + np.sin(ang) * K + (1 - np.cos(ang)) * K @ K
            plane = Frame(A_IB=A_pl, name="incline")
            contr.append(plane)
            ball_pos = list(np.array([0.7, -0.3, 0.0]) @ A_pl.T + rad * A_pl[:, 2])
        if con == "spin_offcentre":
            # contact sphere centred off the centre of mass of a spinning body: centripetal term in zeta_N;
            # spin about the vertical through the sphere centre P (v_P = 0, contact point at rest)
            kw = {"B_r_CP": np.array([0.15, 0.1, 0.0])}
            om = np.array([0.0, 0.0, 1.7])
            v = -_cross(om, kw["B_r_CP"])
        ball = _rb(mb, [th, 4 * th, 2.5 * th] if con == "slide_aniso" else [th, th, th], ball_pos, [1.0, 0, 0, 0], v=v, omega_I=om, name="ball")
        s2p = co.Sphere2Plane(plane, ball, mu=mu, r=rad, e_N=0.0, e_F=0.0, name="ball_plane", **kw)
        contr += [ball, fo.Force(np.array([0.0, 0.0, -mb * GRAV]) + ft, ball, name="ball_load"), s2p]
        mus["ball_plane"] = mu
        if con in ("two_spheres", "two_spheres_slide") or bad == "s2s_penetration":
            z2 = z + 2 * rad - (0.01 if bad == "s2s_penetration" else 0.0)
            # sliding variant: the upper ball translates horizontally (two frictional contacts with different normal forces)
            v2 = np.array([0.5, 0.2, 0.0]) if con == "two_spheres_slide" else None
            ball2 = _rb(mb, [th, th, th], [2.0, -1.0, z2], [1.0, 0, 0, 0], v=v2, name="ball2")
            s2s = co.Sphere2Sphere(ball, ball2, rad, rad, mu=0.3, e_N=0.0, e_F=0.0, name="ball_ball")
            contr += [ball2, fo.Force(np.array([0.0, 0.0, -mb * GRAV]), ball2, name="ball2_load"), s2s]
            mus["ball_ball"] = 0.3
    for c in contr:
        system.add(c)

    if bad == "position_offset":
        # library joints re-anchor themselves at every assembly (g(q0) = 0 by construction); a position-level
        # violation needs a constraint with a fixed reference: the synthetic contribution, moved off its reference
        x = Synth(k=seed % 5, with_contact=False, name="synth_offset")
        x.q0 = x._qref + np.array([0.05, -0.02, 0.03])
        system.add(x)
    prepare = None
    if bad == "joint_offset" and tip is not None:
        # after a first (consistent) assembly the tip body is moved and the system assembled again.  If the joint
        # re-anchors itself at the new q0 the state is consistent again (the check measures this and counts the
        # variant as trivial); if the joint keeps its frames from the first assembly the state must be rejected.
        def prepare():
            q = np.array(tip.q0, float).copy()
            q[:3] = q[:3] * 1.02 + np.array([0.0, 0.02, 0.0])
            tip.q0 = q
    return {"system": system, "mus": mus, "expect_raise": bad is not None, "prepare": prepare}
