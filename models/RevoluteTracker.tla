---------------------------- MODULE RevoluteTracker ----------------------------
(* Reference model of the quadrant/turn tracker behind Revolute.l (cardillo/constraints/revolute.py).
   The relative rotation lives on the lattice 2*pi/N; acc is the true accumulated lattice position,
   (quad, turns) is the tracker state.  On the coordinate axes (x = 0 or y = 0 up to rounding) the
   floating-point implementation may land in either adjacent quadrant, so the model is
   nondeterministic there: the invariant has to hold for every choice. *)
EXTENDS Integers
CONSTANTS N, K, B        \* lattice size (multiple of 4), max |increment| (K*4 < N), bound on |acc|
VARIABLES acc, quad, turns

Incs == (-K)..K
Pos(a) == a % N                       \* 0..N-1  (TLA+ % is non-negative for positive divisor)

\* admissible quadrants of lattice position p (axes are ambiguous)
Quads(p) ==
  IF p = 0 THEN {1, 4}
  ELSE IF p < N \div 4 THEN {1}
  ELSE IF p = N \div 4 THEN {1, 2}
  ELSE IF p < N \div 2 THEN {2}
  ELSE IF p = N \div 2 THEN {2, 3}
  ELSE IF p < 3 * (N \div 4) THEN {3}
  ELSE IF p = 3 * (N \div 4) THEN {3, 4}
  ELSE {4}

\* angle within the reported quadrant, in lattice units, as the arctan formulas of the code give it
InQuad(p, qd) ==
  IF p = 0 /\ qd = 4 THEN N      \* 1.5*pi + arctan(x/-y) -> 2*pi
  ELSE p

Reported == turns * N + InQuad(Pos(acc), quad)

Init == acc = 0 /\ quad = 1 /\ turns = 0

Step(k) ==
  /\ acc' = acc + k
  /\ acc' \in (-B)..B
  /\ \E qn \in Quads(Pos(acc')) :
       /\ quad' = qn
       /\ turns' = IF quad = 4 /\ qn = 1 THEN turns + 1
                   ELSE IF quad = 1 /\ qn = 4 THEN turns - 1
                   ELSE turns

Next == \E k \in Incs : Step(k)

Spec == Init /\ [][Next]_<<acc, quad, turns>>

AngleIsAccumulated == Reported = acc
=============================================================================
