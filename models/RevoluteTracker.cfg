CONSTANTS
  N = 16
  K = 3
  B = 40
INIT Init
NEXT Next
INVARIANT AngleIsAccumulated
